//! C19 witnesses, default feature set (`unsync-regex-caching`): the engine must NOT be `Sync`.
//!
//! Compiling twin (differs only by the offending bound): `Engine` is `Send`-able state plus a
//! `RefCell`, so requiring nothing compiles.
//! ```
//! fn needs_nothing<T>() {}
//! needs_nothing::<adblock::Engine>();
//! ```
//!
//! The witness: sharing the RefCell build between threads must not type-check.
//! ```compile_fail,E0277
//! fn needs_sync<T: Sync>() {}
//! needs_sync::<adblock::Engine>();
//! ```
