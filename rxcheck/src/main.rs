use std::io::BufRead;

fn unjson(s: &str) -> String {
    // minimal JSON string decoder (\" \\ \n \t \r \uXXXX)
    let s = s.trim();
    let s = &s[1..s.len() - 1];
    let mut out = String::new();
    let mut it = s.chars();
    while let Some(c) = it.next() {
        if c != '\\' {
            out.push(c);
            continue;
        }
        match it.next() {
            Some('n') => out.push('\n'),
            Some('t') => out.push('\t'),
            Some('r') => out.push('\r'),
            Some('u') => {
                let h: String = it.by_ref().take(4).collect();
                if let Some(ch) = u32::from_str_radix(&h, 16).ok().and_then(char::from_u32) {
                    out.push(ch);
                }
            }
            Some(o) => out.push(o),
            None => {}
        }
    }
    out
}

fn main() {
    for line in std::io::stdin().lock().lines() {
        let line = line.unwrap();
        if line.trim().is_empty() {
            continue;
        }
        let pat = unjson(&line);
        match regex_syntax::Parser::new().parse(&pat) {
            Ok(hir) => println!("ok {}", hir.properties().explicit_captures_len()),
            Err(e) => println!("err {}", e.to_string().replace('\n', " ")),
        }
    }
}
