use std::io::BufRead;

fn unjson(s: &str) -> String {
    // minimal JSON string decoder (\" \\ \n \t \r \uXXXX)
    let s = s.trim();
    let s = &s[1..s.len() - 1];
    let mut out = String::new();
    let mut it = s.chars();
    while let Some(c) = it.next() {
        if c != '\\' {
            out.push(c);
            continue;
        }
        match it.next() {
            Some('n') => out.push('\n'),
            Some('t') => out.push('\t'),
            Some('r') => out.push('\r'),
            Some('u') => {
                let h: String = it.by_ref().take(4).collect();
                if let Some(ch) = u32::from_str_radix(&h, 16).ok().and_then(char::from_u32) {
                    out.push(ch);
                }
            }
            Some(o) => out.push(o),
            None => {}
        }
    }
    out
}

/// Leftmost-first behavioural equivalence of two patterns, anchored at the start of the haystack: the product of
/// the two dense DFAs is explored breadth-first; the patterns agree iff in every reachable pair of states both or
/// neither are match states (also after the end-of-input transition). Agreement of anchored searches from every
/// position implies agreement of the unanchored leftmost searches built from them.
/// Returns None if equivalent, otherwise a shortest distinguishing input.
fn distinguishing_input(a: &str, b: &str) -> Result<Option<Vec<u8>>, String> {
    use regex_automata::dfa::{dense, Automaton, StartKind};
    use regex_automata::util::start;
    use regex_automata::{Anchored, MatchKind};
    use std::collections::{HashMap, VecDeque};
    let build = |p: &str| {
        dense::Builder::new()
            .configure(
                dense::Config::new()
                    .start_kind(StartKind::Anchored)
                    .match_kind(MatchKind::LeftmostFirst)
                    .minimize(false),
            )
            .build(p)
            .map_err(|e| e.to_string())
    };
    let (da, db) = (build(a)?, build(b)?);
    let cfg = start::Config::new().anchored(Anchored::Yes);
    let sa = da.start_state(&cfg).map_err(|e| e.to_string())?;
    let sb = db.start_state(&cfg).map_err(|e| e.to_string())?;
    let mut seen: HashMap<_, (Option<(_, u8)>,)> = HashMap::new();
    let mut queue = VecDeque::new();
    seen.insert((sa, sb), (None,));
    queue.push_back((sa, sb));
    let path = |seen: &HashMap<_, (Option<(_, u8)>,)>, mut at| {
        let mut out = vec![];
        while let Some((Some((prev, byte)),)) = seen.get(&at) {
            out.push(*byte);
            at = *prev;
        }
        out.reverse();
        out
    };
    while let Some((x, y)) = queue.pop_front() {
        if seen.len() > 2_000_000 {
            return Err("product automaton too large".into());
        }
        if da.is_quit_state(x) || db.is_quit_state(y) {
            return Err("quit state (unsupported look-around)".into());
        }
        let (ex, ey) = (da.next_eoi_state(x), db.next_eoi_state(y));
        if da.is_match_state(x) != db.is_match_state(y) || da.is_match_state(ex) != db.is_match_state(ey) {
            return Ok(Some(path(&seen, (x, y))));
        }
        if da.is_dead_state(x) && db.is_dead_state(y) {
            continue;
        }
        for byte in 0..=255u8 {
            let n = (da.next_state(x, byte), db.next_state(y, byte));
            if !seen.contains_key(&n) {
                seen.insert(n, (Some(((x, y), byte)),));
                queue.push_back(n);
            }
        }
    }
    Ok(None)
}

fn main() {
    for line in std::io::stdin().lock().lines() {
        let line = line.unwrap();
        if line.trim().is_empty() {
            continue;
        }
        if let Some(rest) = line.strip_prefix("bytes\t") {
            // which single bytes does the pattern (byte-oriented: Unicode mode off, invalid UTF-8 allowed) accept as a
            // complete one-byte haystack: read off the automaton, one transition + the end-of-input transition per byte
            use regex_automata::dfa::{dense, Automaton, StartKind};
            use regex_automata::util::{start, syntax};
            use regex_automata::{Anchored, MatchKind};
            let pat = unjson(rest);
            let built = dense::Builder::new()
                .configure(dense::Config::new().start_kind(StartKind::Anchored).match_kind(MatchKind::All))
                .syntax(syntax::Config::new().unicode(false).utf8(false))
                .thompson(regex_automata::nfa::thompson::Config::new().utf8(false))
                .build(&format!("(?:{})$", pat));
            match built {
                Err(e) => println!("err {}", e.to_string().replace('\n', " ")),
                Ok(dfa) => match dfa.start_state(&start::Config::new().anchored(Anchored::Yes)) {
                    Err(e) => println!("err {}", e),
                    Ok(s0) => {
                        let mut out = String::new();
                        for b in 0..=255u8 {
                            let s1 = dfa.next_state(s0, b);
                            if dfa.is_match_state(dfa.next_eoi_state(s1)) {
                                out.push_str(&format!("{:02x}", b));
                            }
                        }
                        println!("bytes {}", out);
                    }
                },
            }
            continue;
        }
        if let Some(rest) = line.strip_prefix("equiv\t") {
            let mut it = rest.split('\t');
            let (a, b) = (unjson(it.next().unwrap_or("\"\"")), unjson(it.next().unwrap_or("\"\"")));
            match distinguishing_input(&a, &b) {
                Ok(None) => println!("equiv"),
                Ok(Some(w)) => println!("differ {}", w.iter().map(|c| format!("{:02x}", c)).collect::<String>()),
                Err(e) => println!("err {}", e.replace('\n', " ")),
            }
            continue;
        }
        let pat = unjson(&line);
        match regex_syntax::Parser::new().parse(&pat) {
            Ok(hir) => println!("ok {}", hir.properties().explicit_captures_len()),
            Err(e) => println!("err {}", e.to_string().replace('\n', " ")),
        }
    }
}
