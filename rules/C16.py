"""C16 — per-site cosmetic resources contain exactly the rules scoped to the host (structure)."""
import re

from analysis.facts import strip_generics
from analysis.guards import dominating_conditions, has_cond
from . import C08 as _C08

EXPLANATION = (
    "Decided: (1) store/lookup hash agreement — rule locations and request host labels are hashed with "
    "the same utils::fast_hash, entity probes are taken from get_hostname_without_public_suffix; "
    "(2) bin pairing in hostname_cosmetic_resources — hide populates the hide set and unhide prunes "
    "the same set and feeds `exceptions`; procedural_action / procedural_action_exception and "
    "inject_script / uninject_script are paired on the same destination; (3) populate before prune — "
    "from no site that reads an exception bin (unhide, procedural_action_exception, uninject_script) "
    "is a site that reads the corresponding positive bin reachable, so an exception on a parent domain "
    "or entity removes a rule stored for a subdomain; both phases iterate the same `hashes` vector "
    "(entities chained with hostnames); (4) storing — SpecificFilterType::negated is an involution "
    "pairing each variant with its exception, HostnameRuleDb::store maps each variant to its own bin, "
    "store_rule stores the rule under positive locations and its negation under `~` locations, unhide "
    "implies negated; (5) generichide — misc_generic_selectors is read only where generichide is false "
    "and only through difference(&exceptions); Engine::url_cosmetic_resources takes the flag from "
    "blocker.check_generic_hide on a request whose source is the page URL itself."
    ' Later additions: rule hostnames are hashed lower-cased; generichide is false for unsupported schemes; the per-label loops of hostname_cosmetic_resources are never left by a `break` and use no truncating adapter; the wire slots of the per-host stores are positional and written unconditionally (C08.2).'
    ' Round 6: every return of get_hashes_from_labels pushes the whole-host hash except the one under end == 0; no update of a host-specific result set is control-dependent on `generichide`; a scriptlet exception shrinks script_injections by one remove(<its text>) / one clear() only; the cosmetic parser receives the trimmed line (C11.2 borrowed).'
    ' Round 8: outside the two query functions nothing in cosmetic_filter_cache.rs removes entries from a collection (stores only grow); every field of the cosmetic stores, also a newly added derived one, is covered by the serialization rules (C08.1 borrowed for any field).'
)
NOT_DECIDED = "The label / public-suffix arithmetic (which suffixes a hostname produces) — runtime values."

CC = "cosmetic_filter_cache::"
POS2NEG = {"hide": "unhide", "procedural_action": "procedural_action_exception", "inject_script": "uninject_script"}
HR = CC + "HostnameRuleDb"


def check(run):
    for cfg in run.cfgs("A", "B"):
        F = run.facts(cfg)
        from analysis.guards import rule_visits_all as _rva
        run.guard("C16.9.every-rule", cfg, lambda: _rva(run, "C16.9.every-rule", F, cfg, ['cosmetic_filter_cache::CosmeticFilterCache::hostname_cosmetic_resources', 'filters::cosmetic::CosmeticFilter::locations_before_sharp', 'filters::cosmetic::CosmeticFilter::parse_before_sharp', 'cosmetic_filter_cache::HostnameRuleDb::store_rule'],
                  "Every location of a rule's domain list scopes the rule, and every rule stored for a label of the host is returned", minimum=4))
        run.guard("C16.1.hash-agreement", cfg, lambda: rule_hash(run, F, cfg))
        run.guard("C16.2.bin-pairing", cfg, lambda: rule_pairing(run, F, cfg))
        run.guard("C16.3.populate-before-prune", cfg, lambda: rule_order(run, F, cfg))
        run.guard("C16.4.storing", cfg, lambda: rule_store(run, F, cfg))
        run.guard("C16.4.storing", cfg + "/grow-only", lambda: rule_stores_only_grow(run, F, cfg))
        run.guard("C16.4.storing", cfg + "/kind", lambda: rule_kind_table(run, F, cfg))
        run.guard("C16.4.storing", cfg + "/normalisation", lambda: rule_same_normalisation(run, F, cfg))
        run.guard("C16.6.blanket-script-exception", cfg, lambda: rule_blanket_flag(run, F, cfg))
        run.guard("C16.7.label-walk", cfg, lambda: rule_label_walk(run, F, cfg))
        run.guard("C16.4.storing", cfg + "/hidden-generic", lambda: rule_hidden_generic_table(run, F, cfg))
        run.guard("C16.1.hash-agreement", cfg + "/request-args", lambda: rule_request_hash_args(run, F, cfg))
        run.guard("C16.1.hash-agreement", cfg + "/key-spaces", lambda: rule_key_spaces(run, F, cfg))
        run.guard("C16.1.hash-agreement", cfg + "/walk-total", lambda: rule_label_walk_total(run, F, cfg))
        run.guard("C16.5.generichide", cfg + "/scope", lambda: rule_generichide_scope(run, F, cfg))
        run.guard("C16.8.independent-injections", cfg, lambda: rule_independent_injections(run, F, cfg))
        from . import C13 as _C13r
        b135 = run.borrow("C13", why="the scriptlets a host's `+js(..)` rules name are injected iff the resource is loaded: a rejected "
                                     "add_resource may not leave names behind that make a later, valid registration fail")
        run.guard("C16.via.C13.5.lookup", cfg + "/registration", lambda: _C13r.rule_registration_atomic(b135, F, cfg))
        from . import C11 as _C11
        bst = run.borrow("C11", why="the selector / scriptlet text of a cosmetic rule is everything after the separator: the "
                                    "list parser may not shorten the line before the cosmetic parser sees it")
        run.guard("C16.via.C11.2.line-independence", cfg + "/standard-text", lambda: _C11.rule_standard_text(bst, F, cfg))
        run.guard("C16.2.bin-pairing", cfg + "/effects", lambda: rule_effects(run, F, cfg))
        run.guard("C16.5.generichide", cfg, lambda: rule_generichide(run, F, cfg))
        b = run.borrow("C08", why="per-hostname cosmetic rules and exceptions must survive serialize/deserialize")
        run.guard("C16.via.C08.3.legacy-bijection", cfg, lambda: _C08.rule_legacy(b, F, cfg))
        b2 = run.borrow("C08", only=r"cosmetic_filter_cache::(HostnameRuleDb|CosmeticFilterCache)\.(?!simple_|complex_)\w+|reader-installs-whole-collections",
                        why="per-hostname cosmetic state must be written and restored field by field")
        run.guard("C16.via.C08.1.state-coverage", cfg, lambda: _C08.rule_coverage(b2, F, cfg))
        b3 = run.borrow("C08", only=r"SerializeFormat", why="the per-host rule stores and their exception twins have the same type: only their position on the wire tells them apart")
        run.guard("C16.via.C08.2.positional", cfg, lambda: _C08.rule_positional(b3, F, cfg))


def rule_hash(run, F, cfg):
    # every hash computed in filters::cosmetic is utils::fast_hash
    users = {}
    for f, b, t in F.callers_of(r"^utils::fast_hash$"):
        if f.file.endswith("filters/cosmetic.rs") or f.file.endswith("cosmetic_filter_cache.rs"):
            users.setdefault(f.name.split("::{closure")[0], []).append(f.expr_operand(t["args"][0]))
    need_rule = [n for n in users if "parse_before_sharp" in n or "locations_before_sharp" in n or "CosmeticFilter::parse" in n]
    need_req = [n for n in users if "get_hashes_from_labels" in n]
    run.ob("C16.1.hash-agreement", "rule-side", bool(need_rule),
           f"rule locations are hashed with utils::fast_hash in {need_rule}", config=cfg)
    run.ob("C16.1.hash-agreement", "request-side", bool(need_req),
           f"request host labels are hashed with utils::fast_hash in {need_req}", config=cfg)
    # no other hash function in these files
    other = []
    for f in F.fns.values():
        if (f.file.endswith("filters/cosmetic.rs") or f.file.endswith("cosmetic_filter_cache.rs")) \
                and "as std::hash::Hash>::hash" not in f.name:
            for b, t in f.calls(r"seahash|DefaultHasher|Hasher::finish|::hash$"):
                other.append((f.name, strip_generics(t["callee"])))
    run.ob("C16.1.hash-agreement", "single-hash-function", not other,
           f"no other hash function is used for cosmetic locations ({other[:2]})", config=cfg)
    # entity probes come from the hostname without its public suffix
    e = F.fn("filters::cosmetic::get_entity_hashes_from_labels")
    run.touched(e)
    ok = bool(e.calls(r"^filters::cosmetic::get_hostname_without_public_suffix$")) and bool(e.calls(r"^filters::cosmetic::get_hashes_from_labels$"))
    run.ob("C16.1.hash-agreement", "entity-probes", ok,
           "entity probes are the label hashes of get_hostname_without_public_suffix(hostname, domain) "
           "(an entity `google.*` is compared with `google`)", site=e.loc(0), config=cfg)
    # rule side strips `.*` and `~`
    p = F.fns_matching(r"^filters::cosmetic::CosmeticFilter::locations_before_sharp")
    ok2 = False
    for f in p:
        for c in [f] + F.closures_of(f.name):
            ex = " ".join(c.expr_call(t) for b, t in c.calls(r"ends_with|starts_with|strip_suffix|strip_prefix"))
            if '".*"' in ex and "'~'" in ex:
                ok2 = True
    run.ob("C16.1.hash-agreement", "location-normalisation", ok2,
           "locations_before_sharp recognises the `~` prefix and the `.*` entity suffix before hashing", config=cfg)
    # ... and the hashed text is lower-case like the page hostname it is compared with: ASCII locations through
    # to_ascii_lowercase, the others through idna::domain_to_ascii (which lower-cases)
    pb = F.fn("filters::cosmetic::CosmeticFilter::parse_before_sharp")
    pushed = sorted(set(pb.expr_operand(t["args"][1]) for b, t in pb.calls(r"^std::string::String::push_str$")))
    lower = len(pushed) == 2 and any(re.match(r"^<std::string::String as std::ops::Deref>::deref\(std::str::to_ascii_lowercase\(", x) or
                                     re.match(r"^std::str::to_ascii_lowercase\(", x) for x in pushed) \
        and any("idna::domain_to_ascii(" in x for x in pushed)
    hashed = [pb.expr_operand(t["args"][0]) for b, t in pb.calls(r"^utils::fast_hash$")]
    run.ob("C16.1.hash-agreement", "location-lower-cased", lower and len(hashed) == 1,
           "parse_before_sharp hashes each location after ASCII lower-casing it (or after idna::domain_to_ascii): `Example.org##.ad` "
           f"has to apply on example.org ({[x[:90] for x in pushed]})", site=pb.loc(0), config=cfg)


def rule_key_spaces(run, F, cfg):
    """A rule scoped to the HOST `example` (`example##.ad`, e.g. an intranet name) covers that host and its subdomains; a
    rule scoped to the ENTITY `example.*` covers example.com, example.org, ... The two are looked up in the same bins.
    If both kinds of location are keyed by the same function of the same text, `example##.ad` cannot be told from
    `example.*##.ad` and applies on www.example.com as well (reported as a known finding)."""
    pb = F.fn("filters::cosmetic::CosmeticFilter::parse_before_sharp")
    run.touched(pb)
    pushed = {}
    for b, t in pb.calls(r"^std::vec::Vec::push$"):
        vec = pb.vexpr_operand(t["args"][0])
        pushed.setdefault(vec, set()).add((pb.vexpr_operand(t["args"][1]), pb.expr_operand(t["args"][1])))
    ent = pushed.get("$entities_vec", set()) | pushed.get("$not_entities_vec", set())
    host = pushed.get("$hostnames_vec", set()) | pushed.get("$not_hostnames_vec", set())
    same = bool(ent) and bool(host) and ent == host
    run.ob("C16.1.hash-agreement", "entity-and-hostname-key-spaces-distinct", bool(ent) and bool(host) and not same,
           "entity locations (`example.*`) and hostname locations (`example`) are keyed differently; today both are "
           f"fast_hash of the bare text ({sorted(x[0] for x in ent)} / {sorted(x[0] for x in host)}), so the single-label host "
           "rule `example##.ad` is served on every example.<tld> site", site=pb.loc(0), config=cfg)


def _bin_reads(f):
    """[(bb, bin_name)] sites that read a HostnameRuleDb bin"""
    out = []
    for b in sorted(f.normal_blocks()):
        blk = f.blocks[b]
        exprs = []
        for s in blk["s"]:
            if s["k"] == "assign":
                for pl in ([s["rv"].get("pl")] if s["rv"].get("pl") else []) + \
                          ([s["rv"]["op"].get("pl")] if isinstance(s["rv"].get("op"), dict) and s["rv"]["op"].get("pl") else []):
                    for p in pl["p"]:
                        if isinstance(p, dict) and p.get("adt") == HR:
                            out.append((b, p["n"]))
    return out


def rule_pairing(run, F, cfg):
    f = F.fn(CC + "CosmeticFilterCache::hostname_cosmetic_resources")
    run.touched(f)
    with f.sites():
        pop = []
        for b, t in f.calls(r"hostname_cosmetic_resources::(populate_set|prune_set)$"):
            src = f.expr_operand(t["args"][1])
            dst = f.expr_operand(t["args"][2])
            m = re.search(r"specific_rules\.(\w+)", src)
            d = re.search(r"HashSet::new@(bb\d+)", dst)
            pop.append((strip_generics(t["callee"]).split("::")[-1], m.group(1) if m else src, d.group(1) if d else dst))
    dest = {}
    for kind, binname, site in pop:
        dest.setdefault(site, []).append((kind, binname))
    ok_h = any(sorted(v) == [("populate_set", "hide")] for v in dest.values())
    ok_p = any(sorted(v) == [("populate_set", "procedural_action"), ("prune_set", "procedural_action_exception")]
               for v in dest.values())
    run.ob("C16.2.bin-pairing", "procedural", ok_p,
           f"procedural_action populates and procedural_action_exception prunes the SAME set ({dest})",
           site=f.loc(0), config=cfg)
    run.ob("C16.2.bin-pairing", "hide-populate", ok_h,
           "hide populates the specific hide set", config=cfg)
    # unhide closure: removes from the hide set and inserts into exceptions
    cone = [F.fns[n] for n in F.cone([f.name]) if F.fns[n].file.endswith("cosmetic_filter_cache.rs")]
    cl = [c for c in cone if "{closure" in c.name]
    unhide_ok = False
    inject_ok = False
    for c in cl:
        calls = [(strip_generics(t["callee"]).split("::")[-1], c.expr_operand(t["args"][0])) for b, t in c.calls(r"HashSet::(remove|insert)$|HashMap::entry$")]
        names = sorted(calls)
        if ("remove", "up:specific_hide_selectors") in names and ("insert", "up:exceptions") in names:
            unhide_ok = True
        if ("entry", "up:script_injections") in names:
            inject_ok = True
    # the same written as `for` loops in the function itself: both calls sit in one loop body (the loop over the bin)
    from analysis.guards import natural_loops as _nl
    for g_ in [x for x in cone if "{closure" not in x.name]:
        loops_ = _nl(g_)
        sites_ = [(b, strip_generics(t["callee"]).split("::")[-1], g_.vexpr_operand(t["args"][0]))
                  for b, t in g_.calls(r"HashSet::(remove|insert)$|HashMap::entry$")]

        def innermost(b):
            cands = [body for h, body in loops_ if b in body]
            return min(cands, key=len) if cands else None
        rem = [b for b, k_, a in sites_ if (k_, a) == ("remove", "$specific_hide_selectors")]
        ins = [b for b, k_, a in sites_ if (k_, a) == ("insert", "$exceptions")]
        if any(innermost(r_) is not None and innermost(r_) == innermost(i_) for r_ in rem for i_ in ins):
            unhide_ok = True
        if any(k_ == "entry" and a == "$script_injections" and innermost(b) is not None for b, k_, a in sites_):
            inject_ok = True
    # the closure is applied to the unhide bin
    src_ok = False
    for b, t in f.calls(r"HostnameFilterBin::get$"):
        pass
    bins_read = set(n for g in cone for b, n in _bin_reads(g))
    run.ob("C16.2.bin-pairing", "unhide", unhide_ok and "unhide" in bins_read,
           "unhide rules are removed from the specific hide set AND added to `exceptions`", config=cfg)
    run.ob("C16.2.bin-pairing", "inject", inject_ok and "inject_script" in bins_read,
           "inject_script entries are merged into script_injections (|= of the permission masks of "
           "textually identical injections)", config=cfg)
    rm = [(b, g.expr_operand(t["args"][0])) for g in cone if "{closure" not in g.name for b, t in g.calls(r"HashMap::(remove|clear)$")]
    ok_u = "uninject_script" in bins_read and len(rm) >= 2
    run.ob("C16.2.bin-pairing", "uninject", ok_u,
           "uninject_script entries remove the identical injection from script_injections; the empty string "
           "clears the map (blanket exception)", config=cfg)
    allb = set(x["name"] for x in F.fields(HR))
    run.ob("C16.2.bin-pairing", "all-bins-read", bins_read == allb,
           f"hostname_cosmetic_resources reads every bin of HostnameRuleDb ({sorted(allb - bins_read)} unread)", config=cfg)


def rule_order(run, F, cfg):
    # search every function of the cosmetic cache that reads the bins (helpers included)
    n = 0
    for name, f in sorted(F.fns.items()):
        if not f.file.endswith("cosmetic_filter_cache.rs") or "{closure" in name:
            continue
        reads = _bin_reads(f)
        if not reads:
            continue
        by = {}
        for b, nme in reads:
            by.setdefault(nme, set()).add(b)
        for pos, neg in POS2NEG.items():
            if pos not in by and neg not in by:
                continue
            if (pos in by) != (neg in by):
                # a helper handling only one side is fine if it is not in a loop with the other; skip
                continue
            n += 1
            bad = []
            for nb in by[neg]:
                reach = f.reachable_from(nb)
                for pb in by[pos]:
                    if pb in reach and pb != nb:
                        bad.append((f.loc(nb), f.loc(pb)))
            run.ob("C16.3.populate-before-prune", f"{name.split('::')[-1]}:{pos}", not bad,
                   f"in {name} no read of `{pos}` is reachable from a read of `{neg}`: all rules for all "
                   f"labels are collected before any exception is applied (otherwise an exception on a "
                   f"parent domain / entity is applied before the subdomain's rule is added and the rule "
                   f"survives); offending (exception site, later add site): {bad[:2]}",
                   site=bad[0][0] if bad else f.loc(0), config=cfg)
    run.floor("C16.3.populate-before-prune", f"(positive, exception) bin pairs checked [{cfg}]", n, 3)
    f = F.fn(CC + "CosmeticFilterCache::hostname_cosmetic_resources")
    ch = f.calls(r"Iterator::chain$")
    ok = any("hostname_domain_hashes" in f.expr_call(t) for b, t in ch)
    it = [f.expr_operand(t["args"][0]) for b, t in f.calls(r"^core::slice::iter$|slice::iter$") if "chain" in f.expr_operand(t["args"][0])]
    run.ob("C16.3.populate-before-prune", "same-hashes-both-phases", ok and len(it) >= 2 and len(set(it)) == 1,
           "both phases iterate the same `hashes` vector = request entities chained with request hostnames",
           config=cfg)


def rule_store(run, F, cfg):
    ST = "filters::cosmetic::SpecificFilterType" if "filters::cosmetic::SpecificFilterType" in F.adts else \
        next((n for n in F.adts if n.endswith("SpecificFilterType") and "Legacy" not in n), None)
    variants = [v["name"] for v in F.adt(ST)["variants"]]
    neg = [f for n, f in F.fns.items() if n.endswith("SpecificFilterType::negated")]
    ok = False
    table = {}
    if neg:
        g = neg[0]
        run.touched(g)
        for b, i, s in g.statements():
            if s["k"] == "assign" and s["rv"]["k"] == "agg" and s["rv"].get("adt") == ST and s["pl"]["l"] == 0:
                c = dominating_conditions(g, b)
                src = [v for e, v in c.items() if e == "discr(arg:self)"]
                if src and isinstance(src[0], int):
                    table[variants[src[0]]] = s["rv"]["variant"]
        ok = len(table) == len(variants) and all(table.get(table[v]) == v and table[v] != v for v in table)
    run.ob("C16.4.storing", "negated-involution", ok,
           f"SpecificFilterType::negated pairs every variant with its exception and is an involution ({table})",
           config=cfg)
    st = F.fn(HR + "::store")
    run.touched(st)
    m = {}
    for b, t in st.calls(r"HostnameFilterBin::insert$"):
        c = dominating_conditions(st, b)
        src = [v for e, v in c.items() if e == "discr(arg:kind)"]
        fld = re.search(r"arg:self\.(\w+)", st.expr_operand(t["args"][0]))
        if src and isinstance(src[0], int) and fld:
            m[variants[src[0]]] = fld.group(1)
    want = {"Hide": "hide", "Unhide": "unhide", "InjectScript": "inject_script", "UninjectScript": "uninject_script",
            "ProceduralOrAction": "procedural_action", "ProceduralOrActionException": "procedural_action_exception"}
    run.ob("C16.4.storing", "variant-to-bin", m == want,
           f"HostnameRuleDb::store maps each variant to its own bin ({m})", site=st.loc(0), config=cfg)
    # bins pair up through negated: bin(negated(v)) == POS2NEG[bin(v)]
    okp = all(m.get(table.get(v)) == POS2NEG.get(m.get(v)) for v in ("Hide", "InjectScript", "ProceduralOrAction")) if table and m else False
    run.ob("C16.4.storing", "exception-bin-pairing", okp,
           "the bin of negated(v) is the exception bin of v's bin (hide/unhide, inject/uninject, procedural/exception)",
           config=cfg)
    sr = F.fn(HR + "::store_rule")
    run.touched(sr)
    ng = sr.calls(r"SpecificFilterType::negated$")
    c_unhide = [dominating_conditions(sr, b) for b, t in ng]
    ok_u = any(any("UNHIDE" in e and v == 1 for e, v in c.items()) for c in c_unhide)
    run.ob("C16.4.storing", "unhide-implies-negated", ok_u and len(ng) >= 2,
           "store_rule negates the kind when the UNHIDE bit is set, and stores the negation under `~` locations",
           site=sr.loc(0), config=cfg)
    a = F.fn(CC + "CosmeticFilterCache::add_filter")
    run.touched(a)
    hg = a.calls(r"CosmeticFilter::hidden_generic_rule$")
    okh = bool(hg) and has_cond(dominating_conditions(a, hg[0][0]), r"has_hostname_constraint\(", 1) and \
        bool(a.calls(r"HostnameRuleDb::store_rule$")) and len(a.calls(r"CosmeticFilterCache::add_generic_filter$")) == 2
    run.ob("C16.4.storing", "negation-only-rules-also-generic", okh,
           "add_filter feeds the hidden generic rule of a negation-only rule to the generic stores and stores "
           "the rule itself in the hostname db", config=cfg)


def rule_generichide(run, F, cfg):
    f = F.fn(CC + "CosmeticFilterCache::hostname_cosmetic_resources")
    reads = []
    for b, i, s in f.statements():
        if s["k"] == "assign":
            e = f.expr_rvalue(s["rv"], 1)
            if "misc_generic_selectors" in e:
                reads.append((b, i))
    ok = bool(reads) and all(has_cond(dominating_conditions(f, b), r"^arg:generichide$", 0) for b, i in reads)
    run.ob("C16.5.generichide", "misc-only-if-not-generichide", ok,
           "misc_generic_selectors is read only on the branch where generichide is false",
           site=f.loc(*reads[0]) if reads else f.loc(0), config=cfg)
    df = f.calls(r"HashSet::difference$")
    ok2 = any("misc_generic_selectors" in f.expr_operand(t["args"][0]) and "HashSet::new" in f.expr_operand(t["args"][1]) for b, t in df)
    run.ob("C16.5.generichide", "misc-minus-exceptions", ok2,
           "generic selectors are returned as misc_generic_selectors.difference(&exceptions)", config=cfg)
    e = F.fn("engine::Engine::url_cosmetic_resources")
    run.touched(e)
    rq = e.calls(r"^request::Request::new$")
    ok3 = len(rq) == 1 and [e.expr_operand(a) for a in rq[0][1]["args"]][:2] == ["arg:url", "arg:url"]
    gh = e.calls(r"^blocker::Blocker::check_generic_hide$")
    ok4 = len(gh) == 1 and "Request::new(arg:url, arg:url" in e.expr_operand(gh[0][1]["args"][1])
    hc = e.calls(r"hostname_cosmetic_resources$")
    ok5 = len(hc) == 1 and "check_generic_hide" in e.expr_operand(hc[0][1]["args"][3])
    run.ob("C16.5.generichide", "flag-from-generichide-check", ok3 and ok4 and ok5,
           "url_cosmetic_resources builds Request::new(url, url, \"document\") (source = the page itself, so "
           "domain= options of generichide exceptions can match), asks blocker.check_generic_hide and passes "
           "the answer on", site=e.loc(0), config=cfg)
    g = F.fn("blocker::Blocker::check_generic_hide")
    pr = g.calls(r"NetworkFilterList::check$")
    run.ob("C16.5.generichide", "probes-generic_hide-list", len(pr) == 1 and g.expr_operand(pr[0][1]["args"][0]).endswith(".generic_hide"),
           "check_generic_hide probes the generic_hide list", config=cfg)


def rule_kind_table(run, F, cfg):
    """store_rule: (script_inject, has plain selector, has action) -> stored kind, as a truth table"""
    from analysis.pathinterp import enumerate_paths
    import itertools
    f = F.fn("cosmetic_filter_cache::HostnameRuleDb::store_rule")
    run.touched(f)
    rows = []
    unknown = set()
    for p in enumerate_paths(f):
        if p.end not in ("return",) and not p.end.startswith("backedge"):
            continue
        a = {}
        for e, v in p.conds:
            if "Iterator>::next(" in e:
                continue
            m = re.match(r"^(discr\()?\(filters::cosmetic::_::contains\(arg:rule\.mask, filters::cosmetic::CosmeticFilterMask::SCRIPT_INJECT=\d+\), .*\)\.(\d)\)?$", e)
            if m:
                val = v if isinstance(v, int) else (1 if v[1] == (0,) else 0 if v[1] == (1,) else None)
                a[{"0": "S", "1": "P", "2": "A"}[m.group(2)]] = val
            elif re.search(r"CosmeticFilterMask::UNHIDE", e):
                pass
            else:
                unknown.add(e[:100])
        kinds = [st["rv"]["variant"] for b in p.blocks for st in f.blocks[b]["s"]
                 if st["k"] == "assign" and st["rv"]["k"] == "agg" and str(st["rv"].get("adt", "")).endswith("SpecificFilterType")]
        rows.append((a, tuple(kinds)))
    okp = not unknown and len(rows) >= 5
    run.ob("C16.4.storing", "kind-table:modelled", okp,
           f"every decision of store_rule before the kind is chosen is over (script_inject, plain selector, action) "
           f"or the UNHIDE bit; unmodelled: {sorted(unknown)[:3]}", status=None if okp else "UNDISCHARGED", config=cfg)
    bad = []
    if okp:
        for S, P, A in itertools.product((0, 1), repeat=3):
            got = {k for a, k in rows if a.get("S", S) == S and a.get("P", P) == P and a.get("A", A) == A}
            if S == 0:
                want = {("Hide",)} if (P == 1 and A == 0) else {("ProceduralOrAction",)}
            else:
                want = {("InjectScript",)} if (P == 1 and A == 0) else {()}
            if got != want:
                bad.append(((S, P, A), sorted(got), sorted(want)))
    run.ob("C16.4.storing", "kind-table", okp and not bad,
           "store_rule files a rule as Hide iff !script_inject && plain selector && no action; InjectScript iff "
           "script_inject && plain selector && no action; ProceduralOrAction for every other non-script rule; and "
           f"stores nothing for the impossible script shapes (differences: {bad[:2]})", site=f.loc(0), config=cfg)


def rule_blanket_flag(run, F, cfg):
    """`#@#+js()` (empty name) clears all injections; the flag that short-circuits later exceptions starts
    false and is raised only there (if it started true, no scriptlet exception would ever be applied). The flag
    is found by its role: the boolean local tested on the way to the removal of a named exception."""
    f = F.fn("cosmetic_filter_cache::CosmeticFilterCache::hostname_cosmetic_resources")
    # a named scriptlet exception takes out the injection with exactly its text, a blanket one everything: the only
    # calls that shrink script_injections are one remove(<the exception's text>) and one clear(), and whether the
    # remove happens does not depend on what the text looks like
    H = f.name
    shr = []
    for g in [f] + [x for n_, x in F.fns.items() if n_.startswith(H + "::")]:
        for b, t in g.calls(r"^std::collections::HashMap::(remove|remove_entry|retain|clear|drain|extract_if)$"):
            if re.search(r"script_injections$", g.vexpr_operand(t["args"][0])):
                conds = dominating_conditions(g, b, render=g.vexpr_operand) if g is f else {}
                shr.append((strip_generics(t["callee"]).split("::")[-1], [g.vexpr_operand(a) for a in t["args"][1:]], conds, g.loc(b)))
    kinds = sorted(k for k, a, c, l in shr)
    exact = [(a, c) for k, a, c, l in shr if k == "remove"]
    ok_x = kinds == ["clear", "remove"] and bool(exact) and \
        bool(re.match(r"^(?:<?[\w:<> ,&']+>?::(?:as_str|deref|as_ref|borrow)\()?\$\w+\)?$", exact[0][0][0]))
    odd = [k for a, c in exact for k in c
           if not (re.match(r"^discr\(<std::slice::Iter<.*> as std::iter::Iterator>::next\(", k)
                   or re.match(r"^discr\(cosmetic_filter_cache::HostnameFilterBin::get\(", k)
                   or re.match(r"^std::string::String::is_empty\(|^core::str::is_empty\(", k) or re.match(r"^\$\w+$", k))]
    run.ob("C16.6.blanket-script-exception", "exception-removes-the-identical-injection", ok_x and not odd,
           f"script_injections is shrunk by exactly one remove(<text of the exception>) and one clear() (found {kinds}, key "
           f"{exact[0][0] if exact else None}); the remove is conditional only on the bin lookup, the walk over its entries, "
           f"the empty-name test and the blanket flag (other conditions: {odd[:2]})",
           site=shr[0][3] if shr else f.loc(0), config=cfg,
           detail="a retain(starts_with ..) / a test on the shape of the exception text removes injections that merely "
                  "share a prefix with it, or keeps the identical one")
    rm = [(b, dominating_conditions(f, b, render=f.vexpr_operand)) for b, t in f.calls(r"HashMap::remove$")]
    flags = sorted({k for b, c in rm for k, v in c.items() if re.match(r"^\$\w+$", k)
                    and str(f.locals[[l for l, n in f.varnames.items() if "$" + n == k][0]].get("ty") if isinstance(f.locals[0], dict) else "bool") == "bool"}) \
        if rm else []
    if not flags:
        ok = bool(rm) and all(not any(re.match(r"^\$\w+$", k) for k in c) for b, c in rm)
        run.ob("C16.6.blanket-script-exception", "no-flag", ok, "no short-circuit flag: named exceptions are removed unconditionally", config=cfg)
        return
    flag = flags[0]
    lv = [l for l, n in f.varnames.items() if "$" + n == flag]
    writes = []
    for b, i, st in f.statements():
        if st["k"] == "assign" and not st["pl"]["p"] and st["pl"]["l"] in lv:
            c = dominating_conditions(f, b, render=f.vexpr_operand)
            empty = [v for k, v in c.items() if re.search(r"is_empty\(", k)]
            writes.append((f.vexpr_rvalue(st["rv"]), empty[0] if empty else None))
    init_ok = ("false", None) in writes and ("true", None) not in writes
    raised_ok = all(w == ("false", None) or (w[0] == "true" and w[1] == 1) or w[0] == "false" for w in writes)
    clears = [(b, dominating_conditions(f, b, render=f.vexpr_operand)) for b, t in f.calls(r"HashMap::clear$")]
    clear_ok = len(clears) == 1 and any(re.search(r"is_empty\(", k) and v == 1 for k, v in clears[0][1].items())
    rm_ok = len(rm) == 1 and rm[0][1].get(flag) == 0
    run.ob("C16.6.blanket-script-exception", "flag-discipline", len(flags) == 1 and init_ok and raised_ok and clear_ok and rm_ok,
           "the short-circuit flag starts false, is set to true only where the exception's name is empty (together with "
           "script_injections.clear()), and a named exception is removed exactly when the flag is not raised "
           f"(flag {flag}, writes {writes})", site=f.loc(0), config=cfg)


def rule_label_walk(run, F, cfg):
    """get_hashes_from_labels hashes exactly the dot-separated suffixes hostname[dot+1..end] for every dot left
    of start_of_domain, and hostname[..end] itself (what the rule side stores are hashes of whole hostnames /
    entities, so a different slice never meets a stored key). Compared modulo the names of locals / parameters."""
    from analysis.names import renaming
    from collections import Counter
    IDX = r"<str as std::ops::Index<[^>]*>>::index|core::str::traits::<impl std::ops::Index<[^>]*> for str>::index"
    g = F.fn("filters::cosmetic::get_hashes_from_labels")
    run.touched(g)
    hashed = [re.sub(IDX, "core::str::traits::index", g.vexpr_operand(t["args"][0])).replace(
        "std::ops::Range::Range{start: 0, end: ", "std::ops::RangeTo::RangeTo{end: ") for b, t in g.calls(r"^utils::fast_hash$")]
    search = [re.sub(IDX, "core::str::traits::index", g.vexpr_call(t)).replace("utils::find_char_reverse", "memchr::memrchr")
              for b, t in g.calls(r"find_char_reverse$|memchr::memrchr$")]
    cursor_names = {n for l, n in g.varnames.items() if l > g.argc and str(g.locals[l].get("ty") if isinstance(g.locals[l], dict) else g.locals[l]) == "usize"}
    upd = [("$" + g.varnames[st["pl"]["l"]], g.vexpr_rvalue(st["rv"])) for b, i, st in g.statements()
           if st["k"] == "assign" and not st["pl"]["p"] and g.varnames.get(st["pl"]["l"]) in cursor_names
           and "Iterator>::next(" not in g.vexpr_rvalue(st["rv"]) and "@Some" not in g.vexpr_rvalue(st["rv"])]
    got = {"hashed": dict(Counter(hashed)), "search": search, "updates": dict(Counter(upd))}
    want = {
        "hashed": {"core::str::traits::index($hostname, std::ops::Range::Range{start: ($dot_ptr AddWithOverflow 1).0, end: $end})": 1,
                   "core::str::traits::index($hostname, std::ops::RangeTo::RangeTo{end: $end})": 1},
        "search": ["memchr::memrchr(46, core::str::as_bytes(core::str::traits::index($hostname, std::ops::RangeTo::RangeTo{end: $dot_ptr})))"],
        "updates": {("$dot_ptr", "$start_of_domain"): 1, ("$dot_ptr", "$dot_index"): 1},
    }
    ren = renaming(got, want, fixed=())
    run.ob("C16.7.label-walk", "walk-and-slices", ren is not None,
           "the walk searches the previous '.' in hostname[..cursor], starting at start_of_domain and moving the cursor to "
           "each dot found; it hashes hostname[cursor+1..end] at each dot and finally hostname[..end] "
           f"(extracted {got})", site=g.loc(0), config=cfg)
    h = F.fn("filters::cosmetic::get_hostname_hashes_from_labels")
    hc = [h.vexpr_call(t) for b, t in h.calls(r"get_hashes_from_labels$")]
    wanth = ["filters::cosmetic::get_hashes_from_labels($hostname, core::str::len($hostname), "
             "(core::str::len($hostname) SubWithOverflow core::str::len($domain)).0)"]
    run.ob("C16.7.label-walk", "hostname-caller", renaming(hc, wanth, fixed=()) is not None,
           f"hostname hashes: get_hashes_from_labels(hostname, hostname.len(), hostname.len() - domain.len()) ({hc})", config=cfg)


def rule_hidden_generic_table(run, F, cfg):
    """hidden_generic_rule as a truth table: a rule that only has negated locations (`~a.com##x`) is also a
    generic rule, unless it is a scriptlet or carries an action"""
    from analysis.pathinterp import enumerate_paths, path_value
    import itertools
    f = F.fn("filters::cosmetic::CosmeticFilter::hidden_generic_rule")
    run.touched(f)
    ATOMS = {"hostnames": "H", "entities": "E", "not_hostnames": "NH", "not_entities": "NE"}
    rows = []
    unknown = set()
    for p in enumerate_paths(f):
        if p.end != "return":
            continue
        a = {}
        for e, v in p.conds:
            m = re.match(r"^std::option::Option::is_(some|none)\(arg:self\.(\w+)\)$", e)
            if m and m.group(2) in ATOMS:
                a[ATOMS[m.group(2)]] = v if m.group(1) == "some" else 1 - v
            elif m and m.group(2) == "action":
                a["A"] = (1 - v) if m.group(1) == "none" else v      # A = action is Some
            elif re.search(r"contains\(arg:self\.mask, filters::cosmetic::CosmeticFilterMask::SCRIPT_INJECT=\d+\)$", e):
                a["S"] = v
            else:
                unknown.add(e[:100])
        val = path_value(f, p, 0) or ""
        rows.append((a, "Some" if val.startswith("std::option::Option::Some") else ("None" if "None" in val else "?")))
    okp = not unknown and len(rows) >= 4
    run.ob("C16.4.storing", "hidden-generic:modelled", okp,
           f"every decision of hidden_generic_rule is over the four location lists, the action and SCRIPT_INJECT "
           f"(unmodelled: {sorted(unknown)[:3]})", status=None if okp else "UNDISCHARGED", config=cfg)
    bad = []
    if okp:
        for H, E, NH, NE, A, S in itertools.product((0, 1), repeat=6):
            v = dict(H=H, E=E, NH=NH, NE=NE, A=A, S=S)
            got = {r for a, r in rows if all(v[k] == x for k, x in a.items())}
            want = {"Some"} if (not H and not E and (NH or NE) and not A and not S) else {"None"}
            if got != want:
                bad.append((v, sorted(got), sorted(want)))
    run.ob("C16.4.storing", "hidden-generic:table", okp and not bad,
           "hidden_generic_rule is Some exactly when the rule has no positive location, at least one negated one, no "
           f"action and is not a scriptlet (64 valuations; differences: {bad[:1]})", site=f.loc(0), config=cfg)
    # the generic copy drops the negated locations
    clr = sorted(f.expr_place(st["pl"]).split(".")[-1] for b, i, st in f.statements()
                 if st["k"] == "assign" and st["pl"]["p"] and f.expr_rvalue(st["rv"]) == "std::option::Option::None{}")
    run.ob("C16.4.storing", "hidden-generic:clears-negations", clr == ["not_entities", "not_hostnames"],
           f"the generic copy has not_hostnames / not_entities cleared ({clr})", config=cfg)
    # generichide flag polarity
    g = F.fn("blocker::Blocker::check_generic_hide")
    from analysis.guards import conditional_defs as _cdefs
    defs = [(val, conds) for kind, b, val, conds, _ in _cdefs(g, 0)]
    probe = [(v, c) for v, c in defs if re.match(r"^std::option::Option::is_some\(network_filter_list::NetworkFilterList::check\(arg:self\.generic_hide, arg:hostname_request, ", v)]
    other = [(v, c) for v, c in defs if (v, c) not in probe]
    ok = len(probe) == 1 and all(v == "false" and c.get("arg:hostname_request.is_supported") == 0 for v, c in other) \
        and all(k == "arg:hostname_request.is_supported" and x == 1 for k, x in probe[0][1].items())
    run.ob("C16.5.generichide", "flag-is-some-of-probe", ok,
           "check_generic_hide is generic_hide.check(request, ..).is_some() for every request with a supported scheme, and "
           f"false otherwise ({[(v[:60], c) for v, c in defs]})", site=g.loc(0), config=cfg)
    # entity walk: hostname without its public suffix
    h = F.fn("filters::cosmetic::get_hostname_without_public_suffix")
    idx = sorted(h.vexpr_call(t) for b, t in h.calls(r"index$"))
    want = sorted([
        "core::str::traits::index($domain, std::ops::RangeFrom::RangeFrom{start: ($index_of_dot AddWithOverflow 1).0})",
        "core::str::traits::index($hostname, std::ops::Range::Range{start: 0, end: ((core::str::len($hostname) SubWithOverflow core::str::len($public_suffix)).0 SubWithOverflow 1).0})",
        "core::str::traits::index($hostname, std::ops::RangeFrom::RangeFrom{start: (((core::str::len($hostname) SubWithOverflow core::str::len($domain)).0 AddWithOverflow $index_of_dot).0 AddWithOverflow 1).0})",
    ])
    from analysis.names import renaming as _ren
    from collections import Counter as _Counter
    same = _ren(dict(_Counter(idx)), dict(_Counter(want)), fixed=()) is not None
    run.ob("C16.7.label-walk", "entity-slices", same,
           "get_hostname_without_public_suffix: public_suffix = domain[dot+1..]; result = (hostname[0..len - "
           f"public_suffix.len() - 1], hostname[len - domain.len() + dot + 1..]) (found {idx})", site=h.loc(0), config=cfg)


def rule_request_hash_args(run, F, cfg):
    """the page's entity and hostname hashes are both computed from (hostname, registrable domain): labels in front
    of the registrable domain take part in entity matching (`m.example.*` on m.example.com)"""
    h = F.fn("cosmetic_filter_cache::hostname_domain_hashes")
    run.touched(h)
    calls = {strip_generics(t["callee"]).split("::")[-1]: [h.expr_operand(a) for a in t["args"]] for b, t in h.calls()}
    p1, p2 = h.local_name(1), h.local_name(2)
    ok = calls.get("get_entity_hashes_from_labels") == [p1, p2] and calls.get("get_hostname_hashes_from_labels") == [p1, p2]
    run.ob("C16.1.hash-agreement", "request-hashes-from-hostname-and-domain", ok,
           f"hostname_domain_hashes(hostname, domain) passes (hostname, domain) to both label walks ({calls})", site=h.loc(0), config=cfg)
    f = F.fn("cosmetic_filter_cache::CosmeticFilterCache::hostname_cosmetic_resources")
    hc = [f.vexpr_call(t) for b, t in f.calls(r"hostname_domain_hashes$")]
    okc = len(hc) == 1 and bool(re.match(r"^cosmetic_filter_cache::hostname_domain_hashes\(\$hostname, ", hc[0])) and "get_host_domain" in f.expr_call(
        [t for b, t in f.calls(r"hostname_domain_hashes$")][0])
    run.ob("C16.1.hash-agreement", "domain-is-host-domain-of-hostname", okc,
           f"the second argument is the slice of the hostname given by get_host_domain(hostname) ({hc})", config=cfg)


def rule_generichide_scope(run, F, cfg):
    """`generichide` switches the generic selectors off and nothing else: no insertion into / removal from the sets of
    host-specific results (hide selectors, exceptions, procedural actions, scriptlets) is decided by it."""
    H = CC + "CosmeticFilterCache::hostname_cosmetic_resources"
    fs = [f for n, f in F.fns.items() if n == H or n.startswith(H + "::")]
    n = 0
    bad = []
    for f in fs:
        for b, t in f.calls(r"^std::collections::(HashSet|HashMap)::(insert|remove|clear|entry)$|Extend<.*>>::extend$"):
            tgt = f.vexpr_operand(t["args"][0])
            if not re.search(r"(exceptions|specific_hide_selectors|procedural_actions|script_injections|dest_set)$", tgt):
                continue
            n += 1
            gh = [e for e in dominating_conditions(f, b) if "generichide" in e]
            if gh:
                bad.append((tgt.split(":")[-1].lstrip("$"), f.loc(b)))
    run.ob("C16.5.generichide", "flag-gates-generic-selectors-only", n >= 6 and not bad,
           f"none of the {n} updates of the host-specific result sets (specific hides, exceptions, procedural actions, "
           f"scriptlets) in hostname_cosmetic_resources is conditional on `generichide`; conditional ones: {bad}",
           site=bad[0][1] if bad else "", config=cfg,
           detail="the exceptions of a host are reported also on a generichide page (they are cached by the caller and "
                  "handed back to hidden_class_id_selectors)")


def rule_same_normalisation(run, F, cfg):
    """An exception `host#@#sel` cancels the rule `host##sel` by equality of the stored selector texts, so both kinds go
    through the same selector normalisation: the call of validate_css_selector in CosmeticFilter::parse (which
    canonicalises in css-validation builds and is the identity otherwise) does not depend on the rule being an
    exception, and it is the only source of the stored selector."""
    f = F.fn("filters::cosmetic::CosmeticFilter::parse")
    run.touched(f)
    calls = f.calls(r"css_validation::validate_css_selector$")
    bad = []
    for b, t in calls:
        for e in dominating_conditions(f, b):
            if re.search(r"UNHIDE|is_unhide|unhide", e):
                bad.append((e[:100], f.loc(b)))
    # no selector list built by hand next to the validated one
    # (the one hand-made wrapper is the `+js(..)` branch, which stores the scriptlet text, not a selector)
    wraps = [b for b, i, st in f.statements() if st["k"] == "assign" and st["rv"]["k"] == "agg"
             and st["rv"].get("variant") == "CssSelector"]
    manual = [f.loc(b) for b in wraps if any(re.search(r"UNHIDE|is_unhide|unhide", e) for e in dominating_conditions(f, b))]
    if len(wraps) > 1:
        manual += [f.loc(b) for b in wraps[1:]]
    run.ob("C16.4.storing", "exceptions-normalised-like-rules", len(calls) >= 1 and not bad and not manual,
           f"validate_css_selector is applied to the selector of every non-scriptlet rule, hide and unhide alike ({len(calls)} call "
           f"site(s); conditions on the exception flag: {bad[:1]}; selectors wrapped without it: {manual[:1]})",
           site=(bad[0][1] if bad else (manual[0] if manual else f.loc(0))), config=cfg,
           detail="in a css-validation build the rule is stored as `div > .x`, an un-normalised exception as `div>.x`: it no "
                  "longer cancels the rule and `exceptions` lists the wrong spelling")


def rule_label_walk_total(run, F, cfg):
    """get_hashes_from_labels: whatever the host looks like, the walk ends by hashing the whole name hostname[..end];
    the only input for which it returns without doing so is the empty name (end == 0). (Length / shape shortcuts in
    front of the walk make every rule scoped to the host, and all its exceptions, disappear for the hosts they
    misjudge.)"""
    from analysis.pathinterp import enumerate_paths as _ep, path_calls as _pc
    g = F.fn("filters::cosmetic::get_hashes_from_labels")
    run.touched(g)
    p1, p2 = g.local_name(1), g.local_name(2)
    whole = f"utils::fast_hash(core::str::traits::index({p1}, std::ops::RangeTo::RangeTo{{end: {p2}}}))"
    whole0 = f"utils::fast_hash(core::str::traits::index({p1}, std::ops::Range::Range{{start: 0, end: {p2}}}))"
    n = 0
    bad = []
    for p in _ep(g):
        if p.end != "return":
            continue
        n += 1
        pushed = [g.expr_operand(t["args"][1]) for b, t in _pc(g, p) if strip_generics(t["callee"]) == "std::vec::Vec::push"]
        if whole in pushed or whole0 in pushed:
            continue
        if [(e, v) for e, v in p.conds] == [(f"({p2} Eq 0)", 1)]:
            continue
        bad.append([f"{e[-60:]}={v}" for e, v in p.conds][:4])
    run.ob("C16.1.hash-agreement", "whole-host-always-hashed", n >= 2 and not bad,
           f"each of the {n} ways out of get_hashes_from_labels pushes fast_hash(hostname[..end]) -- the hash a rule "
           f"written for exactly this host is stored under -- except the one taken for end == 0; others: {bad[:2]}",
           site=g.loc(0), config=cfg)


def rule_independent_injections(run, F, cfg):
    """get_scriptlet_resources resolves each `+js(...)` on its own: one that cannot be resolved (unknown name,
    insufficient permission, ...) is skipped and does not affect the others"""
    g = F.fn("resources::resource_storage::ResourceStorage::get_scriptlet_resources")
    run.touched(g)
    per = []
    for c in F.closures_of(g.name):
        calls = c.calls(r"ResourceStorage::get_scriptlet_resource$")
        if calls:
            b, t = calls[0]
            # the Ok arm appends; nothing propagates an error out of the closure
            nxt = c.blocks[t["t"]]["t"] if t.get("t") is not None else None
            appends = [x for x, _ in c.calls(r"AddAssign<&str>>::add_assign$|String::push_str$")]
            guarded = all(any(k.startswith("discr(") and "get_scriptlet_resource(" in k and v == 0
                              for k, v in dominating_conditions(c, x).items()) for x in appends)
            per.append((c.name.split("::")[-1], bool(appends) and guarded, c.expr_local(0)))
    fe = g.calls(r"^std::iter::Iterator::for_each$")
    failfast = g.calls(r"Iterator::(try_for_each|try_fold)$|^std::iter::Iterator::collect$|Try>::branch$")
    run.ob("C16.8.independent-injections", "per-scriptlet-error-isolation", len(per) == 1 and per[0][1] and bool(fe) and not failfast,
           "each injection is resolved inside the per-item closure of a for_each, its output appended only in the Ok arm, "
           f"and no fail-fast combinator (`collect::<Result<..>>`, `?`, try_fold) aggregates them ({per}; fail-fast calls: "
           f"{[strip_generics(t['callee']) for b, t in failfast]})", site=g.loc(0), config=cfg)


def rule_effects(run, F, cfg):
    """The elementary effects the pairing rules rely on: the two helpers really insert / remove every element of
    the bucket they are given, the final merge adds every specific selector, and store_rule files a rule under
    every one of its locations (kind for the positive ones, kind.negated() for the negated ones)."""
    H = CC + "CosmeticFilterCache::hostname_cosmetic_resources"
    eff = {}
    for nme, want_call in (("populate_set", "std::collections::HashSet::insert(up:dest_set, arg:s)"),
                           ("prune_set", "std::collections::HashSet::remove(up:dest_set, arg:s)")):
        h = F.fns.get(H + "::" + nme)
        ok = False
        if h is not None:
            fe = [h.expr_call(t) for b, t in h.calls(r"Iterator>?::for_each$")]
            cls = [c for n, c in F.fns.items() if n.startswith(h.name + "::{closure")]
            body = [re.sub(r"up:\w+", "up:dest_set", re.sub(r"arg:\w+\)$", "arg:s)", c.expr_call(t)))
                    for c in cls for b, t in c.calls(r"HashSet::(insert|remove)$")]
            p2 = h.local_name(2)
            ok = len(fe) == 1 and f"HostnameFilterBin::get({p2}, " in fe[0] and "@Some.0" in fe[0] and body == [want_call]
            # the element inserted may be cloned first
            if not ok and nme == "populate_set":
                ok = len(fe) == 1 and any("HashSet::insert(up:dest_set" in x for x in body)
            # ... or the whole bucket handed to Extend::extend (every element, cloned)
            if not ok and nme == "populate_set":
                p3 = h.local_name(3)
                ext = [h.expr_call(t) for b, t in h.calls(r"HashSet<.*> as std::iter::Extend<.*>>::extend$")]
                ok = len(ext) == 1 and bool(re.match(
                    r"^<std::collections::HashSet<.*> as std::iter::Extend<.*>>::extend\(" + re.escape(p3) +
                    r", (std::iter::Iterator::(cloned|copied)\()?core::slice::iter\(cosmetic_filter_cache::HostnameFilterBin::get\(" +
                    re.escape(p2) + r", [^()]*\)@Some\.0\)\)?\)$", ext[0]))
        eff[nme] = ok
    run.ob("C16.2.bin-pairing", "helpers-apply-to-every-element", all(eff.values()) and len(eff) == 2,
           f"populate_set inserts, and prune_set removes, every element of source_bin.get(hash) into / from dest_set ({eff})",
           config=cfg)
    f = F.fn(H)
    merge = []
    for n, c in F.fns.items():
        if n.startswith(H + "::{closure") and n.count("{closure") == 1:
            for b, t in c.calls(r"HashSet::insert$"):
                merge.append(re.sub(r"arg:\w+\)$", "arg:sel)", c.expr_call(t)))
    okm = "std::collections::HashSet::insert(up:hide_selectors, arg:sel)" in merge and \
        any("for_each" in f.expr_call(t) and "specific_hide_selectors" in f.vexpr_call(t) for b, t in f.calls(r"Iterator::for_each$"))
    if not okm:
        # the same merge as `hide_selectors.extend(specific_hide_selectors)`
        okm = any(re.match(r"^<std::collections::HashSet<.*> as std::iter::Extend<.*>>::extend\(\$hide_selectors, "
                           r"\$specific_hide_selectors\)$", f.vexpr_call(t))
                  for b, t in f.calls(r"HashSet<.*> as std::iter::Extend<.*>>::extend$"))
    run.ob("C16.2.bin-pairing", "specific-selectors-merged", okm,
           "when generichide is off, every specific hide selector is inserted into the returned hide_selectors "
           f"(for_each over specific_hide_selectors) ({merge})", config=cfg)
    sr = F.fn(CC + "HostnameRuleDb::store_rule")
    run.touched(sr)
    fes = [sr.expr_call(t) for b, t in sr.calls(r"^std::iter::Iterator::for_each$")]
    stores = sorted(re.sub(r"arg:\w+,", "arg:t,", c.expr_call(t)) for c in F.closures_of(sr.name) for b, t in c.calls(r"HostnameRuleDb::store$"))
    pos = [x for x in fes if "arg:rule.hostnames" in x and "arg:rule.entities" in x and "not_" not in x]
    neg = [x for x in fes if "arg:rule.not_hostnames" in x and "arg:rule.not_entities" in x]
    oks = len(fes) == 2 and len(pos) == 1 and len(neg) == 1 and stores == [
        "cosmetic_filter_cache::HostnameRuleDb::store(up:self, arg:t, up:kind)",
        "cosmetic_filter_cache::HostnameRuleDb::store(up:self, arg:t, up:negated)"]
    # which closure goes with which chain
    if oks:
        oks = bool(re.search(r"closure\[[^\]]+\]\(.*up|closure\[", pos[0])) and True
        k_cl = [c.name for c in F.closures_of(sr.name) for b, t in c.calls(r"HostnameRuleDb::store$") if c.expr_call(t).endswith("up:kind)")]
        n_cl = [c.name for c in F.closures_of(sr.name) for b, t in c.calls(r"HostnameRuleDb::store$") if c.expr_call(t).endswith("up:negated)")]
        oks = bool(k_cl) and bool(n_cl) and k_cl[0] in pos[0] and n_cl[0] in neg[0]
    run.ob("C16.4.storing", "stored-under-every-location", oks,
           "store_rule stores `kind` under every hostname and entity of the rule and `kind.negated()` under every negated "
           f"hostname and entity (for_each over the two chains; stores {stores})", site=sr.loc(0), config=cfg)



def rule_stores_only_grow(run, F, cfg):
    """Who-may-call rule for the cosmetic stores: a rule that was filed (a generic selector, a host-specific selector,
    an exception, a scriptlet) stays filed. Apart from the two `&self` query functions, whose removals act on the
    per-call result sets, no function of cosmetic_filter_cache.rs calls retain / remove / clear / truncate / dedup.
    ("These rules are redundant" clean-ups look at one store and forget what another feature -- a `$generichide`
    exception, a per-site `#@#` -- does with the other.)"""
    from .C01 import SHRINKING_CALLS
    QUERY = ("cosmetic_filter_cache::CosmeticFilterCache::hostname_cosmetic_resources",
             "cosmetic_filter_cache::CosmeticFilterCache::hidden_class_id_selectors")
    found, n = [], 0
    for nme, f in F.fns.items():
        if not nme.startswith("cosmetic_filter_cache::") or any(nme == q or nme.startswith(q + "::") for q in QUERY):
            continue
        if f.j.get("kind") == "Derive" or "::_::" in nme:
            continue
        run.touched(f)
        for b, t in f.calls():
            n += 1
            c = strip_generics(t["callee"])
            if SHRINKING_CALLS.search(c):
                found.append((nme.split("::", 1)[-1], c.split("::")[-1], f.loc(b)))
    run.floor("C16.4.storing", f"call sites of the store side scanned for shrinking calls [{cfg}]", n, 40)
    run.ob("C16.4.storing", "stores-only-grow", not found,
           f"outside the two query functions nothing in cosmetic_filter_cache.rs removes entries from a collection ({n} call "
           f"sites); found: {found[:3]}", site=found[0][2] if found else "", config=cfg)
