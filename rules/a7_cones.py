"""Entry points of the cones audited by A7, per property."""
PARSE_ROOTS = [
    "lists::parse_filter", "lists::parse_filters", "lists::parse_filters_with_metadata",
    "lists::FilterSet::add_filters", "lists::FilterSet::add_filter", "lists::FilterSet::add_filter_list",
    "lists::read_list_metadata", "filters::network::NetworkFilter::parse",
    "filters::network::NetworkFilter::parse_hosts_style", "filters::cosmetic::CosmeticFilter::parse",
    "resources::resource_storage::parse_scriptlet_args",
    "engine::Engine::from_rules", "engine::Engine::from_rules_debug", "engine::Engine::from_rules_parametrised",
    "engine::Engine::from_filter_set",
]
REQUEST_ROOTS = ["request::Request::new", "request::Request::preparsed", "url_parser::parse_url"]
LOAD_ROOTS = ["engine::Engine::deserialize"]
QUERY_ROOTS = [
    "engine::Engine::check_network_request", "engine::Engine::check_network_request_subset",
    "engine::Engine::get_csp_directives", "engine::Engine::url_cosmetic_resources",
    "engine::Engine::hidden_class_id_selectors", "engine::Engine::serialize_raw",
    "engine::Engine::use_tags", "engine::Engine::enable_tags", "engine::Engine::disable_tags",
    "engine::Engine::tag_exists",
]
EXPORT_ROOTS = ["lists::FilterSet::into_content_blocking"]
