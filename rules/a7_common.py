"""loads the frozen A7 table"""
import json
import os

_ROWS = None


def rows():
    global _ROWS
    if _ROWS is None:
        p = os.path.join(os.path.dirname(os.path.abspath(__file__)), "a7_rows.json")
        _ROWS = json.load(open(p)) if os.path.exists(p) else {}
    return _ROWS


ALL = {"total", "local", "input-shape", "parse-invariant", "request-invariant"}
NO_PARSE_INVARIANT = {"total", "local", "input-shape", "request-invariant"}
