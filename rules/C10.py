"""C10 — loading corrupt or hostile serialized data fails cleanly and atomically."""
import os
import re

from analysis import a7, extract
from analysis.facts import strip_generics
from analysis.guards import dominating_conditions, conditional_defs
from . import a7_cones, a7_common

EXPLANATION = (
    "Path properties decided statically: (1) no panic before / inside the decoder glue — panic-site audit "
    "(A7) of the cone of Engine::deserialize (header dispatch, v0 decoder entry, wire-to-engine conversion): "
    "every site must be discharged and a `parse-invariant` basis is NOT accepted, because loaded data "
    "bypasses the parsers; (2) decode fully before mutating — in Engine::deserialize every write to, or "
    "mutable borrow of, *self is dominated by the Ok edge of DeserializeFormat::deserialize(..)? and no Err "
    "return is reachable after the first mutation (atomic on error); (3) loaded engines answer queries "
    "without panicking — the same audit over the cones of check_network_request*, get_csp_directives, "
    "url_cosmetic_resources, hidden_class_id_selectors, serialize_raw and the tag operations, again refusing "
    "every discharge that relies on an invariant only the parsers establish (hostname-anchored => hostname "
    "set, complete regex => len >= 2, scriptlet args valid, ...); (4) no allocation sized by a length "
    "declared in the input: no with_capacity / reserve in data_format whose argument derives from a serde "
    "size_hint (serde's own cautious size hint caps pre-allocation)."
    ' Later additions: every rmp-serde entry point used by the crate is slice-backed (the reader-backed decoder sizes its buffer by a declared length before reading it: rmp-serde 0.15.x pinned in Cargo.lock as a checked assumption); the v0 decoder is entered only with the magic prefix present and the version byte present and zero (the caller-side half of its A7 discharge).'
)
NOT_DECIDED = ("Allocation behaviour inside rmp-serde / serde (dependencies) beyond the reviewed entry points: the "
               "slice-backed decoder bounds every str/bin by the remaining input, serde's collection visitors cap their "
               "pre-allocation; that decoding itself terminates (dependency).")


def check(run):
    for cfg in run.cfgs("A", "B", "C"):
        F = run.facts(cfg)
        run.guard("C10.1.load-cone-totality", cfg, lambda: a7.check_cone(
            run, "C10.1.load-cone-totality", F, cfg, a7_cones.LOAD_ROOTS, a7_common.rows(),
            a7_common.NO_PARSE_INVARIANT, floor=60, label="deserialization"))
        run.guard("C10.3.query-cone-totality", cfg, lambda: a7.check_cone(
            run, "C10.3.query-cone-totality", F, cfg, a7_cones.QUERY_ROOTS, a7_common.rows(),
            a7_common.NO_PARSE_INVARIANT, floor=100, label="post-load query"))
        if cfg != "C":
            run.guard("C10.2.decode-before-mutate", cfg, lambda: rule_atomic(run, F, cfg))
            run.guard("C10.4.no-input-sized-allocation", cfg, lambda: rule_alloc(run, F, cfg))
            run.guard("C10.1.load-cone-totality", cfg + "/v0-entry", lambda: rule_v0_entry(run, F, cfg))
    check_no_full_regex(run)


def check_no_full_regex(run):
    """configuration D (built without `full-regex-handling`): data written by another build may carry rules this build
    would have refused to parse (the IS_COMPLETE_REGEX bit); loading and querying them must not panic either"""
    for cfg in run.cfgs("D"):
        F = run.facts(cfg)
        run.guard("C10.3.query-cone-totality", cfg, lambda: a7.check_cone(
            run, "C10.3.query-cone-totality", F, cfg, a7_cones.QUERY_ROOTS, a7_common.rows(),
            a7_common.NO_PARSE_INVARIANT, floor=100, label="post-load query"))


def rule_atomic(run, F, cfg):
    f = F.fn("engine::Engine::deserialize")
    run.touched(f)
    dec = f.calls(r"^data_format::DeserializeFormat::deserialize$")
    br = [(b, t) for b, t in f.calls(r"Try>::branch$") if "DeserializeFormat::deserialize(" in f.expr_operand(t["args"][0])]
    run.ob("C10.2.decode-before-mutate", "decode-call", len(dec) == 1 and len(br) == 1,
           "Engine::deserialize decodes with DeserializeFormat::deserialize(serialized)? exactly once",
           site=f.loc(dec[0][0]) if dec else f.loc(0), config=cfg)
    if not br:
        return
    bb_branch = br[0][0]
    muts = []
    for b, i, s in f.statements():
        if s["k"] != "assign":
            continue
        pl = s["pl"]
        if pl["l"] == 1 and [p for p in pl["p"] if p != "*"]:
            muts.append((b, i, "write " + f._apply_proj("self", pl["p"])))
        rv = s["rv"]
        if rv["k"] == "ref" and rv.get("bk") == "mut" and rv["pl"]["l"] == 1:
            muts.append((b, i, "&mut " + f._apply_proj("self", rv["pl"]["p"])))
    run.floor("C10.2.decode-before-mutate", f"mutations of *self in Engine::deserialize [{cfg}]", len(muts), 2)
    n = 0
    for b, i, what in muts:
        n += 1
        c = dominating_conditions(f, b)
        ok = c.callbb.get(bb_branch) == 0  # ControlFlow::Continue
        run.ob("C10.2.decode-before-mutate", f"mutation#{n}:{what}", ok,
               f"`{what}` happens only after the buffer decoded successfully (dominated by the Continue edge of "
               f"`DeserializeFormat::deserialize(..)?`); otherwise a failed load leaves the engine changed",
               site=f.loc(b, i), config=cfg)
    # no Err return reachable after the first mutation
    errs = []
    for kind, b, val, conds, _ in conditional_defs(f, 0):
        if "Result::Err" in val or "from_residual" in val:
            errs.append(b)
    bad = []
    for b, i, what in muts:
        reach = f.reachable_from(b)
        for eb in errs:
            if eb in reach and eb != b:
                bad.append((what, f.loc(eb)))
    run.ob("C10.2.decode-before-mutate", "no-error-after-mutation", not bad,
           f"no Err return is reachable after the first mutation of *self ({bad[:2]})", config=cfg)
    # the cone between the first mutation and return has no undischarged panic site: covered by the audit


def rule_v0_entry(run, F, cfg):
    """The v0 decoder asserts `serialized[MAGIC.len()] == 0` and slices `serialized[MAGIC.len() + 1..]`: its A7 rows are
    discharged by what its only caller has established. That caller-side part of the argument is checked here: the
    call is reached only with the magic prefix present, the version byte PRESENT (`get(..) == Some`) and equal to 0."""
    f = F.fn("data_format::DeserializeFormat::deserialize")
    run.touched(f)
    calls = f.calls(r"^data_format::v0::DeserializeFormat::deserialize$")
    ok = len(calls) == 1
    why = ""
    if ok:
        c = dominating_conditions(f, calls[0][0])
        magic = any(re.match(r"^core::slice::starts_with\(arg:serialized, data_format::ADBLOCK_RUST_DAT_MAGIC\)$", k) and v == 1 for k, v in c.items())
        present = any(re.match(r"^discr\(core::slice::get\(arg:serialized, core::slice::len\(data_format::ADBLOCK_RUST_DAT_MAGIC\)\)\)$", k) and v == 1 for k, v in c.items())
        BYTE = r"core::slice::get\(arg:serialized, core::slice::len\(data_format::ADBLOCK_RUST_DAT_MAGIC\)\)@Some\.0"
        # `match version { 0 => .. }`, `if version != 0 { return }`, `if version == 0 { .. }`
        zero = any((re.match(r"^" + BYTE + r"$", k) and v == 0) or (re.match(r"^\(" + BYTE + r" Ne 0\)$", k) and v == 0)
                   or (re.match(r"^\(" + BYTE + r" Eq 0\)$", k) and v == 1) for k, v in c.items())
        arg_ok = f.expr_operand(calls[0][1]["args"][0]) == "arg:serialized"
        ok = magic and present and zero and arg_ok
        why = str({k[:90]: v for k, v in c.items()})
    run.ob("C10.1.load-cone-totality", "v0-entry:version-byte-present-and-zero", ok,
           "v0::DeserializeFormat::deserialize(serialized) is called only after starts_with(MAGIC), with the byte after the "
           f"magic present (slice::get == Some) and equal to 0 — the caller-side half of its A7 discharge ({why})",
           site=f.loc(calls[0][0]) if calls else f.loc(0), config=cfg)


def rule_alloc(run, F, cfg):
    bad = []
    n = 0
    for name, f in F.fns.items():
        if not f.file.startswith("src/data_format"):
            continue
        for b, t in f.calls(r"::(with_capacity|with_capacity_and_hasher|reserve|reserve_exact|resize|with_capacity_in)$"):
            n += 1
            for a in t["args"]:
                o = f.deep_origins(a)
                if any("size_hint" in x for x in o):
                    bad.append((name, strip_generics(t["callee"]), f.loc(b)))
        for b, t in f.calls(r"size_hint$"):
            # any use of an access' size_hint in hand-written deserialization code is suspicious
            if "_serde::" not in name or "Visitor" not in name:
                bad.append((name, "size_hint()", f.loc(b)))
    run.ob("C10.4.no-input-sized-allocation", "data_format", not bad,
           f"no allocation in src/data_format is sized by a length declared in the input (with_capacity / reserve "
           f"fed by a serde size_hint); {n} capacity calls inspected; offending: {bad[:2]}", config=cfg,
           detail="rmp-serde's size_hint is the raw declared length: a 5-byte map header can request a "
                  "multi-gigabyte allocation; serde's built-in collection visitors cap it (cautious size hint)")
    # the decoder reads from the borrowed input. rmp-serde's reader-backed decoder (`decode::from_read`,
    # `Deserializer::new` / `from_read` over a ReadReader) serves every str / bin of declared length n by
    # `buf.resize(n, 0)` BEFORE reading (rmp-serde 0.15.5 src/decode.rs, ReadReader::read_slice): ten bytes of input
    # (magic, version, a str32 header) allocate and zero up to 4 GiB. The slice-backed one (`from_slice`,
    # `from_read_ref`) rejects a declared length that exceeds the rest of the input (ReadRefReader::read_slice).
    dec = []
    for name, f in F.fns.items():
        for b, t in f.calls(r"^rmp_serde::decode::(from_read|from_slice|from_read_ref)$|^rmp_serde::decode::Deserializer::<.*>::(new|from_read|from_read_ref)$|^rmp_serde::decode::Deserializer::(new|from_read|from_read_ref)$|^rmp_serde::from_read$|^rmp_serde::from_slice$|^rmp_serde::from_read_ref$"):
            dec.append((strip_generics(t["callee"]).split("::")[-1], name, f.loc(b)))
    reader_backed = [d for d in dec if d[0] in ("from_read", "new")]
    lock = open(os.path.join(extract.REPO, "Cargo.lock")).read()
    pinned = bool(re.search(r'name = "rmp-serde"\nversion = "0\.15\.', lock))
    run.ob("C10.4.no-input-sized-allocation", "decoder-reads-the-borrowed-slice", len(dec) >= 1 and not reader_backed and pinned,
           f"every rmp-serde decoding entry point used by the crate is slice-backed ({[(d[0], d[1].split('::')[-1]) for d in dec]}; "
           f"reader-backed: {reader_backed}; rmp-serde 0.15.x pinned in Cargo.lock: {pinned})",
           site=reader_backed[0][2] if reader_backed else (dec[0][2] if dec else ""), config=cfg,
           detail="the reader-backed decoder sizes its buffer by the length declared in a str/bin header before a single "
                  "payload byte is read")
    # hand-written Deserialize impls / visitors in data_format (derive output is under `_::_serde`)
    manual = [n2 for n2 in F.fns if n2.startswith("data_format") and "Visitor" in n2 and "_serde" not in n2]
    manual += [i["self"] for i in F.impls if i.get("trait", "").endswith("de::Visitor") and "data_format" in str(i.get("self")) and "__" not in str(i.get("self"))]
    run.ob("C10.4.no-input-sized-allocation", "no-manual-visitors", not manual,
           f"all Deserialize impls of the wire structs are derived (no hand-written visitor that could bypass "
           f"serde's allocation caps): {manual[:3]}", config=cfg)
