"""C07 — tagged rules are active exactly when their tag is enabled."""
import re

from analysis.facts import strip_generics, AnchorMissing
from analysis.guards import dominating_conditions
from . import routing as R
from . import C05 as _C05

EXPLANATION = (
    "Static analysis of the resolved program (MIR of configurations A and B). Decided clauses: "
    "(1) tag-gate table: every Blocker list that the routing table T_route(Blocker::new), extracted "
    "with the finite-domain path interpreter, can fill with a tag-carrying rule of a category the "
    "property names (blocking, exception, important, csp) is probed in every query function with "
    "the engine's enabled set (provenance self.tags_enabled), and plain tagged blocking rules are "
    "never routed to the ungated `filters` list; (2) gate shape: NetworkFilterList::check and "
    "check_all apply the same gate, reading filter.tag and the passed set, on every path that "
    "returns / pushes a filter; (3) set algebra by provenance: use_tags assigns, enable_tags is "
    "union, disable_tags is difference with the receiver from self.tags_enabled, all three and the "
    "tagged arm of add_filter are post-dominated by tags_with_set, which assigns the set and "
    "rebuilds filters_tagged from tagged_filters_all filtered by contains(tag); tag_exists is "
    "contains on the same set; (4) Engine::deserialize reads the caller's tags before overwriting "
    "the blocker and re-applies them after."
    ' Round 6: nothing is removed from tagged_filters_all (or any rule list) after the routing (C01.5 no-shrinking-call); the tag gate may be written as a closure over Option::map or as a match on filter.tag.'
)
NOT_DECIDED = ("Which concrete rules match concrete requests (C01/C02); tag x redirect / removeparam "
               "/ generichide rules are inert by documented design and reported as informational.")

QUERY_FNS = ["blocker::Blocker::check_parameterised", "blocker::Blocker::get_csp_directives",
             "blocker::Blocker::check_generic_hide", "blocker::Blocker::apply_removeparam"]
# property-named categories: list that must be tag-gated when it can hold tagged rules
GATED = {"exceptions": "exception", "importants": "important", "csp": "csp",
         "filters_tagged": "blocking"}


def check(run):
    for cfg in run.cfgs("A", "B"):
        F = run.facts(cfg)
        from analysis.guards import rule_visits_all as _rva
        run.guard("C07.6.every-tagged-rule", cfg, lambda: _rva(run, "C07.6.every-tagged-rule", F, cfg, ['blocker::Blocker::tags_with_set'],
                  'The active list is rebuilt from ALL tagged rules whose tag is enabled', minimum=2))
        run.guard("C07.1.tag-gate", cfg, lambda: rule_tag_gate(run, F, cfg))
        run.guard("C07.2.gate-shape", cfg, lambda: rule_gate_shape(run, F, cfg))
        run.guard("C07.3.set-algebra", cfg, lambda: rule_set_algebra(run, F, cfg))
        run.guard("C07.4.deserialize", cfg, lambda: rule_deserialize(run, F, cfg))
        b = run.borrow("C05", only=r"field:tag\b", why="rules with different tags must not be fused")
        run.guard("C07.via.C05.1.fusion-key", cfg, lambda: _C05.rule_key(b, F, cfg))
        from . import C04 as _C04   # lazy: C04 borrows from this module
        b2 = run.borrow("C04", only=r"important=>importants|tagged", why="a tagged $important rule is gated through `importants`")
        run.guard("C07.via.C04.1.routing", cfg, lambda: _C04.rule_routing(b2, F, cfg))
        b3 = run.borrow("C04", only=r"table:", why="which lists are probed (with the enabled tags) for a query")
        run.guard("C07.via.C04.2.precedence", cfg, lambda: _C04.rule_verdict_table(b3, F, cfg))
        from . import C03 as _C03, C01 as _C01
        b4 = run.borrow("C03", only=r"string-payloads-verbatim", why="the rule's tag is compared verbatim with the enabled tags")
        run.guard("C07.via.C03.1.option-chain", cfg, lambda: _C03.rule_payloads(b4, F, cfg))
        b5 = run.borrow("C01", why="rules that differ only in their tag are different rules (not de-duplicated)")
        run.guard("C07.via.C01.7.rule-identity", cfg, lambda: _C01.rule_identity(b5, F, cfg))
        from . import C06 as _C06c
        bc = run.borrow("C06", only=r"tags_with_set|key-is-rule-address|evictors", why="every tag switch re-allocates the active tagged rules: a regex cached under a freed address would be used for whichever rule lands there")
        run.guard("C07.via.C06.3.cache-key-validity", cfg, lambda: _C06c.rule_cache_key(bc, F, cfg))
        bns = run.borrow("C01", why="every tagged rule that was parsed stays in tagged_filters_all: nothing prunes the list after the routing")
        run.guard("C07.via.C01.5.routing-total", cfg + "/no-shrink", lambda: _C01.rule_no_shrink(bns, F, cfg))
        be = run.borrow("C01", why="rules that differ only in their tag are different rules: no entry point may de-duplicate them away")
        run.guard("C07.via.C01.9.entry-points", cfg, lambda: _C01.rule_entry_points(be, F, cfg))


def probes(F, run=None):
    """[(fn, bb, list_field, tags_expr, callee)] for every NetworkFilterList::check(_all) call"""
    out = []
    for f in F.fns.values():
        if not f.name.startswith("blocker::Blocker::"):
            continue
        for b, t in f.calls(r"^network_filter_list::NetworkFilterList::check(_all)?$"):
            recv = f.expr_operand(t["args"][0])
            tags = f.expr_operand(t["args"][2])
            out.append((f, b, recv, tags, strip_generics(t["callee"])))
            if run:
                run.touched(f)
    return out


def _self_expr(f):
    """how `self` appears in canonical expressions of f (closures capture it as an upvar)"""
    return r"(arg:self|arg:1\.\d+|arg:_?\d*\.?\w*)"


def rule_tag_gate(run, F, cfg):
    tn, _ = R.table_new(F)
    run.touched("blocker::Blocker::new")
    # which lists can receive a rule with tag=1, and of which category
    can_hold_tagged = {}
    for v in R.valuations({"is_badfilter": 0, "bad_id": 0, "exists": 0}):
        if not R.feasible(v) or not v["tag"]:
            continue
        d = tn.eval(v)
        if d is None:
            run.ob("C07.1.tag-gate", f"route-undefined{R.fmt_val(v)}", False,
                   f"routing table of Blocker::new has no row for valuation {R.fmt_val(v)}",
                   status="UNDISCHARGED", config=cfg)
            continue
        for lst in d:
            can_hold_tagged.setdefault(lst, []).append(v)
    # tagged_filters_all is the store filters_tagged is rebuilt from
    held = set(can_hold_tagged)
    if "tagged_filters_all" in held:
        held.add("filters_tagged")
    pr = probes(F, run)
    run.floor("C07.1.tag-gate", f"list probes in Blocker query functions [{cfg}]", len(pr), 9)
    seen_lists = set()
    for f, b, recv, tags, callee in pr:
        m = re.search(r"^(?:arg|up):self\.(\w+)$", recv)
        lst = m.group(1) if m else recv
        seen_lists.add(lst)
        if lst in GATED and lst in held:
            ok = bool(re.search(r"^(?:arg|up):self(\.|__)tags_enabled$", tags))
            run.ob("C07.1.tag-gate", f"{f.name}:{callee.split('::')[-1]}({lst})", ok,
                   f"list `{lst}` can hold tag-carrying {GATED[lst]} rules (T_route) and must be "
                   f"probed with the enabled tag set; tag-set argument is `{tags}`",
                   site=f.loc(b), config=cfg,
                   detail="a tagged rule in a list probed with an empty/other set is inert "
                          "(or active regardless of its tag)")
        elif lst in held:
            # informational: categories the property does not name (redirect, removeparam, ghide)
            pass
    # plain tagged blocking rules must not be routed to the ungated `filters` list
    for v in R.valuations({"is_badfilter": 0, "bad_id": 0, "exists": 0, "is_redirect": 0,
                           "also_block_redirect": 0, "is_csp": 0, "is_removeparam": 0,
                           "is_generic_hide": 0, "is_exception": 0, "is_important": 0, "tag": 1}):
        d = tn.eval(v) or frozenset()
        run.ob("C07.1.tag-gate", "route:tagged-blocking", d == frozenset({"tagged_filters_all"}),
               f"a plain blocking rule with a tag is routed to {sorted(d)}; required: exactly "
               f"tagged_filters_all (the store filters_tagged is rebuilt from)",
               site="Blocker::new", config=cfg)
    for lst, cat in GATED.items():
        if lst == "filters_tagged":
            continue
        vs = can_hold_tagged.get(lst, [])
        run.ob("C07.1.tag-gate", f"category:{cat}", True,
               f"category {cat}: {len(vs)} feasible tagged valuations routed to `{lst}`", config=cfg)


def _gate_ok_in(F, g, conds_items):
    """the tag gate held on a path of `g`: closure form `tag.map(|t| active_tags.contains(t)).unwrap_or(true)` == true, or
    an explicit match on filter.tag (None arm passes, Some arm under contains == true)"""
    conds = dict(conds_items)
    gl = [(e, v) for e, v in conds.items() if re.search(r"unwrap_or\(.*Option::map\(.*\.tag", e)]
    ok = any(v == 1 and re.search(r"(arg|up):active_tags", e) for e, v in gl)
    for e, v in gl:
        mm = re.search(r"closure\[([^\]]+)\]\(.*\), (\w+)\)$", e)
        if mm:
            c = F.fns.get(mm.group(1))
            c_ok = c is not None and bool(re.match(r"^std::collections::HashSet::contains\((up:|\$)?active_tags, arg:\w+\)$", c.expr_local(0)))
            ok = ok and mm.group(2) == "true" and c_ok
    if not gl:
        td = [v for e, v in conds.items() if re.search(r"^discr\((std::option::Option::as_ref\()?.*\.tag\)+$", e)]
        if td and all(v == 0 or v == ("not", (1,)) for v in td):
            ok = True
        else:
            ok = any(re.search(r"HashSet::contains\((arg|up):active_tags, .*\.tag", e) and v == 1 for e, v in conds.items())
    return ok


def probe_chain(F, f, kind):
    """`check` / `check_all` written as one iterator chain over request.get_tokens_for_match():
         tokens.filter_map(|t| self.filter_map.get(t)).flatten()[.filter(P)]*.find(P)          (kind `first`)
         tokens.filter_map(|t| self.filter_map.get(t)).flatten()[.filter(P)]+ ...collect()      (kind `all`)
       -> None if the function is not of that shape, else a dict of what the loop rules check:
       lookup (the filter_map closure is the plain bucket lookup), others (selecting steps besides the predicates: any
       other adapter, or a filter applied to the RESULT such as Option::filter), preds (per selecting closure: do all
       its true paths require matches()==true / the tag gate)."""
    from analysis.guards import SELECTIVE_ADAPTERS, call_parts
    from analysis.pathinterp import enumerate_paths as _ep, path_value as _pv
    term = f.calls(r"^std::iter::Iterator::find$") if kind == "first" else []
    filters_ = f.calls(r"^std::iter::Iterator::filter$")
    if kind == "first" and len(term) != 1:
        return None
    if kind == "all" and not filters_:
        return None
    # outermost selecting call: the find, or the filter that no other filter takes as its source
    if kind == "first":
        b, t = term[0]
    else:
        srcs = [f.expr_operand(t2["args"][0]) for b2, t2 in filters_]
        outer = [(b2, t2) for b2, t2 in filters_ if not any(f.expr_call(t2) == s_ for s_ in srcs)]
        if len(outer) != 1:
            return None
        b, t = outer[0]
    preds = []
    cur = f.expr_call(t)
    base = (r"^std::iter::Iterator::flatten\(std::iter::Iterator::filter_map\(request::Request::get_tokens_for_match\(arg:request\), "
            r"closure\[([^\]]+)\]\(arg:self\)\)\)$")
    look = None
    for _ in range(6):
        m0 = re.match(base, cur)
        if m0:
            look = m0.group(1)
            break
        parts = call_parts(cur)
        if not parts or parts[0] not in ("std::iter::Iterator::find", "std::iter::Iterator::filter") or len(parts[1]) != 2:
            return None
        mc = re.match(r"^closure\[([^\]]+)\]\(", parts[1][1])
        if not mc or mc.group(1) not in F.fns:
            return None
        preds.append(F.fns[mc.group(1)])
        cur = parts[1][0]
    if look is None or look not in F.fns or not preds:
        return None
    info = []
    for P in preds:
        n_true = 0
        need_m = need_g = True
        for p in _ep(P):
            if p.end != "return":
                continue
            val = _pv(P, p, 0) or ""
            if val == "false":
                continue
            n_true += 1
            conds = list(p.conds)
            m_ok = any(re.search(r"NetworkMatchable>::matches\(", e) and v == 1 for e, v in conds) or \
                bool(re.match(r"^<filters::network::NetworkFilter as filters::network::NetworkMatchable>::matches\(", val))
            g_ok = _gate_ok_in(F, P, conds)
            if not g_ok and val.startswith("std::option::Option::unwrap_or("):
                # `.. && <gate>`: on the true path the closure's value IS the gate expression
                for gb, gt in P.calls(r"^std::option::Option::unwrap_or$"):
                    a0, a1 = P.expr_operand(gt["args"][0]), P.expr_operand(gt["args"][1])
                    mm = re.search(r"^std::option::Option::map\(.*\.tag\)?, closure\[([^\]]+)\]\((up|arg):active_tags\)\)$", a0)
                    cc = F.fns.get(mm.group(1)) if mm else None
                    if a1 == "true" and cc is not None and re.match(
                            r"^std::collections::HashSet::contains\((up:|\$)?active_tags, arg:\w+\)$", cc.expr_local(0)) and gb in p.blocks:
                        g_ok = True
            need_m = need_m and m_ok
            need_g = need_g and g_ok
        info.append((P.name.split("::")[-1], n_true, need_m and n_true > 0, need_g and n_true > 0))
    sel_sites = {id(t)}
    others = []
    for b2, t2 in f.calls():
        c = strip_generics(t2["callee"])
        if SELECTIVE_ADAPTERS.search(c) or c in ("std::option::Option::filter", "std::option::Option::take_if", "std::option::Option::xor"):
            if c in ("std::iter::Iterator::find", "std::iter::Iterator::filter") and any(
                    re.match(r"^closure\[" + re.escape(P.name) + r"\]", f.expr_operand(t2["args"][1])) for P in preds):
                continue
            if c == "std::iter::Iterator::filter_map" and "get_tokens_for_match" in f.expr_operand(t2["args"][0]):
                continue
            others.append(c.split("::")[-1])
    return {"lookup": bool(re.match(r"^std::collections::HashMap::get\(up:self\.filter_map, arg:\w+\)$", F.fns[look].expr_local(0))),
            "others": others, "preds": info, "site": f.loc(b),
            "requires_match": any(m_ for _, _, m_, _ in info), "requires_gate": any(g_ for _, _, _, g_ in info)}


def rule_gate_shape(run, F, cfg):
    """check / check_all: a filter is returned / pushed only on a path where
    matches()==true and the tag gate (filter.tag vs the passed set) held"""
    from analysis.pathinterp import enumerate_paths
    for name, sink in (("network_filter_list::NetworkFilterList::check", "return-some"),
                       ("network_filter_list::NetworkFilterList::check_all", "push")):
        f = F.fn(name)
        run.touched(f)
        paths = enumerate_paths(f)
        n = 0
        for p in paths:
            # does this path emit a filter?
            emits = False
            for b in p.blocks:
                t = f.blocks[b]["t"]
                if sink == "push" and t["k"] == "call" and strip_generics(t["callee"]) == "std::vec::Vec::push":
                    emits = True
                if sink == "return-some":
                    for s in f.blocks[b]["s"]:
                        if s["k"] == "assign" and s["pl"]["l"] == 0 and not s["pl"]["p"] and \
                                s["rv"]["k"] == "agg" and s["rv"].get("variant") == "Some":
                            emits = True
            if not emits:
                continue
            n += 1
            conds = dict()
            for e, v in p.conds:
                conds[e] = v
            m_ok = any(re.search(r"NetworkMatchable>::matches\(", e) and v == 1 for e, v in conds.items())
            # gate: tag.map(|t| active_tags.contains(t)).unwrap_or(true)
            from analysis.idioms import option_gate
            g = [(e, v) for e, v in conds.items() if option_gate(e) and ".tag" in option_gate(e)[0]]
            g_ok = any(v == 1 and "arg:active_tags" in e for e, v in g)
            if not g and not g_ok:
                # alternative spelling: explicit match on filter.tag -- an untagged rule (None arm) passes by
                # default, a tagged one only under active_tags.contains(<its tag>)
                td = [v for e, v in conds.items() if re.search(r"^discr\((std::option::Option::as_ref\()?.*\.tag\)+$", e)]
                if td and all(v == 0 or v == ("not", (1,)) for v in td):
                    g_ok = True
                else:
                    g_ok = any(re.search(r"HashSet::contains\(arg:active_tags, .*\.tag", e) and v == 1
                               for e, v in conds.items())
            # default for untagged rules is `true`; the closure is active_tags.contains(tag), not negated
            for e, v in g:
                subj, default, cname = option_gate(e)
                c = F.fns.get(cname)
                c_ok = c is not None and bool(re.match(r"^std::collections::HashSet::contains\((up:|\$)?active_tags, arg:\w+\)$",
                                                       c.expr_local(0)))
                g_ok = g_ok and default == "true" and c_ok
            run.ob("C07.2.gate-shape", f"{name.split('::')[-1]}:emit#{n}", m_ok and g_ok,
                   f"{name}: path that emits a filter must pass matches()==true [{m_ok}] and the "
                   f"tag gate over (filter.tag, active_tags)==true [{g_ok}]",
                   site=f.loc(p.blocks[-1]), config=cfg,
                   detail="decisions on path: " + "; ".join(f"{e[-90:]}={v}" for e, v in p.conds[-6:]))
        chain = probe_chain(F, f, "first" if sink == "return-some" else "all") if n == 0 else None
        if chain is not None:
            okc = chain["lookup"] and not chain["others"] and chain["requires_match"] and chain["requires_gate"]
            run.ob("C07.2.gate-shape", f"{name.split('::')[-1]}:chain-predicate", okc,
                   f"{name} is one iterator chain over the probe tokens; its selecting closures (name, true paths, needs matches(), "
                   f"needs the tag gate: {chain['preds']}) let a rule through only where matches()==true and the tag gate held; "
                   f"nothing else selects among the candidates or the result (found: {chain['others']})",
                   site=chain["site"], config=cfg,
                   detail="a tag test applied AFTER the search (`.find(matches).filter(tag ..)`) gives up when the first matching rule "
                          "has a disabled tag, although a later rule of the bucket would be active")
            continue
        run.floor("C07.2.gate-shape", f"paths of {name.split('::')[-1]} that emit a filter [{cfg}]", n, 1)
        run.floor("C07.2.gate-shape", f"emitting paths in {name.split('::')[-1]} [{cfg}]", n, 1)
        # the gate closure must call HashSet::contains on the captured set with the tag
        cl = [c for c in F.closures_of(name)]
        found = False
        for c in cl:
            for b, t in c.calls(r"HashSet::contains$"):
                found = True
        for b, t in f.calls(r"HashSet::contains$"):
            if f.expr_operand(t["args"][0]) == "arg:active_tags" and ".tag" in f.expr_operand(t["args"][1]):
                found = True
        run.ob("C07.2.gate-shape", f"{name.split('::')[-1]}:contains", found,
               f"{name}: tag gate closure calls HashSet::contains(active_tags, tag)", config=cfg)


def rule_set_algebra(run, F, cfg):
    B = "blocker::Blocker::"
    # use_tags: new set from `tags` only
    f = F.fn(B + "use_tags")
    run.touched(f)
    calls = f.calls(r"^blocker::Blocker::tags_with_set$")
    ok = False
    site = ""
    for b, t in calls:
        o = f.origins_operand(t["args"][1])
        ok = all(("arg:tags" in x) or x.startswith("call:") or x.startswith("closure:") or x.startswith("const:") for x in o) \
            and any("arg:tags" in x for x in f.origins_operand(t["args"][1]) | _deep_origins(f, t["args"][1]))
        ok = ok and not any("tags_enabled" in x for x in _deep_origins(f, t["args"][1]))
        site = f.loc(b)
    run.ob("C07.3.set-algebra", "use_tags:assign", bool(calls) and ok,
           "use_tags hands tags_with_set a set built from `tags` only (not from the previous set)",
           site=site, config=cfg)
    _postdom(run, f, calls, "use_tags", cfg)

    # enable_tags: union(tags-set, self.tags_enabled)
    f = F.fn(B + "enable_tags")
    run.touched(f)
    u = f.calls(r"HashSet::union$")
    ok = False
    site = ""
    for b, t in u:
        a0 = _deep_origins(f, t["args"][0])
        a1 = _deep_origins(f, t["args"][1])
        both = a0 | a1
        ok = any("arg:tags" in x for x in both) and any("tags_enabled" in x for x in both)
        site = f.loc(b)
    run.ob("C07.3.set-algebra", "enable_tags:union", bool(u) and ok,
           "enable_tags computes HashSet::union over (set built from `tags`, self.tags_enabled)",
           site=site, config=cfg)
    _postdom(run, f, f.calls(r"^blocker::Blocker::tags_with_set$"), "enable_tags", cfg)

    # disable_tags: difference(receiver = self.tags_enabled, arg = tags)
    f = F.fn(B + "disable_tags")
    run.touched(f)
    d = f.calls(r"HashSet::difference$")
    ok = False
    site = ""
    for b, t in d:
        a0 = _deep_origins(f, t["args"][0])
        a1 = _deep_origins(f, t["args"][1])
        ok = any("tags_enabled" in x for x in a0) and not any("arg:tags" in x for x in a0) \
            and any("arg:tags" in x for x in a1) and not any("tags_enabled" in x for x in a1)
        site = f.loc(b)
    run.ob("C07.3.set-algebra", "disable_tags:difference-order", bool(d) and ok,
           "disable_tags computes self.tags_enabled.difference(<set from tags>) — receiver and "
           "argument in this order (a swap compiles and yields the wrong set)",
           site=site, config=cfg)
    _postdom(run, f, f.calls(r"^blocker::Blocker::tags_with_set$"), "disable_tags", cfg)

    # tags_with_set: assigns self.tags_enabled = arg; rebuilds filters_tagged from tagged_filters_all
    f = F.fn(B + "tags_with_set")
    run.touched(f)
    assigned = False
    rebuilt = False
    for b, i, s in f.statements():
        if s["k"] == "assign" and s["pl"]["p"] and s["pl"]["l"] == 1:
            names = [p.get("n") for p in s["pl"]["p"] if isinstance(p, dict)]
            if names == ["tags_enabled"]:
                src = f.origins_rvalue(s["rv"])
                assigned = assigned or any("arg:tags_enabled" in x for x in src)
            if names == ["filters_tagged"]:
                e = f.expr_rvalue(s["rv"])
                rebuilt = rebuilt or ("NetworkFilterList::new(" in e and "tagged_filters_all" in e)
    run.ob("C07.3.set-algebra", "tags_with_set:assign", assigned,
           "tags_with_set stores its argument into self.tags_enabled", site=f.loc(0), config=cfg)
    run.ob("C07.3.set-algebra", "tags_with_set:rebuild", rebuilt,
           "tags_with_set rebuilds self.filters_tagged = NetworkFilterList::new(<filtered "
           "self.tagged_filters_all>, ..)", site=f.loc(0), config=cfg)
    # the filter closure keeps a rule exactly when it has a tag and the NEW set contains that tag: decided as a table over
    # the closure's return paths (whatever the spelling: is_some() && contains(unwrap()), matches!(.., Some(t) if ..),
    # is_some_and(..), match)
    from analysis.pathinterp import enumerate_paths as _ep, path_value as _pv
    ok = False
    for c in F.closures_of(B + "tags_with_set"):
        if not c.calls(r"HashSet::contains$"):
            continue
        rows_ok, n_true = True, 0
        for p in _ep(c):
            if p.end != "return":
                continue
            cd = dict(p.conds)
            some = [v for e, v in cd.items() if re.search(r"^(std::option::Option::is_some\(arg:\w+\.tag\)|discr\((std::option::Option::as_ref\()?arg:\w+\.tag\)+)$", e)]
            cont = [v for e, v in cd.items() if re.search(r"^std::collections::HashSet::contains\(up:self(\.|__)tags_enabled, .*arg:\w+\.tag", e)]
            val = _pv(c, p, 0) or ""
            is_cont = bool(re.search(r"^std::collections::HashSet::contains\(up:self(\.|__)tags_enabled, ", val)) and \
                all(".tag" in c.expr_call(t) for _b, t in c.calls(r"HashSet::contains$"))
            tagged = bool(some) and all(v == 1 for v in some)
            if val == "true":
                n_true += 1
                rows_ok = rows_ok and tagged and bool(cont) and all(v == 1 for v in cont)
            elif val == "false":
                rows_ok = rows_ok and ((bool(some) and any(v != 1 for v in some)) or (bool(cont) and any(v == 0 for v in cont)))
            elif is_cont:
                n_true += 1
                rows_ok = rows_ok and tagged
            else:
                rows_ok = False
        ok = rows_ok and n_true >= 1
    run.ob("C07.3.set-algebra", "tags_with_set:filter", ok,
           "the rebuild keeps exactly the rules whose tag is in the new set "
           "(closure: tags_enabled.contains(filter.tag))", config=cfg)

    # tag_exists = contains on the enabled set (Engine::tag_exists -> Blocker::tags_enabled())
    f = F.fn("engine::Engine::tag_exists")
    run.touched(f)
    ok = any(re.search(r"Blocker::tags_enabled\(arg:self\.blocker\)", f.expr_operand(t["args"][0]))
             and "arg:tag" in f.expr_operand(t["args"][1])
             for b, t in f.calls(r"(slice|HashSet|Vec)::contains$"))
    if not ok:
        # the same membership test written as `tags_enabled().iter().any(|t| t == tag)`
        for b, t in f.calls(r"Iterator>?::any$"):
            m_ = re.search(r"closure\[([^\]]+)\]", f.expr_operand(t["args"][1])) if len(t["args"]) > 1 else None
            c_ = F.fns.get(m_.group(1)) if m_ else None
            if c_ is not None and re.search(r"Blocker::tags_enabled\(arg:self\.blocker\)", f.expr_operand(t["args"][0])) \
                    and re.match(r"^(<.*PartialEq<.*>>::eq|std::cmp::impls::eq)\((arg:\w+, up:tag|up:tag, arg:\w+)\)$", c_.expr_local(0)):
                ok = True
    g = F.fn(B + "tags_enabled")
    run.touched(g)
    src = _deep_origins(g, {"k": "copy", "pl": {"l": 0, "p": []}})
    ok2 = any(x.endswith(".tags_enabled") for x in src) and \
        not any(x.startswith("arg:self.") and not x.endswith(".tags_enabled") for x in src)
    run.ob("C07.3.set-algebra", "tag_exists:contains", ok and ok2,
           "Engine::tag_exists is contains(tag) over Blocker::tags_enabled(), which is built from "
           "self.tags_enabled only", site=f.loc(0), config=cfg)

    # add_filter tagged arm is followed by tags_with_set (rebuild)
    f = F.fn(B + "add_filter")
    run.touched(f)
    pushes = [(b, t) for b, t in f.calls(r"std::vec::Vec::push$")
              if "tagged_filters_all" in f.expr_operand(t["args"][0])]
    tw = f.calls(r"^blocker::Blocker::tags_with_set$")
    ok = bool(pushes) and all(any(f.postdominates(b2, b) for b2, _ in tw) for b, _ in pushes)
    run.ob("C07.3.set-algebra", "add_filter:rebuild-after-push", ok,
           "every push into tagged_filters_all in add_filter is post-dominated by tags_with_set "
           "(otherwise the new tagged rule is not active until the next tag change)",
           site=f.loc(pushes[0][0]) if pushes else "", config=cfg)


def _deep_origins(f, op, depth=0):
    return f.deep_origins(op)


def _postdom(run, f, calls, who, cfg):
    ok = bool(calls) and any(f.postdominates(b, 0) for b, _ in calls)
    run.ob("C07.3.set-algebra", f"{who}:rebuild", ok,
           f"{who}: the call of tags_with_set post-dominates the entry (every normal path "
           f"re-assigns the set and rebuilds filters_tagged)", site=f.loc(0), config=cfg)


def rule_deserialize(run, F, cfg):
    f = F.fn("engine::Engine::deserialize")
    run.touched(f)
    reads = f.calls(r"^blocker::Blocker::tags_enabled$")
    uses = f.calls(r"^blocker::Blocker::use_tags$")
    # overwrite of self.blocker
    writes = []
    for b, i, s in f.statements():
        if s["k"] == "assign" and s["pl"]["l"] == 1:
            names = [p.get("n") for p in s["pl"]["p"] if isinstance(p, dict)]
            if names == ["blocker"]:
                writes.append(b)
    ok_r = bool(reads) and bool(writes) and all(
        any(f.dominates(rb, wb) and rb != wb or (rb == wb) for rb, _ in reads) for wb in writes)
    # stronger: the read's block strictly precedes: read is a call terminator, so its block ends
    # before any statement of a later block; a write in the same block would precede the call
    ok_r = ok_r and all(not any(rb == wb for rb, _ in reads) for wb in writes)
    run.ob("C07.4.deserialize", "read-before-overwrite", ok_r,
           "Engine::deserialize reads blocker.tags_enabled() on every path before self.blocker is "
           "overwritten", site=f.loc(reads[0][0]) if reads else f.loc(0), config=cfg)
    ok_u = False
    site = ""
    for b, t in uses:
        o = _deep_origins(f, t["args"][1])
        from_read = any("call:blocker::Blocker::tags_enabled" in x for x in o)
        after = all(wb in f.dominators().get(b, set()) for wb in writes)
        ok_u = ok_u or (from_read and after and bool(writes))
        site = f.loc(b)
    run.ob("C07.4.deserialize", "reapply-after-overwrite", ok_u,
           "after the overwrite, use_tags is called on the new blocker with the tags read before "
           "(provenance: Blocker::tags_enabled result), and the overwrite dominates that call",
           site=site, config=cfg)
    # the new blocker's filters_tagged must be rebuilt: use_tags -> tags_with_set (checked in .3)
    # and every Ok return passes the use_tags call
    if uses:
        ub = uses[0][0]
        oks = []
        for p_b in f.exits():
            oks.append(p_b)
        # paths reaching return after the write must pass use_tags: use_tags postdominates writes
        ok_p = all(f.postdominates(ub, wb) for wb in writes)
        run.ob("C07.4.deserialize", "use_tags-postdominates-overwrite", ok_p,
               "use_tags post-dominates the overwrite of self.blocker (no path installs the "
               "loaded blocker without re-applying the caller's tags)", site=f.loc(ub), config=cfg)
