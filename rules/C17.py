"""C17 — generic class/id lookup returns exactly the unexcepted generic selectors."""
import re

from analysis.facts import strip_generics
from analysis.guards import dominating_conditions, has_cond
from analysis.pathinterp import enumerate_paths, path_calls
from . import C08 as _C08

EXPLANATION = (
    "Decided on CosmeticFilterCache: (1) the partition of generic rules is total and exclusive — every "
    "path of add_generic_filter for a rule with a plain selector passes through exactly one insertion "
    "into {simple_class_rules, complex_class_rules, simple_id_rules, complex_id_rules, "
    "misc_generic_selectors} (path enumeration); (2) writer/reader key agreement — stores are keyed by "
    "key[1..] under the '.' / '#' prefix test and the lookup re-adds the same prefix with the "
    "templates `.{}` / `#{}`; simple vs complex is decided by key == selector; (3) every emission in "
    "hidden_class_id_selectors is guarded by !exceptions.contains(<the emitted string, built with the "
    "same template>) and the complex buckets are filtered by !exceptions.contains(sel); (4) procedural "
    "rules never become generic (return before any insertion when plain_css_selector() is None); "
    "(5) key extraction uses the Unicode-aware fast-path regex and falls back to escape decoding."
    ' Later additions: every generic rule of a FilterSet reaches the cache (no de-duplication in the entry points, C01.9); a rejected load leaves the stores untouched (C10.2); the bucket loops visit every selector.'
    ' Round 6: the three regex literals of key_from_selector are compared, as automata, with the CSS grammar (identifier characters; hex escape = 1-6 digits and one optional space); the hex value is read from the digits; every Some(key) is built from a Regex::find match; None is answered only under modelled conditions; the stores are probed with the names as given.'
    ' Round 8: the three key regexes are compared as automata with the CSS identifier grammar in which every non-ASCII code point is an identifier character and a hex escape may end with a space, tab or form feed (F-C17-3 repaired); stores only grow (C16.4 borrowed).'
)
NOT_DECIDED = ("The concatenation of decoded pieces in key_from_selector's loop (value level); the grammar of the three regex "
               "literals and the hex conversion are decided, code points CSS maps to U+FFFD (0, surrogates, > 10FFFF) are sent "
               "to the always-applied set instead.")

CF = "cosmetic_filter_cache::CosmeticFilterCache::"
STORES = ["simple_class_rules", "complex_class_rules", "simple_id_rules", "complex_id_rules",
          "misc_generic_selectors"]


def check(run):
    for cfg in run.cfgs("A", "C"):
        F = run.facts(cfg)
        from analysis.guards import rule_visits_all as _rva
        run.guard("C17.6.every-selector", cfg, lambda: _rva(run, "C17.6.every-selector", F, cfg, ['cosmetic_filter_cache::CosmeticFilterCache::hidden_class_id_selectors'],
                  'Every selector stored under a requested class / id is returned unless it is excepted: an exception removes that selector only', minimum=3))
        run.guard("C17.1.partition", cfg, lambda: rule_partition(run, F, cfg))
        from . import C16 as _C16g
        bgo = run.borrow("C16", why="a generic rule filed in one of the five stores must stay there: nothing prunes the stores after the fact")
        run.guard("C17.via.C16.4.storing", cfg + "/grow-only", lambda: _C16g.rule_stores_only_grow(bgo, F, cfg))
        run.guard("C17.2.prefix-agreement", cfg, lambda: rule_prefix(run, F, cfg))
        run.guard("C17.3.exception-on-every-emission", cfg, lambda: rule_emission(run, F, cfg))
        run.guard("C17.5.key-extraction", cfg, lambda: rule_key(run, F, cfg))
        run.guard("C17.5.key-extraction", cfg + "/css-ident", lambda: rule_css_ident(run, F, cfg))
        if cfg == "A":
            b = run.borrow("C08", only=r"cosmetic_filter_cache::CosmeticFilterCache\.(?!specific_rules)\w+",
                           why="each generic-rule store must be serialized from, and restored into, itself")
            run.guard("C17.via.C08.1.state-coverage", cfg, lambda: _C08.rule_coverage(b, F, cfg))
            from . import C16 as _C16
            b2 = run.borrow("C16", only=r"\|unhide$", why="the per-site exception set handed to the generic lookup is built from the unhide bins")
            run.guard("C17.via.C16.2.bin-pairing", cfg, lambda: _C16.rule_pairing(b2, F, cfg))
            b3 = run.borrow("C08", only=r"SerializeFormat", why="the class and id stores have the same type: only their position tells them apart on the wire")
            run.guard("C17.via.C08.2.positional", cfg, lambda: _C08.rule_positional(b3, F, cfg))
        if cfg != "C":
            from . import C10 as _C10a
            b102 = run.borrow("C10", why="a rejected load must leave the generic selector stores as they were")
            run.guard("C17.via.C10.2.decode-before-mutate", cfg, lambda: _C10a.rule_atomic(b102, F, cfg))
        from . import C01 as _C01e
        be = run.borrow("C01", why="every generic cosmetic rule of the set reaches the cache: a generic `##.x` is not a copy of `site.*##.x`")
        run.guard("C17.via.C01.9.entry-points", cfg, lambda: _C01e.rule_entry_points(be, F, cfg))


def _store_of(f, t):
    """which store field a mutating call writes to, or None"""
    c = strip_generics(t["callee"])
    if not re.search(r"(HashSet::insert|HashMap::insert|Vec::push)$", c):
        return None
    e = f.expr_operand(t["args"][0])
    m = re.search(r"arg:self\.(\w+)", e)
    if m and m.group(1) in STORES:
        return m.group(1)
    return None


def rule_css_ident(run, F, cfg):
    """css-validation builds store and return the canonical spelling of a selector: an identifier is written with
    cssparser::serialize_identifier (which escapes a leading digit / `--`), not with the look-alike serialize_name
    (`#1000-ros` is not a valid selector and names a different key than `#\\31 000-ros`)."""
    fs = [g for n, g in F.fns.items() if re.search(r"css_validation::CssIdent as cssparser::ToCss>::to_css$", n)]
    if not fs:
        return      # not a css-validation configuration
    g = fs[0]
    run.touched(g)
    calls = [strip_generics(t["callee"]) for b, t in g.calls() if strip_generics(t["callee"]).startswith("cssparser::")]
    run.ob("C17.5.key-extraction", "identifiers-serialised-as-identifiers", calls == ["cssparser::serialize_identifier"],
           f"<CssIdent as ToCss>::to_css writes the name with cssparser::serialize_identifier (calls: {calls})",
           site=g.loc(0), config=cfg)


def rule_partition(run, F, cfg):
    f = F.fn(CF + "add_generic_filter")
    run.touched(f)
    paths = [p for p in enumerate_paths(f) if p.end == "return"]
    kinds = set()
    seen = set()
    for p in paths:
        d = {}
        for e, v in p.conds:
            if re.search(r"plain_css_selector\(arg:rule\)\)$", e) and e.startswith("discr("):
                d["plain"] = v
            m = re.search(r"core::str::starts_with\(.*, '(.)'\)$", e)
            if m:
                d["prefix" + m.group(1)] = v
            if re.search(r"^discr\(cosmetic_filter_cache::key_from_selector\(", e):
                d["key"] = v
            if re.search(r"::eq\(", e) or re.search(r"PartialEq.*::eq\(", e):
                d["simple"] = v
            elif re.search(r"::ne\(", e) and v in (0, 1):
                d["simple"] = 1 - v
            if re.search(r"^discr\(std::collections::HashMap::get_mut\(", e):
                d["bucket"] = v
        stores = [s for s in (_store_of(f, t) for b, t in path_calls(f, p)) if s]
        plain = d.get("plain")
        plain_some = plain == 1 or (isinstance(plain, tuple) and plain[0] == "not" and 0 in plain[1])
        kind = "class" if d.get("prefix.") == 1 else ("id" if d.get("prefix#") == 1 else "misc")
        keyv = d.get("key")
        key_none = keyv in (0, ("not", (1,)))
        label = f"plain={'some' if plain_some else 'none'}|{kind}|key={'none' if key_none else ('some' if keyv is not None else '-')}|simple={d.get('simple', '-')}|bucket={d.get('bucket', '-')}"
        if label in seen:
            continue
        seen.add(label)
        # (whether the complex bucket already existed is not a decision of the partition: `entry().or_default()`
        # has no such branch)
        kinds.add(label.rsplit("|bucket=", 1)[0])
        if not plain_some:
            run.ob("C17.4.procedural-never-generic", label, not stores,
                   f"a rule without a plain CSS selector is inserted into no generic store (stores: {stores})",
                   site=f.loc(p.blocks[-1]), config=cfg)
            continue
        want = {"class": {"simple_class_rules", "complex_class_rules"},
                "id": {"simple_id_rules", "complex_id_rules"}, "misc": {"misc_generic_selectors"}}[kind]
        if key_none and kind in ("class", "id"):
            # no class / id name could be extracted (e.g. an out-of-range CSS escape): the rule cannot be looked up by
            # name, so it has to be among the selectors that are always applied — never dropped
            want = {"misc_generic_selectors"}
        ok = len(stores) == 1 and stores[0] in want
        if ok and kind in ("class", "id") and d.get("simple") in (0, 1):
            # the whole selector IS the key  <=>  simple store (looked up by bare name and re-prefixed)
            ok = stores[0].startswith("simple_") == (d["simple"] == 1)
        run.ob("C17.1.partition", label, ok,
               f"add_generic_filter path [{label}] inserts the rule into {stores or 'NO store'}; required: "
               f"exactly one of {sorted(want)} — the simple store iff the extracted key equals the whole selector — "
               f"(every generic selector must be reachable through the "
               f"class/id lookup or the per-site resources, never neither)",
               site=f.loc(p.blocks[-1]), config=cfg,
               detail="a `.`/`#` selector whose key cannot be extracted is silently dropped" if not stores else "")
    run.floor("C17.1.partition", f"distinct decision paths of add_generic_filter [{cfg}]", len(kinds), 8)


def rule_prefix(run, F, cfg):
    f = F.fn(CF + "add_generic_filter")
    # writer: key[1..]
    idx = [(b, t) for b, t in f.calls(r"as std::ops::Index<.*>>::index$")]
    ok = len(idx) == 2 and all(f.expr_operand(t["args"][1]) == "std::ops::RangeFrom::RangeFrom{start: 1}" and
                               "key_from_selector(" in f.expr_operand(t["args"][0]) for b, t in idx)
    run.ob("C17.2.prefix-agreement", "writer-strips-one-char", ok,
           "class / id stores are keyed by key[1..] of the extracted key (the '.' / '#' prefix removed)",
           site=f.loc(idx[0][0]) if idx else f.loc(0), config=cfg)
    for b, t in idx:
        c = dominating_conditions(f, b)
        pre = [(re.search(r"starts_with\(.*, '(.)'\)$", e).group(1), v) for e, v in c.items() if re.search(r"starts_with\(.*, '(.)'\)$", e)]
        run.ob("C17.2.prefix-agreement", f"writer-prefix@{len(pre)}:{pre[-1][0] if pre else '?'}", bool(pre) and pre[-1][1] == 1,
               f"the strip happens under selector.starts_with({pre[-1][0] if pre else '?'!r})", config=cfg)
    # reader: templates and stores per closure
    h = F.fn(CF + "hidden_class_id_selectors")
    cls = F.closures_of(h.name)
    run.touched(h, *cls)
    pairs = {}
    for c in cls:
        tm = set(c.expr_operand(t["args"][0]) for b, t in c.calls(r"^std::fmt::Arguments::new$"))
        st = set()
        for b, t in c.calls(r"::(contains|get)$"):
            m = re.search(r"up:self\.(\w+)|up:self__(\w+)", c.expr_operand(t["args"][0]))
            if m:
                st.add(m.group(1) or m.group(2))
        if st & set(STORES):
            pairs[c.name] = (tm, st & set(STORES))
    # the stores are probed with the names exactly as they were passed in (the page reports the names of its
    # elements; trimming, re-casing or stripping a leading `.`/`#` maps different names onto one)
    keys = []
    for c in cls:
        if c.name not in pairs:
            continue
        for b, t in c.calls(r"::(contains|get)$"):
            if re.search(r"up:self\.(\w+)", c.expr_operand(t["args"][0])) and (set(STORES) & set(re.findall(r"up:self\.(\w+)", c.expr_operand(t["args"][0])))):
                keys.append(c.expr_operand(t["args"][1]))
    ok_k = len(keys) >= 4 and all(re.match(r"^std::convert::AsRef::as_ref\(arg:\w+\)$", x) for x in keys)
    run.ob("C17.2.prefix-agreement", "reader-probes-with-the-given-names", ok_k,
           f"every probe of the class / id stores uses `<name>.as_ref()` itself as the key ({sorted(set(keys))})",
           site=h.loc(0), config=cfg,
           detail="a name that is normalised before the lookup (trimmed, a leading `.`/`#` stripped) is answered with the "
                  "rules of a different name")
    ok_c = any(tm == {'b"\\x01.\\xc0\\x00"'} and st == {"simple_class_rules", "complex_class_rules"} for tm, st in pairs.values())
    ok_i = any(tm == {'b"\\x01#\\xc0\\x00"'} and st == {"simple_id_rules", "complex_id_rules"} for tm, st in pairs.values())
    run.ob("C17.2.prefix-agreement", "reader-class-template", ok_c,
           f"the class lookup reads simple/complex_class_rules and re-adds the prefix with `.{{}}` ({pairs})", config=cfg)
    run.ob("C17.2.prefix-agreement", "reader-id-template", ok_i,
           "the id lookup reads simple/complex_id_rules and re-adds the prefix with `#{}`", config=cfg)


def rule_emission(run, F, cfg):
    h = F.fn(CF + "hidden_class_id_selectors")
    n = 0
    for c in F.closures_of(h.name):
        if "{closure#" in c.name.split(h.name)[-1].replace("::{closure#", "", 1):
            pass
        for b, t in c.calls(r"^std::vec::Vec::push$"):
            if "selectors" not in c.expr_operand(t["args"][0]):
                continue
            val = c.expr_operand(t["args"][1])
            n += 1
            cond = dominating_conditions(c, b)
            tm = re.search(r'Arguments::new\((b"[^"]*")', val)
            leaves = set(x for x in c.deep_origins(t["args"][1]) if x.startswith("arg:"))
            ok = False
            for cb, ct in c.calls(r"HashSet::contains$"):
                if "up:exceptions" not in c.expr_operand(ct["args"][0]):
                    continue
                ce = c.expr_call(ct)
                if cond.callbb.get(cb) != 0:
                    continue
                tm2 = re.search(r'Arguments::new\((b"[^"]*")', ce)
                leaves2 = set(x for x in c.deep_origins(ct["args"][1]) if x.startswith("arg:"))
                # the SAME text: same template, same leaves, and the same functions applied to them on the way (a name
                # that is escaped for the emission but not for the test is a different string for every name that needs
                # escaping)
                def applied(op_):
                    e_ = re.sub(r"<[^<>]*>", "", c.expr_operand(op_, 40))
                    return sorted(x for x in re.findall(r"([\w:]+)\(", e_) if not re.search(r"as_ref$|must_use$|Deref", x))
                fns_a, fns_b = applied(t["args"][1]), applied(ct["args"][1])
                if tm and tm2 and tm.group(1) == tm2.group(1) and leaves and leaves == leaves2 and fns_a == fns_b:
                    ok = True
            run.ob("C17.3.exception-on-every-emission", f"simple-emission#{n}", ok,
                   f"a simple selector is emitted only under !exceptions.contains(<the same formatted "
                   f"selector>) — emitted `{val[:100]}`", site=c.loc(b), config=cfg,
                   detail="the exception test must use the full selector incl. its '.' / '#' prefix, "
                          "otherwise `.x` exceptions suppress `#x` (or nothing is suppressed)")
    run.floor("C17.3.exception-on-every-emission", f"simple emissions [{cfg}]", n, 2)
    # complex buckets: filter closures test !exceptions.contains(sel)
    m = 0
    for c in [g for nme, g in F.fns.items() if nme.startswith(h.name + "::{closure")]:
        ext = c.calls(r"Extend<.*>>::extend$|Vec::extend$")
        for b, t in ext:
            chain = c.expr_operand(t["args"][1])
            m += 1
            ok = "std::iter::Iterator::filter(" in chain
            run.ob("C17.3.exception-on-every-emission", f"complex-emission#{m}", ok,
                   "complex selectors are emitted through a filter(..) over the bucket", site=c.loc(b), config=cfg)
    filt = 0
    for nme, g in F.fns.items():
        if nme.startswith(h.name + "::{closure") and nme.count("{closure") == 2:
            cs = g.calls(r"HashSet::contains$")
            if cs and "up:exceptions" in g.expr_operand(cs[0][1]["args"][0]):
                # returns Not(contains)
                r = g.expr_local(0)
                if r.startswith("Not(") and "contains" in r:
                    filt += 1
    run.ob("C17.3.exception-on-every-emission", "complex-filter-closures", filt >= 2 and m >= 2,
           f"{filt} filter closures return !exceptions.contains(sel) for {m} complex emissions", config=cfg)


def rule_key(run, F, cfg):
    k = F.fn("cosmetic_filter_cache::key_from_selector")
    run.touched(k)
    lit = {}
    for nme in ("RE_PLAIN_SELECTOR", "RE_PLAIN_SELECTOR_ESCAPED", "RE_ESCAPE_SEQUENCE"):
        for c in [g for n2, g in F.fns.items() if n2.startswith(f"cosmetic_filter_cache::key_from_selector::{nme}::{{closure")]:
            for b, t in c.calls(r"^regex::Regex::new$"):
                lit[nme] = c.expr_operand(t["args"][0])
    from analysis.a7 import regex_equivalent
    # the three literals, compared as automata with their reference spelling (CSS Syntax: an identifier is made of
    # word characters, `-` and escapes; a hex escape is 1-6 hex digits optionally followed by ONE space that belongs to
    # the escape; any other escaped character stands for itself)
    # CSS Syntax 3, section 4.3: an identifier code point is a letter, a digit, `_`, `-` or ANY non-ASCII code point
    # (`.ad\U0001F3AFbox`, `#box\u2014 1`: F-C17-3); a hex escape is 1-6 hex digits optionally followed by ONE whitespace
    # character that belongs to the escape (a filter line can hold a space, a tab or a form feed)
    REF = {"RE_PLAIN_SELECTOR": (r'"^[#.](?:[A-Za-z0-9_\\\\-]|[^\\x00-\\x7F])+"', "fast-path-regex",
                                 "^[#.](ident code point or backslash)+ with every non-ASCII code point an ident code point"),
           "RE_PLAIN_SELECTOR_ESCAPED": (r'"^[#.](?:\\\\[0-9A-Fa-f]{1,6}[ \\t\\x0C]?|\\\\.|[A-Za-z0-9_-]|[^\\x00-\\x7F])+"', "escaped-key-regex",
                                         "^[#.](?:hex escape with optional trailing whitespace|escaped character|ident code point)+"),
           "RE_ESCAPE_SEQUENCE": (r'"\\\\([0-9A-Fa-f]{1,6}[ \\t\\x0C]?|.)"', "escape-regex-is-css-escape",
                                  "backslash + (1-6 hex digits and at most one of space / tab / form feed | any one character)")}
    for nme, (ref, inst, text) in REF.items():
        okx, why = regex_equivalent(lit.get(nme, '""'), ref)
        run.ob("C17.5.key-extraction", inst, okx,
               f"{nme} of key_from_selector behaves like {text} (found {lit.get(nme)}; {why})",
               site=k.loc(0), config=cfg,
               detail="a selector such as `.\\32xl\\:grid` (class `2xl:grid`) or `#\\5f-ad` is keyed under a name the "
                      "page never reports when the escape is decoded differently from CSS: the rule is then reachable "
                      "neither by the class/id lookup nor through the per-site resources" if not okx else "")
    fd = k.calls(r"^regex::Regex::find$")
    ok = any("RE_PLAIN_SELECTOR" in k.expr_operand(t["args"][0]) and k.expr_operand(t["args"][1]) == "arg:selector" for b, t in fd)
    run.ob("C17.5.key-extraction", "uses-fast-path", ok,
           "key_from_selector applies RE_PLAIN_SELECTOR.find(selector)", config=cfg)
    # the value of a hex escape is read from its digits (the optional space stripped), base 16
    fr = [k.expr_call(t) for b, t in k.calls(r"^core::num::from_str_radix$")]
    # the stripped character is the escape's own trailing whitespace: ' ' alone (before F-C17-3) or a predicate that
    # accepts exactly {space, tab, form feed}
    from analysis.guards import char_predicate_set as _cps
    ws_ok = False
    m_ws = re.search(r"core::str::(strip_suffix|trim_end_matches)\(.*, closure\[([^\]]+)\]\(\)\)", fr[0]) if fr else None
    if m_ws and F.fns.get(m_ws.group(2)) is not None:
        try:
            ws_ok = set(_cps(F.fns[m_ws.group(2)]) or ()) == {" ", "\t", "\x0c"}
        except Exception:
            ws_ok = False
    okh = len(fr) == 1 and fr[0].endswith(", 16)") and \
        (bool(re.search(r"core::str::(strip_suffix|trim_end_matches)\(.*, ' '\)", fr[0])) or ws_ok)
    hexd = [c.expr_local(0) for c in F.closures_of(k.name) if "is_ascii_hexdigit" in c.expr_local(0)]
    run.ob("C17.5.key-extraction", "hex-value-from-digits", okh and len(hexd) == 1,
           f"the code point of a hex escape is from_str_radix(<capture without its trailing space>, 16), taken only for "
           f"captures that consist of hex digits ({[x[:100] for x in fr]}; digit test {hexd})", site=k.loc(0), config=cfg)
    # every key handed back is cut out by one of the regexes ...
    from analysis.guards import conditional_defs as _cd
    defs = _cd(k, 0)
    somes = [(b, val) for kind, b, val, conds, _ in defs if "Option::Some" in val]
    oks = bool(somes) and all("regex::Regex::find(" in val for b, val in somes)
    run.ob("C17.5.key-extraction", "keys-come-from-the-regexes", oks and len(somes) >= 2,
           f"each of the {len(somes)} `Some(key)` results of key_from_selector is built from a Regex::find match "
           f"(no second, hand-written scan decides where an identifier ends)", site=k.loc(0), config=cfg)
    # ... and a selector is given up (None -> always-applied selectors) only for the modelled reasons
    MODELLED = (r"^discr\(regex::Regex::find\(static:cosmetic_filter_cache::key_from_selector::RE_PLAIN_SELECTOR(_ESCAPED)?, arg:selector\)\)$",
                r"^std::option::Option::is_(none|some)\(memchr::memchr\(92, ",
                r"^discr\(<regex::CaptureMatches<'r, 'h> as std::iter::Iterator>::next\(regex::Regex::captures_iter\(",
                r"^discr\(std::result::Result::ok\(core::num::from_str_radix\(",
                r"^discr\(std::char::from_u32\(",
                r"^core::str::is_empty\(", r"^(<std::str::(Bytes|Chars)<'_> as std::iter::Iterator>|std::iter::Iterator)::all\(core::str::(bytes|chars)\(",
                r"^discr\(core::str::strip_suffix\(")
    stray = []
    nn = 0
    for kind, b, val, conds, _ in defs:
        if "Option::Some" in val:
            continue
        nn += 1
        for e in conds:
            if not any(re.search(rx, e) for rx in MODELLED):
                stray.append(e[:120])
    run.ob("C17.5.key-extraction", "given-up-only-for-modelled-reasons", nn >= 3 and not stray,
           f"the {nn} ways key_from_selector answers None depend only on: no identifier at the start, a backslash "
           f"present, the escaped form not matching, a hex value that is not a code point; other conditions: {sorted(set(stray))[:3]}",
           site=k.loc(0), config=cfg,
           detail="an extra length / shape test in front of the decoding sends selectors it misjudges to the "
                  "always-applied set and makes them unreachable by name")
