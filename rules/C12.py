"""C12 — requests are normalised consistently: host, party and scheme classification."""
import os
import re

from analysis import a7, extract
from analysis.facts import strip_generics
from analysis.guards import dominating_conditions, has_cond, conditional_defs
from analysis.pathinterp import enumerate_paths, path_value
from . import a7_cones, a7_common

EXPLANATION = (
    "Decided: (1) totality — panic-site audit (A7) of Request::new, Request::preparsed and "
    "url_parser::parse_url (hand-rolled scanner included): every byte offset used for slicing has its "
    "provenance in the site key (len_utf8 sums / Chars::as_str views / offsets recorded while building "
    "the same serialization); (2) scheme table — from_detailed_parameters extracted by path enumeration "
    "over schema in {\"\", http, https, ws, wss, other}: (is_http, is_https, is_supported, forced "
    "websocket type) = (\"\" -> https, supported), (http -> http), (https -> https), (ws|wss -> supported "
    "and RequestType::Websocket regardless of the raw type), (other -> unsupported); (3) party — in "
    "Request::new third_party is ne(source.domain(), url.domain()) where both URLs parsed and the "
    "constant true where the source did not; (4) single construction path — Request is built only in "
    "from_detailed_parameters, tokens and the lower-cased URL are computed there from the `url` argument "
    "alone, so preparsed == new downstream; the leading/trailing C0-control-or-space trimming of the URL "
    "parser is intact."
    " Later additions: the registrable domain comes from addr's parse of the same host (registry rules first, plain DNS-name rules only after an illegal-character / label-shape rejection, never for numeric hosts; addr 0.15.6 pinned); third-party compares the two domains without trailing dots; both authority scanners end at `/`, `?`, `#` and, for special schemes, at a backslash."
    ' Round 8: parse_userinfo continues behind the `@` whenever one was found (empty userinfo included); the request type check_options reads is the derived one (C03.3 borrowed).'
)
NOT_DECIDED = ("That addr's public-suffix answer is right and that the reported hostname equals WHATWG host "
               "parsing (value level, dependency).")


def _closure_calls_suffix(F, expr):
    """the fallback of `root()` is the public suffix of the same parse (`unwrap_or_else(|| name.suffix())`)"""
    for cname in re.findall(r"closure\[(.+?)\]\(", expr):
        c = F.fns.get(cname)
        if c is not None and c.calls(r"^addr::(domain|dns)::Name::suffix$"):
            return True
    return "::suffix(" in expr


def check(run):
    for cfg in run.cfgs("A", "B"):
        F = run.facts(cfg)
        run.guard("C12.1.totality", cfg, lambda: a7.check_cone(
            run, "C12.1.totality", F, cfg, a7_cones.REQUEST_ROOTS, a7_common.rows(), a7_common.ALL,
            floor=15, label="request-construction"))
        run.guard("C12.2.scheme-table", cfg, lambda: rule_scheme(run, F, cfg))
        from . import C03 as _C03co
        bco = run.borrow("C03", only=r"conjuncts|cpt-table", why="the request type the rules see is the one Request::new derived (websocket for ws/wss URLs): check_options reads request.request_type itself, not a copy taken before that derivation")
        run.guard("C12.via.C03.3.check_options-table", cfg, lambda: _C03co.rule_check_options(bco, F, cfg))
        run.guard("C12.3.party", cfg, lambda: rule_party(run, F, cfg))
        run.guard("C12.4.single-construction", cfg, lambda: rule_single(run, F, cfg))
        run.guard("C12.5.url-scanner-tables", cfg, lambda: rule_scanner(run, F, cfg))
        run.guard("C12.5.url-scanner-tables", cfg + "/brackets", lambda: rule_brackets(run, F, cfg))
        run.guard("C12.5.url-scanner-tables", cfg + "/authority-ends", lambda: rule_authority_ends(run, F, cfg))
        run.guard("C12.5.url-scanner-tables", cfg + "/host-normalisation", lambda: rule_host_normalised(run, F, cfg))
        run.guard("C12.6.host-span", cfg, lambda: rule_host_span(run, F, cfg))
        run.guard("C12.6.host-span", cfg + "/userinfo", lambda: rule_userinfo_skipped(run, F, cfg))
        run.guard("C12.7.whole-url", cfg, lambda: rule_whole_url(run, F, cfg))
        from . import C03 as _C03
        b3 = run.borrow("C03", why="only requests with is_supported are eligible for matching")
        run.guard("C12.via.C03.4.unsupported-schemes", cfg, lambda: _C03.rule_unsupported(b3, F, cfg))


def rule_scheme(run, F, cfg):
    f = F.fn("request::Request::from_detailed_parameters")
    run.touched(f)
    # locate the locals feeding the aggregate
    ag = [(b, i, s) for b, i, s in f.statements() if s["k"] == "assign" and s["rv"]["k"] == "agg" and s["rv"].get("adt") == "request::Request"]
    if len(ag) != 1:
        run.ob("C12.2.scheme-table", "aggregate", False, f"expected one Request aggregate, found {len(ag)}", status="UNDISCHARGED", config=cfg)
        return
    b, i, s = ag[0]
    ops = dict(zip(s["rv"]["fields"], s["rv"]["ops"]))
    def root(op):
        return op["pl"]["l"] if op.get("k") in ("copy", "move") and not op["pl"]["p"] else None
    locs = {k: root(ops[k]) for k in ("is_http", "is_https", "is_supported", "request_type")}
    rows = {}
    n = 0
    for p in enumerate_paths(f, stop_blocks=[b]):
        if not p.end.startswith("stop"):
            continue
        d = {}
        for e, v in p.conds:
            if e == "core::str::is_empty(arg:schema)":
                d["empty"] = v
            m = re.search(r"::eq\(arg:schema, \"(\w+)\"\)$", e)
            if m:
                d[m.group(1)] = v
        key = "empty" if d.get("empty") == 1 else ("http" if d.get("http") == 1 else ("https" if d.get("https") == 1 else
              ("ws" if d.get("ws") == 1 else ("wss" if d.get("wss") == 1 else "other"))))
        if key == "other" and not (d.get("empty") == 0 and d.get("http") == 0 and d.get("https") == 0 and d.get("ws") == 0 and d.get("wss") == 0):
            continue
        vals = {}
        for k, l in locs.items():
            vals[k] = _value_on_path(f, p, l) if l is not None else "?"
        n += 1
        rows.setdefault(key, set()).add((vals["is_http"], vals["is_https"], vals["is_supported"],
                                         "Websocket" in str(vals["request_type"]), "cpt_match_type" in str(vals["request_type"])))
    want = {
        "empty": ("false", "true", "true", False, True),
        "http": ("true", "false", "true", False, True),
        "https": ("false", "true", "true", False, True),
        "ws": ("false", "false", "true", True, False),
        "wss": ("false", "false", "true", True, False),
        "other": ("false", "false", "false", False, True),
    }
    for k, w in want.items():
        got = rows.get(k, set())
        run.ob("C12.2.scheme-table", f"schema={k}", got == {w},
               f"schema {k!r}: (is_http, is_https, is_supported, forced Websocket, type from raw) = {sorted(got)}; "
               f"expected {w}", site=f.loc(0), config=cfg)
    run.floor("C12.2.scheme-table", f"paths classified [{cfg}]", n, 6)


def _value_on_path(f, path, local):
    """boolean-ish value of `local` at the end of the path, resolving comparisons decided on the path"""
    v = path_value(f, path, local)
    if v is None:
        return "?"
    decided = {}
    for e, val in path.conds:
        decided[e] = val
    # a value that is itself a decided predicate, or a negation / conjunction of decided ones
    def ev(x):
        x = x.strip()
        if x in ("true", "false"):
            return x
        if x in decided and decided[x] in (0, 1):
            return "true" if decided[x] else "false"
        m = re.match(r"^Not\((.*)\)$", x)
        if m:
            r = ev(m.group(1))
            return {"true": "false", "false": "true"}.get(r, x)
        return x
    return ev(v)


def rule_party(run, F, cfg):
    f = F.fn("request::Request::new")
    run.touched(f)
    calls = f.calls(r"^request::Request::from_detailed_parameters$")
    fd = F.fn("request::Request::from_detailed_parameters")
    names = {v["arg"]: v["name"] for v in fd.mir.get("vars", []) if v.get("arg")}
    pos = [k for k, n in names.items() if n == "third_party"]
    ok = len(calls) == 2 and bool(pos)
    seen = set()
    for b, t in calls:
        e = f.expr_operand(t["args"][pos[0] - 1]) if pos else "?"
        c = dominating_conditions(f, b)
        src_parsed = [v for k, v in c.items() if re.search(r"^discr\(url_parser::parse_url\(arg:source_url\)\)$", k)]
        if src_parsed == [1]:
            D = lambda who: r"(?:core::str::trim_end_matches\()?url_parser::RequestUrl::domain\(url_parser::parse_url\(arg:" + who + r"\)@Some\.0\)(?:, '\.'\))?"
            m_ = re.search(r"::ne\((" + D("source_url") + r"), (" + D("url") + r")\)$", e)
            # both sides are compared without their trailing dots
            good = bool(m_) and m_.group(1).startswith("core::str::trim_end_matches(") and m_.group(2).startswith("core::str::trim_end_matches(")
            seen.add("both")
        else:
            good = e == "true"
            seen.add("nosource")
        ok = ok and good
    run.ob("C12.3.party", "third_party-provenance", ok and seen == {"both", "nosource"},
           "Request::new: third_party = (source.domain() != url.domain()), both read without trailing dots (`example.com.` "
           "is the fully qualified spelling of `example.com`), where the source URL parsed, and the constant true where it did not", site=f.loc(0), config=cfg)
    d = F.fn("url_parser::RequestUrl::domain")
    e = d.expr_local(0)
    okd = "arg:self.hostname_pos.0" in e and "arg:self.domain.0" in e and "arg:self.domain.1" in e
    run.ob("C12.3.party", "domain-slice", okd,
           "RequestUrl::domain slices url[hostname_pos.0 + domain.0 .. hostname_pos.0 + domain.1] (the pair "
           "returned by get_host_domain for that same host)", config=cfg)
    pu = F.fn("url_parser::parse_url")
    cl = F.closures_of(pu.name)
    okg = any(c.calls(r"^url_parser::get_host_domain$") for c in cl + [pu])
    run.ob("C12.3.party", "domain-from-resolver", okg, "parse_url computes `domain` with get_host_domain(host)", config=cfg)


def rule_single(run, F, cfg):
    sites = []
    for n, f in F.fns.items():
        for b, i, s in f.statements():
            if s["k"] == "assign" and s["rv"]["k"] == "agg" and s["rv"].get("adt") == "request::Request":
                sites.append(n)
    sites = [x for x in sites if not x.endswith("as std::clone::Clone>::clone")]
    run.ob("C12.4.single-construction", "one-aggregate", sites == ["request::Request::from_detailed_parameters"],
           f"Request is constructed only in from_detailed_parameters ({sites})", config=cfg)
    f = F.fn("request::Request::from_detailed_parameters")
    ag = [s for b, i, s in f.statements() if s["k"] == "assign" and s["rv"]["k"] == "agg" and s["rv"].get("adt") == "request::Request"][0]
    ops = dict(zip(ag["rv"]["fields"], ag["rv"]["ops"]))
    tok = f.expr_operand(ops["request_tokens"])
    low = f.expr_operand(ops["url_lower_cased"])
    ok = bool(re.match(r"^request::calculate_tokens\((core|std)::str::to_ascii_lowercase\(arg:url\)\)$", tok)) and "to_ascii_lowercase(arg:url)" in low
    run.ob("C12.4.single-construction", "tokens-from-url", ok,
           f"request tokens = calculate_tokens(url.to_ascii_lowercase()) and url_lower_cased derive from the `url` "
           f"argument alone (tokens: `{tok[:100]}`)", config=cfg)
    hn = f.expr_operand(ops["hostname"])
    run.ob("C12.4.single-construction", "hostname-from-argument", hn in ("arg:hostname", "std::str::to_owned(arg:hostname)"), f"hostname = `{hn}`", config=cfg)
    # preparsed passes its parts straight through
    p = F.fn("request::Request::preparsed")
    run.touched(p)
    c = p.calls(r"^request::Request::from_detailed_parameters$")
    okp = len(c) == 1
    if okp:
        a = [p.expr_operand(x) for x in c[0][1]["args"]]
        okp = a[1] == "arg:url" and a[3] == "arg:hostname" and a[4] == "arg:source_hostname" and a[5] == "arg:third_party" \
            and bool(re.search(r"memchr::memchr\(58, arg:url\)", a[2]))
    run.ob("C12.4.single-construction", "preparsed-passthrough", okp,
           "Request::preparsed forwards url / hostname / source_hostname / third_party unchanged and takes the "
           "schema as url[..first ':']", site=p.loc(0), config=cfg,
           detail="an opaque URL without \"://\" (data:, about:, mailto:) must keep its scheme and stay unsupported")
    # URL parser trimming of C0 control / space
    inp = [g for n, g in F.fns.items() if n.startswith("url_parser::parser::Input") and n.endswith("::new")]
    okt = False
    for g in inp:
        tm = g.calls(r"str::trim_matches$")
        okt = any("c0_control_or_space" in g.expr_call(t) for b, t in tm)
    run.ob("C12.4.single-construction", "c0-trim", okt,
           "Input::new trims leading / trailing C0 control characters and spaces (trim_matches(c0_control_or_space)), "
           "not just Unicode whitespace", config=cfg)


def rule_scanner(run, F, cfg):
    """constant tables of the hand-rolled URL scanner that decide host / scheme classification"""
    c0 = F.fn("url_parser::parser::c0_control_or_space")
    e = c0.expr_local(0)
    run.ob("C12.5.url-scanner-tables", "c0_control_or_space", e == "(arg:ch Le ' ')",
           f"c0_control_or_space(ch) is `ch <= ' '` (U+0000..=U+0020, space included): `{e}`", site=c0.loc(0), config=cfg)
    st = F.fn("url_parser::parser::SchemeType::from")
    variants = [v["name"] for v in F.adt("url_parser::parser::SchemeType")["variants"]]
    table = {}
    for p in enumerate_paths(st):
        if p.end != "return":
            continue
        val = path_value(st, p, 0) or ""
        m = re.search(r"SchemeType::(\w+)", val)
        lits = [re.search(r'"([^"]*)"\)$', e2).group(1) for e2, v in p.conds if v == 1 and re.search(r'::eq\(.*, "([^"]*)"\)$', e2)]
        if m:
            table[lits[-1] if lits else "<other>"] = m.group(1)
    want = {"http": "SpecialNotFile", "https": "SpecialNotFile", "ws": "SpecialNotFile", "wss": "SpecialNotFile",
            "ftp": "SpecialNotFile", "gopher": "SpecialNotFile", "file": "File", "<other>": "NotSpecial"}
    run.ob("C12.5.url-scanner-tables", "SchemeType::from", table == want,
           f"SchemeType::from classifies {table} (reference {want})", site=st.loc(0), config=cfg)
    # the scheme is lower-cased while it is scanned, i.e. BEFORE it is classified
    ps = F.fn("url_parser::parser::Parser::parse_scheme")
    run.touched(ps)
    pushes = [ps.expr_operand(t["args"][1]) for b, t in ps.calls(r"^std::string::String::push$")]
    lowered = [x for x in pushes if "to_ascii_lowercase" in x]
    run.ob("C12.5.url-scanner-tables", "scheme-lowercased-while-scanned", bool(lowered) and len(pushes) >= 3,
           f"parse_scheme appends upper-case scheme letters lower-cased ({pushes}); the scheme must be in its "
           f"canonical form before SchemeType::from classifies it (special vs. non-special parsing rules)",
           site=ps.loc(0), config=cfg)
    pw = F.fn("url_parser::parser::Parser::parse_with_scheme")
    cs = pw.calls(r"SchemeType::from$")
    ok = len(cs) == 1 and "arg:self.serialization" in pw.expr_operand(cs[0][1]["args"][0])
    later = [b for b, t in pw.calls(r"make_ascii_lowercase$|to_ascii_lowercase$|to_lowercase$")]
    run.ob("C12.5.url-scanner-tables", "classified-from-serialization", ok and not later,
           "parse_with_scheme classifies the already serialised (lower-cased) scheme and does not change its case "
           "afterwards", site=pw.loc(0), config=cfg)
    # IPv4/IPv6/domain: the registrable domain always comes from the resolver (no shortcut)
    gd = F.fn("url_parser::get_host_domain")
    run.touched(gd)
    dr = F.fns.get("<url_parser::DefaultResolver as url_parser::ResolvesDomain>::get_host_domain")
    if dr is not None:
        calls = [strip_generics(t["callee"]) for b, t in dr.calls() if t.get("local")]
        parse = dr.calls(r"parse_domain_name$")
        n_ret = len([1 for kind, b, val, conds, _ in conditional_defs(dr, 0)])
        ok = len(parse) == 1 and not calls
        # every non-empty host goes through the public-suffix lookup
        dom = all(("is_empty" in k) for k in dominating_conditions(dr, parse[0][0])) if parse else False
        run.ob("C12.5.url-scanner-tables", "domain-always-from-psl", ok and dom,
               "DefaultResolver::get_host_domain sends every non-empty host through List.parse_domain_name (no "
               f"fast path that bypasses the public-suffix list); local helpers called: {calls}", site=dr.loc(0), config=cfg)


def rule_authority_ends(run, F, cfg):
    """Where the authority component ends: both scanners (the userinfo look-ahead and the host scan) stop at `/`, `?`
    and `#` for every scheme, and at `\\` for the special schemes (http, https, ws, wss, ftp, file treat a backslash
    like a slash: `https://example.com\\@evil.test/` is a request to example.com). The two scanners agreeing with each
    other is not enough: both have to agree with this table."""
    for name in ("parse_userinfo", "parse_host"):
        f = F.fn("url_parser::parser::Parser::" + name)
        run.touched(f)
        sw = [f.blocks[b]["t"] for b in sorted(f.normal_blocks()) if f.blocks[b]["t"]["k"] == "switch" and f.blocks[b]["t"].get("dty") == "char"]
        ok, why = False, "no switch on the scanned character"
        for t in sw:
            tg = dict((v, b) for v, b in t["targets"])
            if not all(c in tg for c in (47, 63, 35)):
                continue
            same_end = len({tg[47], tg[63], tg[35]}) == 1
            bs = tg.get(92)
            special = False
            if bs is not None:
                blk = f.blocks[bs]["t"]
                special = blk["k"] == "call" and strip_generics(blk["callee"]).endswith("SchemeType::is_special") \
                    and f.expr_operand(blk["args"][0]) == "arg:scheme_type"
            ok = same_end and special
            why = f"ends at {sorted(chr(c) for c in (47, 63, 35) if c in tg)}, backslash arm guarded by scheme_type.is_special(): {special}"
        run.ob("C12.5.url-scanner-tables", f"{name}:authority-ends", ok,
               f"{name} ends the authority at `/`, `?`, `#` and, for special schemes only, at a backslash ({why})",
               site=f.loc(0), config=cfg)
    isp = F.fn("url_parser::parser::SchemeType::is_special")
    variants = [v["name"] for v in F.adt("url_parser::parser::SchemeType")["variants"]]
    table = {}
    for p_ in enumerate_paths(isp):
        if p_.end != "return":
            continue
        d = [v for e2, v in p_.conds if e2 == "discr(arg:self)"]
        val = path_value(isp, p_, 0) or ""
        for k, vn in enumerate(variants):
            if not d or d[0] == k or (isinstance(d[0], tuple) and d[0][0] == "not" and k not in d[0][1]):
                table.setdefault(vn, set()).add(val)
    want = {vn: {"false" if vn == "NotSpecial" else "true"} for vn in variants}
    run.ob("C12.5.url-scanner-tables", "is_special", table == want,
           f"SchemeType::is_special is false exactly for NotSpecial ({ {k: sorted(v) for k, v in table.items()} })", site=isp.loc(0), config=cfg)


def rule_brackets(run, F, cfg):
    """parse_host: a ':' ends the host only outside an IPv6 literal: `[` opens, `]` closes (the flag is found
    by its role — the boolean local written under the '[' and ']' arms — not by its name)"""
    f = F.fn("url_parser::parser::Parser::parse_host")
    run.touched(f)
    upd = {}
    for b, i, st in f.statements():
        if st["k"] == "assign" and not st["pl"]["p"] and st["pl"]["l"] in f.varnames and st["pl"]["l"] > f.argc:
            val = f.vexpr_rvalue(st["rv"])
            if val not in ("true", "false"):
                continue
            c = dominating_conditions(f, b, render=f.vexpr_operand)
            ch = [v for k, v in c.items() if re.match(r"^\$\w+$", k) and isinstance(v, int) and v > 1]
            upd.setdefault(f.varnames[st["pl"]["l"]], []).append((val, ch[0] if ch else None))
    want = sorted([("false", None), ("true", ord("[")), ("false", ord("]"))], key=str)
    flags = [n for n, u in upd.items() if sorted(u, key=str) == want]
    run.ob("C12.5.url-scanner-tables", "host:bracket-state", len(flags) == 1,
           f"exactly one boolean local of parse_host starts false, becomes true at '[' and false at ']' "
           f"(boolean updates {upd})", site=f.loc(0), config=cfg)
    # the ':' arm breaks only when not inside brackets
    ok = False
    for b in sorted(f.normal_blocks()):
        t = f.blocks[b]["t"]
        if t["k"] != "switch" or not re.match(r"^\$\w+$", f.vexpr_operand(t["discr"])):
            continue
        tgt = dict((v, tb) for v, tb in t["targets"])
        if ord(":") in tgt and flags:
            nb = f.blocks[tgt[ord(":")]]["t"]
            ok = nb["k"] == "switch" and f.vexpr_operand(nb["discr"]) in ("$" + flags[0], "Not($" + flags[0] + ")")
    run.ob("C12.5.url-scanner-tables", "host:colon-respects-brackets", ok,
           "a ':' in the host scan is followed by the test of the bracket flag (port separator only outside `[..]`)",
           config=cfg)


def rule_host_normalised(run, F, cfg):
    """parse_host writes the host in normalised form: lower-cased (ASCII branch) or through IDNA (which lower-cases
    too), and tabs / newlines inside the host are dropped (WHATWG), not kept or counted"""
    f = F.fn("url_parser::parser::Parser::parse_host")
    writes = []
    for b, t in f.calls(r"^std::fmt::Write::write_fmt$|^std::string::String::push_str$"):
        if not f.vexpr_operand(t["args"][0]).endswith(".serialization"):
            continue
        prov = f.expr_operand(t["args"][1]) + " " + " ".join(sorted(f.deep_origins(t["args"][1])))
        writes.append((bool(re.search(r"to_ascii_lowercase|to_lowercase|idna::domain_to_ascii", prov)), f.loc(b)))
    run.ob("C12.5.url-scanner-tables", "host:lower-cased", len(writes) >= 2 and all(o for o, _ in writes),
           "every write of the host into the serialization goes through to_ascii_lowercase or idna::domain_to_ascii: "
           "`https://EXAMPLE.com/` has hostname example.com (rule hostnames are lower-cased, so an upper-case host "
           f"would match no `||example.com^` rule and be third-party to itself) ({writes})", site=f.loc(0), config=cfg)
    # ignored characters: either the input iterator skips them, or the slow path filters them explicitly
    it = [g for n, g in F.fns.items() if n.endswith("Input<'i> as std::iter::Iterator>::next")]
    skips = bool(it) and any(re.search(r"Iterator::find$|Iterator::filter$", strip_generics(t["callee"])) for b, t in it[0].calls())
    filt = False
    for b, t in f.calls(r"^std::iter::Iterator::filter$"):
        c = dominating_conditions(f, b, render=f.vexpr_operand)
        m = re.search(r"closure\[([^\]]+)\]", f.vexpr_call(t))
        cl = F.fns.get(m.group(1)) if m else None
        if cl is None or not any(re.match(r"^\$\w+$", k) and v == 1 for k, v in c.items()):
            continue
        sws = [cl.blocks[x]["t"] for x in sorted(cl.normal_blocks()) if cl.blocks[x]["t"]["k"] == "switch"]
        filt = any(sorted(v for v, _ in sw["targets"]) == [9, 10, 13] for sw in sws) and cl.expr_local(0).startswith("Not(")
    run.ob("C12.5.url-scanner-tables", "host:ignored-chars-dropped", skips or filt,
           "tabs and newlines inside the host are removed: either Input::next skips them or the has_ignored_chars path "
           "collects the scanned slice through a filter that rejects exactly \\t, \\n, \\r (otherwise "
           "`http://exa\\tmple.com/` keeps the tab and loses the last character of the host)", site=f.loc(0), config=cfg)


def rule_host_span(run, F, cfg):
    """The reported hostname is serialization[host_start..host_end]: host_start is the length of the serialization
    AFTER the userinfo has been written and BEFORE the host is, host_end what parse_host returns. And the registrable
    domain of a host the public-suffix list rejects (IP literal, odd labels) is the whole host, never the empty string."""
    f = F.fn("url_parser::parser::Parser::after_double_slash")
    run.touched(f)
    ok = False
    detail = ""
    for b, i, st in f.statements():
        if st["k"] == "assign" and st["rv"]["k"] == "agg" and str(st["rv"].get("adt", "")).endswith("::Hostname"):
            d = dict(zip(st["rv"]["fields"], st["rv"]["ops"]))
            hs, he = f.expr_operand(d["host_start"]), f.expr_operand(d["host_end"])
            ui = [x for x, t in f.calls(r"Parser::parse_userinfo$")]
            ph = [x for x, t in f.calls(r"Parser::parse_host$")]
            lens = [x for x, t in f.calls(r"^std::string::String::len$") if f.expr_operand(t["args"][0]).endswith(".serialization")]
            ok = hs == "std::string::String::len(arg:self.serialization)" and he.startswith("url_parser::parser::Parser::parse_host(") \
                and he.endswith("@Continue.0.0") and len(lens) == 1 and bool(ui) and bool(ph) \
                and all(f.dominates(u, lens[0]) for u in ui) and all(f.dominates(lens[0], p_) for p_ in ph)
            detail = f"host_start = {hs}; host_end = {he[-60:]}; len at bb{lens}, userinfo at bb{ui}, host at bb{ph}"
    run.ob("C12.6.host-span", "host-start-between-userinfo-and-host", ok,
           "after_double_slash takes host_start = serialization.len() after parse_userinfo and before parse_host, and "
           "host_end from parse_host (credentials never become part of the hostname)", site=f.loc(0), config=cfg, detail=detail)
    g = [x for n, x in F.fns.items() if n.endswith("DefaultResolver as url_parser::ResolvesDomain>::get_host_domain")]
    if not g:
        return   # configuration without the embedded resolver
    g = g[0]
    rows = []
    for b, i, st in g.statements():
        if st["k"] == "assign" and st["rv"]["k"] == "agg" and st["rv"].get("agg") == "tuple" and len(st["rv"]["ops"]) == 2:
            c = dominating_conditions(g, b)
            empty = c.get("core::str::is_empty(arg:host)")
            psl = [v for k, v in c.items() if "parse_domain_name(" in k and k.startswith("discr(")]
            rows.append((empty, psl[0] if psl else None, tuple(g.expr_operand(o) for o in st["rv"]["ops"])))
    # rows: empty host -> (0, 0); a host no parser accepts -> (0, len); otherwise (len - |domain|, len) with the domain
    # taken from addr's parse of this very host (registry rules first, plain DNS-name rules for the hosts those reject
    # only because of a character / label shape, never for numeric hosts)
    shapes = []
    for b, i, st in g.statements():
        if st["k"] == "assign" and st["rv"]["k"] == "agg" and st["rv"].get("agg") == "tuple" and len(st["rv"]["ops"]) == 2:
            a, z = (g.expr_operand(o) for o in st["rv"]["ops"])
            c = dominating_conditions(g, b)
            dom = [v for k, v in c.items() if k.startswith("discr(") and "parse_domain_name(" in k and "kind(" not in k]
            dns = [v for k, v in c.items() if k.startswith("discr(") and "parse_dns_name(" in k]
            if c.get("core::str::is_empty(arg:host)") == 1:
                shapes.append(("empty", (a, z) == ("0", "0")))
            elif a == "0":
                shapes.append(("whole-host", z == "core::str::len(arg:host)" and dom == [1] and dns in ([], [1])))
            else:
                from_parse = ("parse_domain_name(addr::psl::List::List{}, arg:host)" in a and dom == [0]) or \
                             ("parse_dns_name(addr::psl::List::List{}, arg:host)" in a and dom == [1] and dns == [0])
                shapes.append(("suffix", z == "core::str::len(arg:host)" and a.startswith("(core::str::len(arg:host) SubWithOverflow ")
                               and "::root(" in a and _closure_calls_suffix(F, a) and from_parse))
    kinds = [sorted(v for v, _ in t["targets"]) for b2 in sorted(g.normal_blocks()) for t in [g.blocks[b2]["t"]]
             if t["k"] == "switch" and "addr::error::Error::kind(" in g.expr_operand(t["discr"])]
    lock = open(os.path.join(extract.REPO, "Cargo.lock")).read()
    addr_ok = bool(re.search(r'name = "addr"\nversion = "0\.15\.6"', lock))
    names = {6: "IllegalCharacter", 9: "LabelEndNotAlnum", 10: "LabelStartNotAlnum", 15: "NumericTld"}
    ok = sorted(k for k, _ in shapes) == ["empty", "suffix", "suffix", "whole-host", "whole-host"] and all(v for _, v in shapes)
    ok_k = kinds == [[6, 9, 10]] and addr_ok
    run.ob("C12.6.host-span", "domain-of-unlisted-host-is-the-host", ok and ok_k,
           "get_host_domain: (0, 0) for the empty host, (0, host.len()) for a host the public-suffix parser rejects, "
           "otherwise (host.len() - domain.len(), host.len()) with the domain addr finds in this host. Only the "
           "IllegalCharacter / LabelStartNotAlnum / LabelEndNotAlnum rejections are retried as a plain DNS name: retrying "
           "NumericTld would make 1.2.3.4 and 9.9.3.4 the same site "
           f"(rows: {shapes}; retried error kinds: {[[names.get(k, k) for k in ks] for ks in kinds]}; addr 0.15.6 pinned: {addr_ok})",
           site=g.loc(0), config=cfg)



def rule_whole_url(run, F, cfg):
    """The URL a request is matched against is the complete normalised URL: everything after the host (port, path,
    query AND fragment) is appended verbatim by the parser, and Request keeps that string (and its lower-cased copy)
    unchanged. Patterns, right anchors and the content-blocking export all assume the whole URL."""
    f = F.fn("url_parser::parser::Parser::after_double_slash")
    tail = [f.expr_operand(t["args"][1]) for b, t in f.calls(r"^std::string::String::push_str$")
            if f.expr_operand(t["args"][1]) != '"//"']
    ok = len(tail) == 1 and bool(re.match(r"^std::str::Chars::as_str\(url_parser::parser::Parser::parse_host\(.*\)@Continue\.0\.1\.chars\)$", tail[0]))
    run.ob("C12.7.whole-url", "remainder-appended-verbatim", ok,
           f"after the host, after_double_slash appends the remaining input as it is ({[t[:120] for t in tail]})", site=f.loc(0), config=cfg)
    r = F.fn("request::Request::from_detailed_parameters")
    vals = {}
    for b, i, st in r.statements():
        if st["k"] == "assign" and st["rv"]["k"] == "agg" and st["rv"].get("adt") == "request::Request":
            d = dict(zip(st["rv"]["fields"], st["rv"]["ops"]))
            vals = {k: r.expr_operand(d[k]) for k in ("url", "url_lower_cased", "original_url") if k in d}
    p_url = None
    for l, n in r.varnames.items():
        if n == "url" and 1 <= l <= r.argc:
            p_url = "arg:url"
    okr = vals.get("url") in ("std::str::to_owned(arg:url)", "<str as std::string::ToString>::to_string(arg:url)", "std::string::String::from(arg:url)") \
        and vals.get("url_lower_cased") in ("std::str::to_ascii_lowercase(arg:url)", "std::str::to_lowercase(arg:url)") \
        and vals.get("original_url") == "arg:original_url"
    run.ob("C12.7.whole-url", "request-keeps-the-url", okr,
           f"Request.url / url_lower_cased are the `url` argument (and its lower-cased copy), original_url the caller's string ({vals})",
           site=r.loc(0), config=cfg)



def rule_userinfo_skipped(run, F, cfg):
    """parse_userinfo hands the rest of the input on to the host parser. Whenever an `@` was found in the authority, that
    rest starts BEHIND the `@` (the cursor remembered with `last_at`), also when the userinfo is empty
    (`https://@example.com/`): only without any `@` is the rest the untouched input. Otherwise the hostname begins with
    `@` (or with the credentials) and every host comparison -- party, `||host`, `$domain` -- is off."""
    from analysis.guards import conditional_defs
    from analysis.idioms import split_args
    f = F.fn("url_parser::parser::Parser::parse_userinfo")
    run.touched(f)
    n, bad = 0, []
    # the switch on `last_at`: its Some arm is "an `@` was found"
    some_arms = []
    for b in sorted(f.normal_blocks()):
        t = f.blocks[b]["t"]
        if t["k"] == "switch" and re.match(r"^discr\(φ\{std::option::Option::None\{\} \| std::option::Option::Some\{0: \(", f.expr_operand(t["discr"])):
            some_arms += [tg for v, tg in t["targets"] if v == 1]
            if [v for v, _ in t["targets"]] == [0]:
                some_arms.append(t["otherwise"])
    after_at = set()
    for a in some_arms:
        after_at |= f.reachable_from(a) | {a}
    for kind, b, val, conds, _ in conditional_defs(f, 0):
        m = re.match(r"^std::result::Result::Ok\{0: \((.*)\)\}$", val)
        if kind != "assign" or not m:
            continue
        parts = split_args(m.group(1))
        if len(parts) != 2:
            bad.append((f.loc(b), val[:80]))
            continue
        n += 1
        if b in after_at and parts[1].strip() == "arg:input":
            bad.append((f.loc(b), "the untouched input is returned on a path on which an `@` was found"))
    if not some_arms:
        bad.append((f.loc(0), "no test of the remembered `@` position found"))
    run.floor("C12.6.host-span", f"Ok results of parse_userinfo [{cfg}]", n, 2)
    run.ob("C12.6.host-span", "rest-starts-behind-the-at-sign", not bad,
           "every Ok result of parse_userinfo reached with an `@` in the authority continues behind that `@` (empty userinfo "
           f"included); deviations: {bad[:2]}", site=bad[0][0] if bad else f.loc(0), config=cfg)
