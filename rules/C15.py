"""C15 — injected CSP is the union of matching csp rules minus excepted directives."""
import re

from analysis.facts import strip_generics
from analysis.pathinterp import enumerate_paths
from analysis.guards import dominating_conditions
from . import C01 as _C01, C03 as _C03

EXPLANATION = (
    "Decided on Blocker::get_csp_directives (and the parse-side guard): (1) type gate — every path "
    "that reaches csp.check_all has decided request_type == Document or == Subdocument, all other "
    "types return None first (path enumeration); (2) the csp list is probed with the engine's "
    "enabled tag set; (3) set algebra by provenance and dominance — directives of exception filters "
    "are inserted into one set, directives of non-exception filters into another (both under "
    "is_csp()), a csp exception without a directive returns None immediately, and the result "
    "iterates HashSet::difference(enabled, disabled) with receiver/argument in that order, joined "
    "with ',' and None when empty; (4) validate_options rejects csp together with a content-type "
    "option and the Csp arm of parse adds FROM_DOCUMENT."
    " Later additions: csp rules that differ only by tag are not de-duplicated anywhere between parser and store (C01.7, C01.9); the caller's tag set is re-applied after every load (C07.4); the matching loop of get_csp_directives visits every rule (no truncating adapter, no break)."
    ' Round 6: no cell-typed field of Blocker can remember a fact about the csp list (C06.1 borrowed).'
    ' Round 8: the type gate as a table over all request types (the csp list is probed exactly for Document and Subdocument); add_filter routes csp rules like a batch (C06.4 borrowed).'
)
NOT_DECIDED = "Which csp rules match a concrete request (C01-C03); the order of directives is unspecified by the property."


def check(run):
    for cfg in run.cfgs("A", "B"):
        F = run.facts(cfg)
        from analysis.guards import rule_visits_all as _rva
        run.guard("C15.5.every-rule", cfg, lambda: _rva(run, "C15.5.every-rule", F, cfg, ['blocker::Blocker::get_csp_directives'],
                  'The policy is the union over ALL matching csp rules minus ALL excepted directives', minimum=1))
        run.guard("C15.1.type-gate", cfg, lambda: rule_type_gate(run, F, cfg))
        from . import C06 as _C06r
        b6r = run.borrow("C06", only=r"new==add_filter|exists", why="a csp rule or csp exception added with add_filter must land in the csp list exactly as it does in a batch (tagged ones included)")
        run.guard("C15.via.C06.4.batch-incremental", cfg, lambda: _C06r.rule_routing(b6r, F, cfg))
        run.guard("C15.3.set-algebra", cfg, lambda: rule_sets(run, F, cfg))
        run.guard("C15.3.set-algebra", cfg + "/merge", lambda: rule_merge(run, F, cfg))
        run.guard("C15.4.parse-guard", cfg, lambda: rule_parse(run, F, cfg))
        from . import C06 as _C06
        bim = run.borrow("C06", why="the policy is a function of the rules currently stored: a fact about the csp list "
                                    "remembered in a cell would survive add_filter / a load and suppress exceptions")
        run.guard("C15.via.C06.1.interior-mutability", cfg, lambda: _C06.rule_im(bim, F, cfg))
        b = run.borrow("C01", why="a multi-domain $csp rule must be stored under every one of its domain tokens")
        run.guard("C15.via.C01.1.token-source", cfg, lambda: _C01.rule_store(b, F, cfg))
        bi = run.borrow("C01", why="csp rules / exceptions that differ only by their tag are different rules (not de-duplicated)")
        run.guard("C15.via.C01.7.rule-identity", cfg, lambda: _C01.rule_identity(bi, F, cfg))
        b2 = run.borrow("C03", why="a csp directive may contain '=' itself")
        run.guard("C15.via.C03.7.option-split", cfg, lambda: _C03.rule_option_split(b2, F, cfg))
        from . import C05 as _C05
        b3 = run.borrow("C05", only=r"field:(modifier_option|mask)\b|optimize:", why="csp rules with different directives must never be fused")
        run.guard("C15.via.C05.1.fusion-key", cfg, lambda: _C05.rule_key(b3, F, cfg))
        run.guard("C15.via.C05.3.what-is-optimised", cfg, lambda: _C05.rule_what(b3, F, cfg))
        b4 = run.borrow("C03", only=r"flags-set-true|name:csp|bit:csp", why="$csp must set IS_CSP and FROM_DOCUMENT")
        b5 = run.borrow("C03", only=r"no-csp-probe", why="no policy is injected for documents on unsupported schemes")
        run.guard("C15.via.C03.4.unsupported-schemes", cfg, lambda: _C03.rule_unsupported(b5, F, cfg))
        b6 = run.borrow("C03", only=r"string-payloads-verbatim", why="the injected policy is the directive as written in the rule")
        run.guard("C15.via.C03.1.option-chain/payloads", cfg, lambda: _C03.rule_payloads(b6, F, cfg))
        from . import C04 as _C04
        b7 = run.borrow("C04", only=r"csp|cancelled|loop-runs", why="csp rules and their $badfilter cancellation go through the common routing")
        run.guard("C15.via.C04.1.routing", cfg, lambda: _C04.rule_routing(b7, F, cfg))
        b7c = run.borrow("C04", why="a csp rule (or csp exception) cancelled by a `$badfilter` line contributes nothing, whichever "
                                    "of the two comes first in the list")
        run.guard("C15.via.C04.3.badfilter-id", cfg + "/complete", lambda: _C04.rule_badfilter_set_complete(b7c, F, cfg))
        from . import C07 as _C07g
        bg = run.borrow("C07", only=r"check_all", why="every matching rule of the list is collected by check_all")
        run.guard("C15.via.C07.2.gate-shape", cfg, lambda: _C07g.rule_gate_shape(bg, F, cfg))
        run.guard("C15.via.C03.1.option-chain", cfg, lambda: (_C03.rule_chain(b4, F, cfg), _C03.rule_polarity(b4, F, cfg)))
        from . import C07 as _C07d
        bd = run.borrow("C07", why="tagged csp rules and exceptions sit in the csp list and are gated by the enabled set at match time: the caller's set must be re-applied after every load, whatever the loaded data contains")
        run.guard("C15.via.C07.4.deserialize", cfg, lambda: _C07d.rule_deserialize(bd, F, cfg))
        be = run.borrow("C01", why="csp rules that differ only in their tag are different rules: no entry point may de-duplicate them away")
        run.guard("C15.via.C01.9.entry-points", cfg, lambda: _C01.rule_entry_points(be, F, cfg))
        btc = run.borrow("C01", why="the policy is claimed for every document request, also those whose URL has 127 or more tokens")
        run.guard("C15.via.C01.4.token-boundary", cfg, lambda: _C01.rule_token_cap_unbounded(btc, F, cfg))


def rule_type_gate(run, F, cfg):
    f = F.fn("blocker::Blocker::get_csp_directives")
    run.touched(f)
    probes = f.calls(r"^network_filter_list::NetworkFilterList::check_all$")
    run.ob("C15.1.type-gate", "single-probe", len(probes) == 1,
           f"get_csp_directives probes the csp list exactly once ({len(probes)})", site=f.loc(0), config=cfg)
    if not probes:
        return
    pb, pt = probes[0]
    recv = f.expr_operand(pt["args"][0])
    tags = f.expr_operand(pt["args"][2])
    run.ob("C15.2.tag-gate", "csp-probe-tags", recv.endswith(".csp") and tags.endswith(".tags_enabled"),
           f"the probe is self.csp.check_all(request, &self.tags_enabled, ..) (receiver `{recv}`, tags `{tags}`)",
           site=f.loc(pb), config=cfg)
    paths = enumerate_paths(f, stop_blocks=[pb])
    reach = [p for p in paths if p.end == f"stop:{pb}"]
    ok = bool(reach)
    types = set()
    for p in reach:
        decided = False
        for e, v in p.conds:
            m = re.search(r"PartialEq::(ne|eq)\(arg:request\.request_type, .*?request::RequestType::(\w+)", e)
            if m:
                types.add(m.group(2))
                is_eq = (m.group(1) == "eq" and v == 1) or (m.group(1) == "ne" and v == 0)
                if is_eq and m.group(2) in ("Document", "Subdocument"):
                    decided = True
            m2 = re.search(r"^discr\(arg:request\.request_type\)$", e)
            if m2 and isinstance(v, int):
                # `matches!(request.request_type, Document | Subdocument)` / a match: the arm taken names the variant
                vs = [x["name"] for x in F.adt("request::RequestType")["variants"]]
                dv = {x.get("discr", i): x["name"] for i, x in enumerate(F.adt("request::RequestType")["variants"])}
                nm = dv.get(v, vs[v] if v < len(vs) else "?")
                types.add(nm)
                decided = decided or nm in ("Document", "Subdocument")
        if not decided:
            ok = False
    # the same as a table over the request types: the probe is reachable exactly for Document and Subdocument (two
    # tests that can never hold together -- `!= Document || != Subdocument` -- leave no type that reaches it)
    variants = [x["name"] for x in F.adt("request::RequestType")["variants"]]
    reach_types = set()
    for T in variants:
        for p in reach:
            cons = True
            for e, v in p.conds:
                m = re.search(r"PartialEq::(ne|eq)\(arg:request\.request_type, .*?request::RequestType::(\w+)", e)
                if m:
                    holds = (T == m.group(2)) if m.group(1) == "eq" else (T != m.group(2))
                    cons = cons and (holds == bool(v == 1))
                elif re.search(r"^discr\(arg:request\.request_type\)$", e):
                    if isinstance(v, int):
                        cons = cons and v < len(variants) and variants[v] == T
                    elif isinstance(v, tuple) and v[0] == "not":
                        cons = cons and all(not (x < len(variants) and variants[x] == T) for x in v[1])
            if cons:
                reach_types.add(T)
                break
    run.ob("C15.1.type-gate", "probe-reached-exactly-for-document-types", reach_types == {"Document", "Subdocument"},
           f"the csp list is probed for the request types {sorted(reach_types)} (expected Document and Subdocument, nothing else "
           "and nothing less)", site=f.loc(pb), config=cfg)
    run.ob("C15.1.type-gate", "document-or-subdocument", ok and types <= {"Document", "Subdocument"} and len(types) == 2,
           f"every path to csp.check_all has established request_type == Document or == Subdocument "
           f"({len(reach)} paths; types compared: {sorted(types)})", site=f.loc(pb), config=cfg,
           detail="for every other request type there must never be a policy")
    # all returns before the probe are None
    early = [p for p in paths if p.end == "return"]
    ok_e = True
    for p in early:
        # value of _0 on this path: last assignment to local 0 on the path
        val = None
        for b in p.blocks:
            for s in f.blocks[b]["s"]:
                if s["k"] == "assign" and s["pl"]["l"] == 0 and not s["pl"]["p"]:
                    val = f.expr_rvalue(s["rv"], depth=1)
        if val is None or "None" not in val:
            ok_e = False
    run.ob("C15.1.type-gate", "other-types-none", ok_e and bool(early),
           f"the {len(early)} paths that return before probing return None", config=cfg)


def rule_sets(run, F, cfg):
    with F.fn("blocker::Blocker::get_csp_directives").normalised():
        _rule_sets(run, F, cfg)


def _rule_sets(run, F, cfg):
    f = F.fn("blocker::Blocker::get_csp_directives")
    with f.sites():
        diffs = f.calls(r"^std::collections::HashSet::difference$")
        if len(diffs) != 1:
            run.ob("C15.3.set-algebra", "difference", False,
                   f"expected exactly one HashSet::difference in get_csp_directives, found {len(diffs)} "
                   f"(the result must be the set difference of the complete enabled and disabled sets, "
                   f"independent of the order in which matching rules are visited)",
                   site=f.loc(0), config=cfg)
            return
        db, dt = diffs[0]
        recv = f.expr_operand(dt["args"][0])
        arg = f.expr_operand(dt["args"][1])
        m1 = re.search(r"HashSet::new@(bb\d+)", recv)
        m2 = re.search(r"HashSet::new@(bb\d+)", arg)
        ins = []
        for b, t in f.calls(r"^std::collections::HashSet::insert$"):
            tgt = f.expr_operand(t["args"][0])
            mm = re.search(r"HashSet::new@(bb\d+)", tgt)
            val = f.expr_operand(t["args"][1])
            ins.append((b, mm.group(1) if mm else None, val))
    ok_sites = bool(m1 and m2 and m1.group(1) != m2.group(1))
    run.ob("C15.3.set-algebra", "difference-operands-distinct", ok_sites,
           "difference is taken between two distinct sets", site=f.loc(db), config=cfg)
    if not ok_sites:
        return
    en, dis = m1.group(1), m2.group(1)
    n = 0
    ok = True
    detail = []
    for b, site, val in ins:
        c = dominating_conditions(f, b)
        exc = [v for e, v in c.items() if re.search(r"::is_exception\(", e)]
        csp = [v for e, v in c.items() if re.search(r"::is_csp\(", e)]
        n += 1
        detail.append(f"insert into {site} under is_exception={exc} is_csp={csp} value={val[-60:]}")
        if not exc or csp != [1] or "modifier_option" not in val:
            ok = False
        elif exc == [1] and site != dis:
            ok = False
        elif exc == [0] and site != en:
            ok = False
    run.ob("C15.3.set-algebra", "receiver=enabled,argument=disabled", ok and n == 2,
           "directives of non-exception csp filters are inserted into the RECEIVER of difference(), "
           "directives of exception csp filters into its ARGUMENT (a swap compiles and returns the "
           "excepted directives instead)", site=f.loc(db), config=cfg, detail="\n".join(detail))
    # blanket exception: is_exception ∧ is_csp ∧ modifier_option None -> return None
    paths = enumerate_paths(f)
    blanket = False
    for p in paths:
        d = {}
        for e, v in p.conds:
            if re.search(r"::is_exception\(", e):
                d["exc"] = v
            elif re.search(r"::is_csp\(", e):
                d["csp"] = v
            elif re.search(r"^discr\(.*modifier_option\)$", e):
                d["mod"] = 0 if (v == 0 or v == ("not", (1,))) else v
        if d.get("exc") == 1 and d.get("csp") == 1 and d.get("mod") == 0:
            blanket = blanket or p.end == "return"
            if p.end != "return":
                blanket = False
                break
    run.ob("C15.3.set-algebra", "blanket-exception-returns-none", blanket,
           "a matching csp exception that carries no directive returns None immediately", config=cfg)
    # the merged string is built from the difference iterator, joined with ','
    uses = [strip_generics(t["callee"]) for b, t in f.calls() if "difference" in f.expr_call(t)]
    pushes = [c for c in [f] + list(F.closures_of(f.name)) for b, t in c.calls(r"^std::string::String::push$")
              if c.expr_operand(t["args"][1]) == "','"]
    run.ob("C15.3.set-algebra", "join-comma", bool(pushes),
           "remaining directives are appended with a ',' separator", config=cfg)


def rule_parse(run, F, cfg):
    v = F.fn("filters::network::validate_options")
    run.touched(v)
    errs = []
    for b, i, s in v.statements():
        if s["k"] == "assign":
            e = v.expr_rvalue(s["rv"], depth=1)
            if "CspWithContentType" in e:
                errs.append(b)
    ok = bool(errs)
    run.ob("C15.4.parse-guard", "csp-with-content-type-rejected", ok,
           "validate_options can return NetworkFilterError::CspWithContentType", site=v.loc(errs[0]) if errs else "", config=cfg)
    p = F.fn("filters::network::NetworkFilter::parse")
    vc = p.calls(r"^filters::network::validate_options$")
    run.ob("C15.4.parse-guard", "validate-called", len(vc) >= 1,
           "NetworkFilter::parse calls validate_options on the parsed options", config=cfg)
    # Csp arm sets FROM_DOCUMENT
    sets = []
    for c in F.closures_of(p.name):
        for b, t in c.calls(r"::set$"):
            e = c.expr_operand(t["args"][1])
            if "FROM_DOCUMENT" in e:
                cond = dominating_conditions(c, b)
                sets.append(cond)
    csp_arm = False
    for c in F.closures_of(p.name):
        csp_blocks = [b for b, t in c.calls(r"::set$") if "IS_CSP" in c.expr_operand(t["args"][1])]
        doc_blocks = [b for b, t in c.calls(r"::set$") if "FROM_DOCUMENT" in c.expr_operand(t["args"][1])]
        for cb in csp_blocks:
            cc = {k: v for k, v in dominating_conditions(c, cb).items() if k.startswith("discr(")}
            for dbk in doc_blocks:
                dc = {k: v for k, v in dominating_conditions(c, dbk).items() if k.startswith("discr(")}
                if cc and cc == dc:
                    csp_arm = True
    run.ob("C15.4.parse-guard", "csp-implies-document", csp_arm,
           "the Csp arm of parse sets FROM_DOCUMENT together with IS_CSP", config=cfg)


def rule_merge(run, F, cfg):
    with F.fn("blocker::Blocker::get_csp_directives").normalised():
        _rule_merge(run, F, cfg)


def _rule_merge(run, F, cfg):
    """every remaining directive ends up in the result: the first one starts the string, each further one is appended
    after a ',' separator; nothing else is written to the result"""
    g = F.fn("blocker::Blocker::get_csp_directives")
    first = [g.vexpr_call(t) for b, t in g.calls(r"^<std::string::String as std::convert::From<&str>>::from$|ToString>::to_string$|str::to_owned$")
             if "difference" in g.expr_call(t) or "remaining" in g.vexpr_call(t)]
    fe = [(b, g.vexpr_call(t)) for b, t in g.calls(r"Iterator>?::for_each$") if "difference" in g.expr_call(t)]
    body = []
    for b, e in fe:
        m = re.search(r"closure\[([^\]]+)\]", e)
        c = F.fns.get(m.group(1)) if m else None
        if c is not None:
            body = [re.sub(r"arg:\w+", "arg:directive", c.expr_call(t)) for b2, t in c.calls(r"String::push(_str)?$")]
    ok = len(first) >= 1 and len(fe) == 1 and body == ["std::string::String::push(up:merged, ',')", "std::string::String::push_str(up:merged, arg:directive)"]
    if not fe:
        # the same written as a `for` loop over the difference iterator: inside the loop of its next(), `,` then the
        # element are appended to one string, and nothing else is
        from analysis.guards import natural_loops, loop_of_iteration
        nx = [b for b, t in g.calls(r"hash_set::Difference<.*Iterator>::next$")]
        loops = natural_loops(g)
        lp = None
        for nb in nx:
            lp = lp or loop_of_iteration(g, loops, nb)
        if lp:
            app = [(b, g.vexpr_call(t), g.expr_operand(t["args"][1])) for b, t in g.calls(r"String::push(_str)?$") if b in lp[1]]
            app.sort()
            tgt = set(re.match(r"^std::string::String::push(_str)?\((\$\w+), ", e).group(2) for b, e, a in app
                      if re.match(r"^std::string::String::push(_str)?\((\$\w+), ", e))
            body = [re.sub(r"\$\w+", "$v", e) for b, e, a in app]
            ok = len(first) >= 1 and len(app) == 2 and len(tgt) == 1 and app[0][1].endswith(", ',')") \
                and app[1][1].startswith("std::string::String::push_str(") and "Difference" in app[1][2] and "@Some.0" in app[1][2] \
                and g.dominates(app[0][0], app[1][0])
    ret = g.expr_local(0)
    run.ob("C15.3.set-algebra", "every-remaining-directive-is-joined", ok and "Some{" in ret,
           f"get_csp_directives starts the result with the first remaining directive and appends `,` + directive for every "
           f"other one of enabled \\ disabled (closure body {body})", site=g.loc(0), config=cfg)
