"""Discharge arguments for the panic-capable sites of the audited cones (A7), confirmed by reading
the code on the reference tree. Each entry: (function regex, site regex over `kind|what|expr`,
basis, reason, callers). The first matching entry wins. `callers` (optional) is the who-may-call set
an `input-shape` argument relies on; it is re-checked on every run.

Bases:  total | local | input-shape | parse-invariant | request-invariant   (see analysis/a7.py)
`request-invariant`: established by url_parser::parse_url while constructing the request (never by data
that is deserialized), so it also holds for engines loaded from a buffer."""

ASCII_HOST = ("request.hostname is ASCII (IDN hosts are punycoded by the URL parser) and occurs in "
              "request.url; Request::preparsed requires consistent parts (C12's domain)")

COUNTER_32 = ("a 32-bit counter that is reset on every call and incremented once per element of the input being "
              "processed in that call: overflow needs an input of 2^31 elements, i.e. a single text of more than "
              "2 GiB — the same size assumption as for 64-bit arithmetic, stated here because it is weaker. A counter "
              "that survives the call (per query, per engine) is NOT covered by this argument")

REASONS = [
    # ------------------------------------------------------------------ narrow (32-bit) counters
    # (64-bit arithmetic is not audited: see analysis/panics.py IGNORE_REASON; anything narrower needs a row)
    (r"^network_filter_list::token_histogram$", r"^assert\|Overflow\(Add\):u32\|", "local",
     COUNTER_32 + " (one increment per token of the list being indexed)", None, []),
    (r"^network_filter_list::NetworkFilterList::new$", r"^assert\|Overflow\(Add\):u32\|", "local",
     "total_number_of_tokens + 1, where the total is the u32 token count of the list: " + COUNTER_32, None, []),
    (r"^url_parser::parser::Input::<'i>::count_matching$", r"^assert\|Overflow\(Add\):u32\|", "local",
     COUNTER_32 + " (one increment per character of the URL being parsed)", None, []),
    (r"^url_parser::parser::Parser::parse_userinfo$", r"^assert\|Overflow\(Add\):i32\|", "local",
     COUNTER_32 + " (one increment per character of the URL being parsed)", None, []),
    (r"^filters::network::validate_options$", r"^assert\|Overflow\(Add\):i32\|", "local",
     COUNTER_32 + " (one increment per option of one rule line)", None, []),
    # ------------------------------------------------------------------ blocker.rs
    (r"^blocker::Blocker::borrow_regex_manager$", r"^borrow\|", "total",
     "RefCell::borrow_mut cannot already be borrowed: no re-entrant acquisition exists (rule C19.3.single-lock, "
     "evaluated in configuration A as well)", None),
    (r"^blocker::Blocker::borrow_regex_manager$", r"^unwrap\|.*Mutex::lock", "total",
     "Mutex::lock().unwrap() fails only on a poisoned mutex, i.e. after a panic while the guard was held: every "
     "panic-capable site in the guarded query cones is discharged by this audit and the lock is never re-entered "
     "(C19.3)", None),
    (r"^blocker::Blocker::check_parameterised$", r"^index\|", "local",
     "slices of the redirect option at idx / idx+1 where idx = memrchr(b':') (1-byte ASCII hit on the same "
     "string), or full-range slices", None, [r"memchr::memrchr\(58, "]),
    (r"^blocker::Blocker::apply_removeparam$", r"^index\|", "local",
     "indices come from memchr(b'?') / memchr(b'#') on the same string (1-byte ASCII hits), +1, or len(); the `?` "
     "is searched in url[..fragment_start] (fragment_start = first `#` or len), so i < fragment_start and "
     "begin <= end by construction (hash_index = params_start + j)", None),
    (r"^blocker::Blocker::tags_with_set::\{closure#0\}$", r"^unwrap\|", "local",
     "n.tag.unwrap() is evaluated only after n.tag.is_some() (short-circuit &&)", None),
    # ------------------------------------------------------------------ content_blocking.rs (feature)
    (r"CbRuleEquivalentIterator as std::iter::Iterator>::next$", r"^assert\|BoundsCheck", "local",
     "self.rules[self.index] after the early return on index >= rules.len()", None),
    (r"CbRuleEquivalent as std::convert::TryFrom<filters::network::NetworkFilter>>::try_from$", r"^unwrap\|.*memchr::memchr\(36", "parse-invariant",
     "opt_domains / opt_not_domains are Some only if the rule had a `domain=` option, which exists only after a "
     "`$`; raw_line is the parsed line (FilterSet is filled only by the parsers, who-may-write rule C20.1)", None),
    (r"CbRuleEquivalent as std::convert::TryFrom<filters::network::NetworkFilter>>::try_from$", r"^index\|", "local",
     "offsets are memchr(b'$') + 1, memmem::find(b\"domain=\") + 7 and memchr(b',') on the same / the derived "
     "slice: ASCII needles, so every offset is a char boundary and in range", None),
    (r"CbRule as std::convert::TryFrom<filters::cosmetic::CosmeticFilter>>::try_from$", r"^unwrap\|.*memchr::memchr\(35", "parse-invariant",
     "a parsed cosmetic rule's raw_line contains '#' (CosmeticFilter::parse returns MissingSharp otherwise)", None),
    (r"^lists::FilterSet::into_content_blocking::\{closure#\d\}$", r"^expect\|", "parse-invariant",
     "into_content_blocking returns Err first when !self.debug, and network_filters / cosmetic_filters are "
     "written only by add_filters / add_filter, which parse with self.debug (raw_line is Some in debug mode)", None),
    (r"try_from::(REPLACE_WILDCARDS|SPECIAL_CHARS|TRAILING_SEPARATOR)::\{closure#0\}$", r"^unwrap\|", "total",
     "constant regex literal (validated with regex-syntax on every run)", None),
    # ------------------------------------------------------------------ cosmetic_filter_cache.rs
    (r"^cosmetic_filter_cache::CosmeticFilterCache::add_generic_filter$", r"^panic\|", "local",
     "assert!(key.starts_with(prefix)): key_from_selector returns a key that starts with the selector's own "
     "first character (both regex branches are anchored ^[#.]), and the selector was tested for that prefix", None),
    (r"^cosmetic_filter_cache::CosmeticFilterCache::add_generic_filter$", r"^index\|", "local",
     "key[1..] after key.starts_with('.') / ('#') (1-byte ASCII prefix)", None),
    (r"^cosmetic_filter_cache::CosmeticFilterCache::hostname_cosmetic_resources$", r"^index\|", "input-shape",
     "hostname[start..end] with (start, end) = get_host_domain(hostname): byte offsets into the same ASCII "
     "hostname, start <= end = len", None),
    (r"insert_procedural_action_filter$", r"^unwrap\|", "total",
     "serde_json::to_string of a derive-only struct of Strings / enums cannot fail", None),
    (r"^cosmetic_filter_cache::HostnameRuleDb::store_rule$", r"^unwrap\|", "total",
     "serde_json::to_string of a derive-only struct of Strings / enums cannot fail", None),
    (r"^cosmetic_filter_cache::key_from_selector$", r"^unwrap\|.*regex::Captures::get\(", "total",
     "capture.get(0) (the whole match) always exists; capture.get(1): RE_ESCAPE_SEQUENCE = \\\\([0-9A-Fa-f]{1,6} ?|.) "
     "has exactly one, non-optional group (group count validated with regex-syntax; the literal itself is pinned by "
     "C17.5)", None, []),
    (r"^cosmetic_filter_cache::key_from_selector$", r"^(index|assert)\|", "local",
     "offsets are regex match boundaries on the same string, taken in increasing order (beginning = end of the "
     "previous escape <= start of the next)", None, []),
    (r"key_from_selector::RE_\w+::\{closure#0\}$", r"^unwrap\|", "total",
     "constant regex literal (validated with regex-syntax on every run)", None),
    # ------------------------------------------------------------------ data_format
    (r"^data_format::v0::DeserializeFormat::deserialize$", r".", "input-shape",
     "the only caller (data_format::DeserializeFormat::deserialize) has checked starts_with(MAGIC) and that the "
     "byte after the magic exists and is 0, so len >= 5",
     ["data_format::DeserializeFormat::deserialize"]),
    # ------------------------------------------------------------------ filters/abstract_network.rs
    (r"^filters::abstract_network::AbstractNetworkFilter::parse$", r".", "local",
     "filter_index_start is 0, 2 after \"@@\", +2 after \"||\", +1 after '|'; filter_index_end is len or the "
     "index of the last '$' (memrchr), -1 after a trailing '|': all ASCII boundaries; the last '$' cannot lie "
     "inside the verified @@ / || prefix, hence start <= end", None),
    (r"^filters::abstract_network::parse_filter_options$", r"^unwrap\|", "total",
     "first next() of splitn(2, '=') always yields an item", None),
    (r"^filters::abstract_network::VALID_PARAM::\{closure#0\}$|^filters::network::VALID_PARAM::\{closure#0\}$", r"^unwrap\|", "total",
     "constant regex literal (validated with regex-syntax on every run)", None),
    # ------------------------------------------------------------------ filters/cosmetic.rs
    (r"^filters::cosmetic::CosmeticFilter::locations_before_sharp$", r"^index\|", "input-shape",
     "line[0..sharp_index]: both callers pass sharp_index = memchr(b'#', line)",
     ["filters::cosmetic::CosmeticFilter::parse_before_sharp",
      "<content_blocking::CbRule as std::convert::TryFrom<filters::cosmetic::CosmeticFilter>>::try_from"]),
    (r"^filters::cosmetic::CosmeticFilter::locations_before_sharp::\{closure#0\}$", r".", "local",
     "start is 1 only after starts_with('~'); end is len-2 only after ends_with(\".*\"); start <= end because "
     "a 2-byte part \".*\" has no '~' prefix", None),
    (r"^filters::cosmetic::CosmeticFilter::parse_after_sharp_nonscript$", r".", "local",
     "i = memmem::find(ASCII token); the slice end len-1 is taken only after ends_with(')'); the token ends "
     "with '(' so i + token.len() <= len - 1", None),
    (r"^filters::cosmetic::CosmeticFilter::plain_css_selector$", r".", "parse-invariant",
     "selector is non-empty for every parsed cosmetic rule (parse rejects EmptyRule) and [0] follows the "
     "len() > 0 assertion", None),
    (r"^filters::cosmetic::CosmeticFilter::parse$", r".", "local",
     "offsets are memchr(b'#') hits +1 on the same line; [1..] only after starts_with('@') / ('?'); the +js( "
     "slice is guarded by len - start > 4, starts_with(\"+js(\") and ends_with(')')", None),
    (r"^filters::cosmetic::get_hostname_without_public_suffix$", r".", "input-shape",
     "domain is the registrable-domain suffix of hostname (hostname[start..] from get_host_domain) and the "
     "hostname is ASCII: len(hostname) >= len(domain) > index_of_dot",
     ["filters::cosmetic::get_entity_hashes_from_labels"]),
    (r"^filters::cosmetic::get_hashes_from_labels$", r".", "input-shape",
     "dot_ptr starts at start_of_domain <= len and continues with memrchr(b'.') hits; end is len",
     ["filters::cosmetic::get_entity_hashes_from_labels", "filters::cosmetic::get_hostname_hashes_from_labels"], []),
    (r"^filters::cosmetic::get_hostname_hashes_from_labels$", r".", "input-shape",
     "domain is a suffix slice of hostname, so hostname.len() >= domain.len()",
     ["filters::cosmetic::hostname_domain_hashes", "cosmetic_filter_cache::hostname_domain_hashes",
      "cosmetic_filter_cache::CosmeticFilterCache::hostname_cosmetic_resources", "request::Request::from_detailed_parameters"]),
    (r"css_validation::validate_css_selector", r".", "total",
     "css-validation feature: the parsed selector list has at least one selector when parsing succeeded; "
     "constant regex literal validated on every run", None),
    # ------------------------------------------------------------------ filters/network.rs
    (r"^filters::network::NetworkFilter::parse$", r".", "local",
     "filter_index_start / first_separator_start are 0, a SEPARATOR regex match start (1-byte ASCII: one of / ^ * :) "
     "found from host_search_start, or the position of a '/' / ':' byte counted from host_search_start, +1 after '*'; "
     "host_search_start = ipv6_literal_end(pattern) is 0 or one past a ']' byte of the pattern (<= len, a char "
     "boundary), so pattern.as_bytes()[host_search_start..] and find_at(pattern, host_search_start) are in range; "
     "filter_index_end is pattern.len(), -1 after ends_with('*'); every slice is guarded by end > start or "
     "start < len", None),
    (r"^filters::network::NetworkFilter::parse::\{closure#\d\}$", r".", "local",
     "pattern[..i] with i = host_search_start + position of the first '/' or ':' byte in pattern[host_search_start..]", None),
    (r"^filters::network::ipv6_literal_end$", r".", "local",
     "i + 1 with i = memchr(b']', pattern) < len: usize cannot overflow", None),
    (r"^filters::network::NetworkFilter::parse::SEPARATOR::\{closure#0\}$|parse_hosts_style::INVALID_CHARS::\{closure#0\}$", r"^unwrap\|", "total",
     "constant regex literal (validated with regex-syntax on every run)", None),
    (r"^filters::network::NetworkFilter::parse_hosts_style$", r"^index\|", "local",
     "hostname[1..] only after hostname.starts_with('.')", None),
    (r"^filters::network::FilterPartIterator<'a> as std::iter::Iterator>::next$|FilterPartIterator", r".", "local",
     "filters[self.index] after the index < len test", None),
    # ------------------------------------------------------------------ filters/network_matchers.rs
    # (byte slices throughout: no char-boundary obligations. The URL itself is only sliced with str::get.)
    (r"^filters::network_matchers::hostname_offset$", r"^index\|", "local",
     "bytes[authority_start..] with authority_start = 0 or memmem::find(b\"://\") + 3 (the end of a 3-byte match, "
     "<= len); authority[..authority_len] with authority_len = a position() hit (< len) or authority.len(). The "
     "host itself is taken with the checked slice::get", None),
    (r"^filters::network_matchers::anchored_hostname_ends::\{closure#0\}$", r"^index\|", "local",
     "haystack[from..] inside `while from + needle.len() <= haystack.len()`, so from <= len", None,
     [r" Le core::slice::len\(up#2\)\) == 1$"]),
    (r"^filters::network_matchers::anchored_hostname_ends::\{closure#0\}$", r"^assert\|BoundsCheck\|PtrMetadata\(up#0\)", "local",
     "needle[0] and needle[needle.len() - 1] are reached only after the early return for an empty needle", None,
     [r"^core::slice::is_empty\(up#0\) == 0$"]),
    (r"^filters::network_matchers::anchored_hostname_ends::\{closure#0\}$", r"^assert\|Overflow\(Sub\)\|core::slice::len\(up#0\) , 1", "local",
     "needle.len() - 1 after the early return for an empty needle", None,
     [r"^core::slice::is_empty\(up#0\) == 0$"]),
    (r"^filters::network_matchers::anchored_hostname_ends::\{closure#0\}$", r"^assert\|Overflow\(Sub\)\|", "local",
     "start - 1 is evaluated only when start != 0 (a later operand of `.. || start == 0 || ..`)", None,
     [r"@Continue\.0\)\.0 Eq 0\) == 0$"]),
    (r"^filters::network_matchers::anchored_hostname_ends::\{closure#0\}$", r"^assert\|BoundsCheck\|PtrMetadata\(up#2\) , \(\(up#1 AddWithOverflow .*SubWithOverflow 1\)", "local",
     "haystack[start - 1]: start is a memmem::find hit in haystack[from..] shifted by from, so start + needle.len() <= "
     "haystack.len() and start - 1 < len; start - 1 itself is evaluated only when start != 0", None,
     [r"@Continue\.0\)\.0 Eq 0\) == 0$", r"^discr\(memchr::memmem::find\(.*\)\) == 0$"]),
    (r"^filters::network_matchers::anchored_hostname_ends::\{closure#0\}$", r"^assert\|BoundsCheck\|PtrMetadata\(up#2\)", "local",
     "haystack[end] with end = start + needle.len() <= haystack.len() (start is a memmem::find hit in haystack[from..] "
     "shifted by from); evaluated only when end != haystack.len()", None,
     [r"Eq core::slice::len\(up#2\)\) == 0$", r"^discr\(memchr::memmem::find\(.*\)\) == 0$"]),
    # ------------------------------------------------------------------ lists.rs
    (r"^lists::read_list_metadata$", r".", "local",
     "cutoff = min(len, 1024) is decremented only while !is_char_boundary(cutoff); 0 is a boundary", None),
    (r"^lists::parse_filter$", r"^index\|", "local", "filter[..hash_loc] with hash_loc = memchr(b'#', filter)", None),
    (r"^lists::parse_filter$", r"^panic\|", "total",
     "unreachable!(): SplitWhitespace is a fused iterator, so (None, Some, _) / (Some, None, Some) cannot occur", None),
    (r"^lists::detect_filter_type$", r".", "local",
     "filter[1..] after starts_with('#'); the byte slice [after_sharp..min(after_sharp + 4, len)] has "
     "after_sharp = memchr(b'#') + 1 <= len", None),
    # ------------------------------------------------------------------ misc
    (r"^network_filter_list::insert_dup$", r"^vec-op\|", "local",
     "Vec::insert at the Err(slot) of binary_search on the same Vec (slot <= len)", None),
    (r"^optimizer::SimplePatternGroup as optimizer::Optimization>::fusion$|SimplePatternGroup as optimizer::Optimization>::fusion$", r".", "input-shape",
     "filters[0] / flat_patterns[0]: fusion is only called for groups with len() > 1, and flat_patterns[0] "
     "follows the len() == 1 test", ["optimizer::apply_optimisation"]),
    (r"^regex_manager::compile_regex$", r"^assert\|Overflow\(Sub\)", "local",
     "filter_str.len() - 1 after the is_empty() early return", None),
    (r"^regex_manager::compile_regex$", r"^index\|", "local",
     "escaped_patterns[0] on the branch escaped_patterns.len() == 1", None),
    (r"^regex_manager::compile_regex::\w+::\{closure#0\}$", r"^unwrap\|", "total",
     "constant regex literal (validated with regex-syntax on every run)", None),
    (r"^regex_manager::RegexManager::matches$", r"^unwrap\|", "local",
     "entry.regex is Some: either just assigned Some(..) under is_none(), or the freshly inserted entry", None),
    (r"^regex_manager::RegexManager::(update_time|cleanup)$", r"^time-op\|", "total",
     "Instant - Instant saturates to zero (std::time::Instant::duration_since does not panic)", None),
    (r"^request::Request::from_detailed_parameters$", r"^index\|", "local",
     "source_hostname[i + 1..] where i is the char_indices() position of a '.' (1 byte)", None),
    (r"^request::Request::preparsed$", r"^index\|", "local",
     "url[..splitter] with splitter = memchr(b':', url).unwrap_or(0)", None),
    (r"^resources::resource_storage::stringify_arg(::write_string_complex)?$", r"^index\|", "local",
     "byte-slice ranges of string.as_bytes() (no char-boundary requirement): start is the caller's enumerate() "
     "index or previous index + 1 <= current index < len", None),
    (r"^resources::resource_storage::stringify_arg(::write_string_complex)?$", r"^assert\|BoundsCheck", "total",
     "ESCAPED[ch as usize] with ch: u8 and ESCAPED: [u8; 256]", None),
    (r"^resources::resource_storage::stringify_arg$", r"^unwrap\|", "total",
     "String::from_utf8(output): only ASCII bytes of valid UTF-8 input are replaced by ASCII sequences", None),
    (r"^resources::resource_storage::extract_function_name::\{closure#0\}$", r"^unwrap\|", "total",
     "FUNCTION_NAME_RE has one non-optional capture group, so get(1) is Some whenever the regex matched", None),
    (r"^resources::resource_storage::extract_function_name", r"^unwrap\|", "total",
     "constant regex literal (validated with regex-syntax on every run)", None),
    (r"^resources::resource_storage::ResourceStorage::get_scriptlet_resource$", r".", "local",
     "scriptlet_args[0] / [1..] after the is_empty() early return; args[0] under args.len() == 1", None),
    (r"^resources::resource_storage::patch_template_scriptlet::\{closure#0\}$", r"^assert\|BoundsCheck", "local",
     "TEMPLATE_ARGUMENT_RE[i] with i from enumerate() after take(TEMPLATE_ARGUMENT_RE.len())", None),
    (r"^resources::resource_storage::(index_next_unescaped_separator|normalize_arg)$", r"^panic\|", "input-shape",
     "assert!(separator != '\\\\'): the only caller passes ',' or one of the quote characters \" ' `",
     ["resources::resource_storage::parse_scriptlet_args"]),
    (r"^resources::resource_storage::index_next_unescaped_separator$", r".", "local",
     "rest = s[new_arg_end..] under new_arg_end < len, advanced by str::find(separator) hits (+1 for the 1-byte "
     "separator); rest[..i - k] is shortened only while the previous prefix ends with the 1-byte '\\\\' and "
     "k < i", None),
    (r"^resources::resource_storage::parse_scriptlet_args$", r".", "local",
     "offsets are str::find hits on the same slice, 1 after an ASCII quote / comma, and the "
     "index_next_unescaped_separator result (+1 for the 1-byte separator) or args.len()", None),
    (r"^resources::resource_storage::template_argument_regex$|TEMPLATE_ARGUMENT_RE", r".", "total",
     "regex built from a constant template and an integer 1..=9", None),
    (r"^resources::MimeType::from_extension$", r".", "local", "resource_path[i + 1..] with i = memrchr(b'.')", None),
    # ------------------------------------------------------------------ url_parser
    (r"^<url_parser::DefaultResolver as url_parser::ResolvesDomain>::get_host_domain$", r".", "total",
     "the root / suffix returned by addr (domain::Name or, for hosts the registry rules reject, dns::Name) for `host` "
     "is a suffix slice of `host` (dependency contract); map_or's default is host.len() itself", None),
    (r"^url_parser::RequestUrl::(schema|hostname|domain)$", r".", "request-invariant",
     "offsets recorded by parse_url while building the same `url` string (schema_end, hostname_pos, domain); "
     "RequestUrl is only constructed in parse_url", None),
    (r"^url_parser::parse_url::\{closure#0\}$", r".", "local",
     "host_start..host_end are byte offsets recorded by the parser into its own serialization", None),
    (r"^url_parser::parser::Input::<'i>::next_utf8$", r".", "local",
     "utf8[..c.len_utf8()] where c is the first char of utf8", None),
    (r"^url_parser::parser::Parser::parse_scheme$", r"^panic\|", "total",
     "debug_assert!(self.serialization.is_empty()): parse_scheme is called first on a fresh Parser", None),
    (r"^url_parser::parser::Parser::parse_userinfo$", r".", "local",
     "userinfo_char_count -= 1 inside `while userinfo_char_count > 0`", None),
    (r"^url_parser::parser::Parser::parse_host$", r"^index\|", "local",
     "input_str[..bytes] where bytes is the sum of len_utf8() of the consumed prefix of the same string", None),
    (r"^url_parser::parser::Parser::parse_host$", r"^unwrap\|", "total", "write! into a String cannot fail", None),
    (r"^url_parser::parser::Parser", r"^unwrap\|", "total", "write! into a String cannot fail", None),
    # ------------------------------------------------------------------ utils.rs
    (r"^utils::fast_tokenizer_no_regex$", r".", "local",
     "start and i are char_indices() positions of the same string with start <= i (start is assigned from an "
     "earlier i); pattern.len() - start likewise", None),
    (r"^utils::bin_lookup$", r".", "total", "binary_search does not panic", None),
]
