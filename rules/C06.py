"""C06 — answers depend only on current rules, tags and resources, not on history."""
import re

from analysis.facts import strip_generics
from analysis.guards import dominating_conditions, has_cond
from . import routing as R

EXPLANATION = (
    "Frame argument decided statically: (1) interior-mutability audit over the type graph of "
    "Engine and over all statics: the only interior-mutable state reachable from a &self query is "
    "Blocker.regex_manager, every static is an immutable value or a Lazy initialised from "
    "constants; (2) the regex manager is a pure cache: every write of RegexEntry.regex stores None "
    "or make_regexp(mask, filters) built from the caller's own arguments, writers are confined to "
    "RegexManager::{matches, cleanup, discard_regex}, and time fields are read only by the discard "
    "logic; (3) cache-key validity: the key is the rule's address, so every site that re-allocates "
    "or frees rules owned by a live Blocker (assignment of a NetworkFilterList field, "
    "NetworkFilterList::optimize) is post-dominated by RegexManager::clear on that Blocker's "
    "manager; (4) batch == incremental: T_route(Blocker::new) equals T_route(Blocker::add_filter) "
    "on every parser-feasible valuation, add_filter tests existence before any insertion, and "
    "filter_exists looks in a list add_filter stores to; (5) serialization never touches the cache."
    ' Round 8: NetworkFilterList::filter_exists answers true only for a stored rule with the same id (add_filter refuses what it reports); add_filter would have to honour `$badfilter` rules loaded earlier (known finding F-C06-3).'
)
NOT_DECIDED = "Nothing structural: the argument is a frame rule and covers histories of any length; " \
              "value-level correctness of each query is the subject of C01-C05."

IM_RX = re.compile(r"(^|[<\s,(])(std::cell::(RefCell|Cell|UnsafeCell|OnceCell)|std::sync::(Mutex|RwLock|OnceLock|atomic::\w+)"
                   r"|once_cell::\w+::(Lazy|OnceCell)|core::cell::\w+)<?")
LISTS = set(R.BLOCKER_LISTS)


def check(run):
    for cfg in run.cfgs("A", "B"):
        F = run.facts(cfg)
        run.guard("C06.1.interior-mutability", cfg, lambda: rule_im(run, F, cfg))
        run.guard("C06.2.pure-cache", cfg, lambda: rule_pure_cache(run, F, cfg))
        run.guard("C06.3.cache-key-validity", cfg, lambda: rule_cache_key(run, F, cfg))
        run.guard("C06.4.batch-incremental", cfg, lambda: rule_routing(run, F, cfg))
        run.guard("C06.5.serialize-readonly", cfg, lambda: rule_serialize(run, F, cfg))
        run.guard("C06.4.batch-incremental", cfg + "/exists", lambda: rule_exists_identity(run, F, cfg))
        run.guard("C06.4.batch-incremental", cfg + "/badfilter", lambda: rule_incremental_badfilter(run, F, cfg))
        from . import C05 as _C05, C07 as _C07   # lazy imports (C07 borrows nothing from here)
        b5 = run.borrow("C05", why="which lists are optimised must not depend on how the engine was built")
        run.guard("C06.via.C05.3.what-is-optimised", cfg, lambda: _C05.rule_what(b5, F, cfg))
        b7 = run.borrow("C07", why="tags_with_set rebuilds filters_tagged from the enabled set alone")
        run.guard("C06.via.C07.3.set-algebra", cfg, lambda: _C07.rule_set_algebra(b7, F, cfg))
        run.guard("C06.via.C05.4.disjunction", cfg, lambda: _C05.rule_disjunction(b5, F, cfg))
        from . import C01 as _C01
        b1 = run.borrow("C01", why="incremental insertion must index a rule exactly like a batch build")
        run.guard("C06.via.C01.1.token-source", cfg, lambda: _C01.rule_store(b1, F, cfg))
        from . import C08 as _C08
        b8 = run.borrow("C08", only=r"\|NetworkFilter\.", why="a serialize / deserialize round trip is part of an engine's history")
        run.guard("C06.via.C08.1.state-coverage", cfg, lambda: _C08.rule_coverage(b8, F, cfg))
        b8p = run.borrow("C08", why="a serialize / deserialize round trip is part of an engine's history")
        run.guard("C06.via.C08.2.positional", cfg, lambda: _C08.rule_positional(b8p, F, cfg))
        run.guard("C06.via.C08.3.legacy-bijection", cfg, lambda: _C08.rule_legacy(b8p, F, cfg))
        from . import C13 as _C13t
        bt = run.borrow("C13", why="rules added one at a time are visited in another order than in a batch build: the redirect chosen among matching rules must not depend on it")
        run.guard("C06.via.C13.6.priority-suffix", cfg, lambda: _C13t.rule_tie_break(bt, F, cfg))
        from . import C07 as _C07d
        b74 = run.borrow("C07", why="a load is part of an engine's history: afterwards the active tagged rules are those of the CURRENT tag set, not of the set that was enabled when the data was written")
        run.guard("C06.via.C07.4.deserialize", cfg, lambda: _C07d.rule_deserialize(b74, F, cfg))
        from . import C02 as _C02rc
        brc = run.borrow("C02", only=r"regex-text-case|builders-", why="batch and incremental loading reach the same regexes: every builder of compile_regex is configured alike")
        run.guard("C06.via.C02.3.regex-translation", cfg, lambda: (_C02rc.rule_regex_case(brc, F, cfg), _C02rc.rule_regex_builder(brc, F, cfg)))
        from . import C13 as _C13u
        b13 = run.borrow("C13", why="answers depend on the resources loaded NOW: use_resources replaces, it does not accumulate over the engine's history")
        run.guard("C06.via.C13.5.lookup", cfg, lambda: _C13u.rule_use_resources(b13, F, cfg))


def engine_types(F):
    """local ADTs reachable from engine::Engine"""
    root = F.adt("engine::Engine")
    names = set(["engine::Engine"])
    for v in root["variants"]:
        for f in v["fields"]:
            for r in f["reach"]:
                if r in F.adts:
                    names.add(r)
    return names


def rule_im(run, F, cfg):
    names = engine_types(F)
    run.floor("C06.1.interior-mutability", f"local types in Engine's type graph [{cfg}]", len(names), 15)
    found = []
    for n in sorted(names):
        for v in F.adts[n]["variants"]:
            for f in v["fields"]:
                if IM_RX.search(f["ty"]) or "*ptr" in f["reach"] and f["ty"].startswith("*"):
                    found.append((n, f["name"], f["ty"]))
    allowed = {("blocker::Blocker", "regex_manager")}
    for n, fn_, ty in found:
        run.ob("C06.1.interior-mutability", f"field:{n}.{fn_}", (n, fn_) in allowed,
               f"interior-mutable field `{n}.{fn_}: {ty}` is reachable from Engine; the only "
               f"allowed hidden state is the regex cache Blocker.regex_manager",
               site=f"{n}", config=cfg,
               detail="a new Cell/RefCell/Mutex/atomic reachable from a &self query can make answers "
                      "depend on earlier queries")
    run.ob("C06.1.interior-mutability", "regex_manager-present",
           ("blocker::Blocker", "regex_manager") in [(a, b) for a, b, _ in found],
           "Blocker.regex_manager is the (single) interior-mutable field found", config=cfg)
    # statics
    n_st = 0
    for name, s in F.statics.items():
        n_st += 1
        ty = s["ty"]
        ok = not s["mut"]
        pure = bool(re.match(r"^(\[)?once_cell::sync::Lazy<(regex::Regex|regex::RegexSet|"
                             r"std::collections::HashSet<.*>|std::collections::HashMap<.*>)>(; \d+\])?$", ty)) \
            or not IM_RX.search(ty)
        run.ob("C06.1.interior-mutability", f"static:{name}", ok and pure,
               f"static `{name}: {ty}` is immutable or a Lazy of a value built from constants",
               config=cfg)
    run.floor("C06.1.interior-mutability", f"statics audited [{cfg}]", n_st, 12)
    # Lazy initialisers read no parameters / no other mutable state: their closures have no upvars
    for name, s in F.statics.items():
        if "Lazy<" not in s["ty"]:
            continue
        # closures defined inside the static's initialiser
        cls = [f for n, f in F.fns.items() if n.startswith(name + "::{closure")]
        for c in cls:
            reads_args = c.argc > 1
            # crate functions may be called with constant arguments only (pure helpers)
            calls_local = [strip_generics(t["callee"]) for b, t in c.calls() if t.get("local")
                           and not all(a.get("k") == "const" for a in t["args"])]
            run.ob("C06.1.interior-mutability", f"lazy-init:{c.name}", not reads_args and not calls_local,
                   f"initialiser of `{name}` takes no input and calls no crate function "
                   f"(local calls: {calls_local})", config=cfg)
    # thread locals
    tls = [n for n, f in F.fns.items() for b, i, s in f.statements() if s["k"] == "assign" and s["rv"]["k"] == "tls"]
    run.ob("C06.1.interior-mutability", "no-thread-locals", not tls,
           f"no thread_local! access in the crate (found in: {sorted(set(tls))[:3]})", config=cfg)


def rule_pure_cache(run, F, cfg):
    RE = "regex_manager::RegexEntry"
    writers = {}
    n = 0
    for name, f in F.fns.items():
        for b, i, s in f.statements():
            if s["k"] != "assign":
                continue
            val = None
            pl = s["pl"]
            if pl["p"] and isinstance(pl["p"][-1], dict) and pl["p"][-1].get("adt") == RE \
                    and pl["p"][-1].get("n") == "regex":
                val = f.expr_rvalue(s["rv"])
            elif s["rv"]["k"] == "agg" and s["rv"].get("adt") == RE:
                d = dict(zip(s["rv"]["fields"], s["rv"]["ops"]))
                val = f.expr_operand(d["regex"])
            if val is None:
                continue
            n += 1
            ok_val = val == "std::option::Option::None{}" or \
                bool(re.match(r"^std::option::Option::Some\{0: regex_manager::make_regexp\(arg:mask, arg:filters\)\}$", val))
            base = name.split("::{closure")[0]
            ok_fn = base in ("regex_manager::RegexManager::matches", "regex_manager::RegexManager::cleanup",
                             "regex_manager::RegexManager::discard_regex")
            if val.startswith("std::option::Option::Some") and base != "regex_manager::RegexManager::matches":
                ok_fn = False
            run.ob("C06.2.pure-cache", f"write:{name}#{writers.setdefault(name, 0)+1}", ok_val and ok_fn,
                   f"write of RegexEntry.regex in {name}: value `{val[:120]}` must be None or "
                   f"Some(make_regexp(mask, filters)) of the caller's own arguments, and only "
                   f"RegexManager::matches may install a regex",
                   site=f.loc(b, i), config=cfg,
                   detail="a cache entry rebuilt from anything else than the current rule makes the "
                          "answer depend on discard history")
            writers[name] += 1
            run.touched(f)
    run.floor("C06.2.pure-cache", f"writes of RegexEntry.regex [{cfg}]", n, 3)
    # make_regexp passes the caller's mask/filters to compile_regex
    mk = F.fn("regex_manager::make_regexp")
    cs = mk.calls(r"^regex_manager::compile_regex$")
    ok = len(cs) == 1 and mk.expr_operand(cs[0][1]["args"][0]) in ("arg:filters",) or \
        (cs and "arg:filters" in mk.expr_operand(cs[0][1]["args"][0]))
    run.ob("C06.2.pure-cache", "make_regexp-args", bool(ok),
           "make_regexp compiles exactly the filters it was given", config=cfg)
    # the result of matches is is_match on the entry's regex with the given pattern (or const true)
    m = F.fn("regex_manager::RegexManager::matches")
    run.touched(m)
    ims = m.calls(r"^regex_manager::CompiledRegex::is_match$")
    ok = bool(ims) and all("arg:pattern" == m.expr_operand(t["args"][1]) for b, t in ims)
    run.ob("C06.2.pure-cache", "matches-result", ok,
           "RegexManager::matches returns CompiledRegex::is_match(entry.regex, pattern)", config=cfg)
    # the only constant result is the fast path for masks that are neither regex nor complete regex
    from analysis.guards import conditional_defs as _cd
    consts = [(val, conds) for kind, b, val, conds, _ in _cd(m, 0) if val in ("true", "false")]
    okc = len(consts) == 1 and consts[0][0] == "true" and \
        has_cond(consts[0][1], r"NetworkFilterMaskHelper::is_regex\(arg:mask\)$", 0) and \
        has_cond(consts[0][1], r"NetworkFilterMaskHelper::is_complete_regex\(arg:mask\)$", 0)
    run.ob("C06.2.pure-cache", "constant-result-only-for-non-regex", okc,
           "RegexManager::matches returns a constant (true) only when the mask is neither IS_REGEX nor "
           f"IS_COMPLETE_REGEX; every other result is the compiled regex's verdict ({[(v, sorted(c.items())[:3]) for v, c in consts]})",
           site=m.loc(0), config=cfg)
    # an occupied entry is rebuilt exactly when its regex was discarded (never used while None)
    from analysis.pathinterp import enumerate_paths as _ep
    bad_paths = []
    n_occ = 0
    for p in _ep(m):
        if p.end != "return":
            continue
        none = [v for e, v in p.conds if re.search(r"Option::is_none\(.*@Occupied\.0\)?.*\.regex\)$", e)]
        some = [1 - v for e, v in p.conds if re.search(r"Option::is_some\(.*@Occupied\.0\)?.*\.regex\)$", e)]
        none += some
        if not none:
            continue
        n_occ += 1
        wrote = any(st["k"] == "assign" and st["pl"]["p"] and isinstance(st["pl"]["p"][-1], dict)
                    and st["pl"]["p"][-1].get("n") == "regex" and m.expr_rvalue(st["rv"]).startswith("std::option::Option::Some")
                    for b in p.blocks for st in m.blocks[b]["s"])
        if (none[0] == 1) != wrote:
            bad_paths.append((none[0], wrote))
    run.ob("C06.2.pure-cache", "rebuild-iff-discarded", n_occ >= 2 and not bad_paths,
           "on the Occupied arm of RegexManager::matches the regex is re-created exactly on the paths where it is "
           f"None (so it is Some when used, and a live entry is never replaced); offending (is_none, rebuilt): {bad_paths}",
           site=m.loc(0), config=cfg)
    # time fields are read only by the discard logic
    TIME = {"now", "last_cleanup", "last_used"}
    allowed_readers = {"regex_manager::RegexManager::update_time", "regex_manager::RegexManager::cleanup",
                       "regex_manager::RegexManager::matches", "regex_manager::RegexManager::get_debug_regex_data",
                       "<regex_manager::RegexManager as std::default::Default>::default"}
    from analysis.coverage import _places_in
    bad = []
    for name, f in F.fns.items():
        base = name.split("::{closure")[0]
        for pl, role, b in _places_in(f):
            for p in pl["p"]:
                if isinstance(p, dict) and p.get("adt") in ("regex_manager::RegexManager", RE) \
                        and p.get("n") in TIME and role == "read":
                    if base not in allowed_readers:
                        bad.append((name, p["n"], f.loc(b)))
    run.ob("C06.2.pure-cache", "time-readers", not bad,
           f"time fields (now / last_used / last_cleanup) are read only by update_time, cleanup, "
           f"matches and debug info; other readers: {bad[:3]}", config=cfg)
    # in matches, self.now flows only into last_used
    ok = True
    for b, i, s in m.statements():
        if s["k"] == "assign":
            e = m.expr_rvalue(s["rv"], depth=2)
            if re.search(r"\.now\b", e):
                tgt = s["pl"]["p"][-1].get("n") if s["pl"]["p"] and isinstance(s["pl"]["p"][-1], dict) else None
                root_is_tmp = not s["pl"]["p"]
                if not (tgt == "last_used" or root_is_tmp):
                    ok = False
    run.ob("C06.2.pure-cache", "now-only-into-last_used", ok,
           "in RegexManager::matches the clock value flows only into RegexEntry.last_used", config=cfg)
    # Instant::now is called only in update_time (and Default)
    callers = sorted(set(f.name for f, b, t in F.callers_of(r"^std::time::Instant::now$")))
    okc = all(c in ("regex_manager::RegexManager::update_time",
                    "<regex_manager::RegexManager as std::default::Default>::default") for c in callers)
    run.ob("C06.2.pure-cache", "clock-readers", okc and bool(callers),
           f"Instant::now() is called only by RegexManager::update_time / Default ({callers})", config=cfg)


def rule_cache_key(run, F, cfg):
    # the cache key handed to check_pattern
    m = F.fn("<filters::network::NetworkFilter as filters::network::NetworkMatchable>::matches")
    run.touched(m)
    cp = m.calls(r"^filters::network_matchers::check_pattern$")
    key = m.expr_operand(cp[0][1]["args"][3]) if cp else "?"
    is_addr = key == "(arg:self as u64)" or \
        ("as *const filters::network::NetworkFilter" in key and key.endswith("as u64)"))
    run.ob("C06.3.cache-key-validity", "key-is-rule-address", is_addr,
           f"the regex cache key is the address of the rule (`{key}`); the invalidation rule below "
           f"is stated for address keys — a different key needs its own validity argument "
           f"(uniqueness among live rules, stability under fusion)",
           site=m.loc(cp[0][0]) if cp else "", config=cfg,
           status=None if is_addr else "UNDISCHARGED")
    # entries are removed only by clear()
    # free / re-allocation sites of rules owned by a live Blocker
    sites = []
    for name, f in F.fns.items():
        base = name.split("::{closure")[0]
        for b, i, s in f.statements():
            if s["k"] == "assign":
                pl = s["pl"]
                if pl["p"] and isinstance(pl["p"][-1], dict) and pl["p"][-1].get("adt") == "blocker::Blocker" \
                        and pl["p"][-1].get("n") in LISTS:
                    sites.append((f, b, f"assign:{pl['p'][-1]['n']}", f.loc(b, i)))
        for b, t in f.calls(r"^network_filter_list::NetworkFilterList::optimize$"):
            recv = f.expr_operand(t["args"][0])
            mm = re.search(r"(?:arg|up):self\.(\w+)$", recv)
            if mm and mm.group(1) in LISTS:
                sites.append((f, b, f"optimize:{mm.group(1)}", f.loc(b)))
    run.floor("C06.3.cache-key-validity", f"re-allocation sites of Blocker-owned rules [{cfg}]", len(sites), 8)
    for f, b, what, loc in sites:
        run.touched(f)
        clears = [cb for cb, t in f.calls(r"^regex_manager::RegexManager::clear$")
                  if "blocker::Blocker::borrow_regex_manager(arg:self)" in f.expr_operand(t["args"][0])]
        ok = any(f.postdominates(cb, b) for cb in clears)
        run.ob("C06.3.cache-key-validity", f"{f.name}:{what}", ok,
               f"{f.name} re-allocates / frees rules of a live Blocker ({what}); the regex cache is "
               f"keyed by rule address and never evicts, so RegexManager::clear() on this Blocker's "
               f"manager must post-dominate the site",
               site=loc, config=cfg,
               detail="otherwise a new rule allocated at a freed address silently reuses the old "
                      "rule's compiled regex")
    # who may remove entries: only clear
    rm = [f.name for f, b, t in F.callers_of(r"^std::collections::HashMap::(remove|retain|drain|clear)$")
          if f.name.startswith("regex_manager::RegexManager::")]
    run.ob("C06.3.cache-key-validity", "evictors", set(rm) <= {"regex_manager::RegexManager::clear"},
           f"cache entries are removed only by RegexManager::clear ({sorted(set(rm))})", config=cfg)


def rule_routing(run, F, cfg):
    tn, _ = R.table_new(F)
    ta, order_violations = R.table_add(F)
    te = R.table_exists(F)
    run.touched("blocker::Blocker::new", "blocker::Blocker::add_filter", "blocker::Blocker::filter_exists")
    n = 0
    diffs = []
    ex_bad = []
    for v in R.valuations({"is_badfilter": 0, "bad_id": 0, "exists": 0}):
        if not R.feasible(v):
            continue
        a = tn.eval(v)
        b = ta.eval(v)
        n += 1
        if a != b:
            diffs.append((R.fmt_val(v), sorted(a or []), sorted(b or [])))
        pe = te.eval(v)
        if b and pe is not None and not (set(pe) & set(b)):
            ex_bad.append((R.fmt_val(v), sorted(pe), sorted(b)))
    run.floor("C06.4.batch-incremental", f"feasible valuations compared [{cfg}]", n, 50)
    run.ob("C06.4.batch-incremental", "new==add_filter", not diffs,
           f"T_route(Blocker::new) == T_route(Blocker::add_filter) on {n} parser-feasible valuations"
           + (f"; first difference {diffs[0][0]}: batch -> {diffs[0][1]}, incremental -> {diffs[0][2]}" if diffs else ""),
           site="src/blocker.rs Blocker::add_filter", config=cfg,
           detail="\n".join(f"{d[0]}: new={d[1]} add_filter={d[2]}" for d in diffs[:8]))
    run.ob("C06.4.batch-incremental", "exists-before-insert", not order_violations,
           "on every path of add_filter the filter_exists test precedes the first insertion "
           "(otherwise the rule finds itself and the remaining insertions are skipped)",
           site="src/blocker.rs Blocker::add_filter", config=cfg)
    run.ob("C06.4.batch-incremental", "filter_exists-looks-where-stored", not ex_bad,
           "filter_exists probes a list add_filter stores the rule in"
           + (f"; e.g. {ex_bad[0][0]}: probes {ex_bad[0][1]}, stored in {ex_bad[0][2]}" if ex_bad else ""),
           site="src/blocker.rs Blocker::filter_exists", config=cfg)
    # badfilter / existing rules are rejected by add_filter
    rej = True
    for v in R.valuations({"exists": 0, "bad_id": 0}):
        if v["is_badfilter"] and (ta.eval(v) or frozenset()):
            rej = False
    for v in R.valuations({"exists": 1, "bad_id": 0, "is_badfilter": 0}):
        if R.feasible(v) and (ta.eval(v) or frozenset()):
            rej = False
    run.ob("C06.4.batch-incremental", "add_filter-rejects", rej,
           "add_filter stores nothing for a $badfilter rule or a rule that already exists", config=cfg)


def rule_serialize(run, F, cfg):
    cone = F.cone(["engine::Engine::serialize_raw"])
    run.touched(*cone)
    bad = [c for c in cone if c == "blocker::Blocker::borrow_regex_manager"]
    run.ob("C06.5.serialize-readonly", "no-cache-access", not bad and len(cone) > 5,
           f"the cone of Engine::serialize_raw ({len(cone)} functions) never borrows the regex manager",
           config=cfg)
    f = F.fn("engine::Engine::serialize_raw")
    run.ob("C06.5.serialize-readonly", "takes-&self", "&'a engine::Engine" in f.j.get("sig", "") or "&" in f.j.get("sig", ""),
           f"serialize_raw takes &self ({f.j.get('sig','')[:80]})", config=cfg)



def rule_exists_identity(run, F, cfg):
    """`Blocker::add_filter` refuses a rule for which `NetworkFilterList::filter_exists` answers true. A rule loaded in
    one batch is never refused, so the incremental engine equals the batch engine only if `true` means "this very rule
    is stored": every `true` of filter_exists is reached under an equality of the stored rule's `id` with the id of
    the rule asked about, the stored rule coming from a bucket of `self.filter_map`. (A wrong `false` only stores a
    duplicate, which changes no answer.)"""
    from analysis.guards import conditional_defs
    f = F.fn("network_filter_list::NetworkFilterList::filter_exists")
    run.touched(f)
    trues, bad = 0, []
    for kind, b, val, conds, _ in conditional_defs(f, 0):
        if val == "false":
            continue
        trues += 1
        if val == "true":
            ok = any(v == 1 and re.search(r"\.id Eq arg:filter\.id\)$|^\(arg:filter\.id Eq .*\.id\)$", e) and "next(" in e for e, v in conds.items()) \
                and any(v == 1 and re.search(r"HashMap::get\(arg:self\.filter_map, ", e) for e, v in conds.items())
            if not ok:
                bad.append((f.loc(b), val, sorted(conds)[:4]))
        else:
            # iterator form: the answer is a (nested) `any` whose innermost predicate is `saved.id == filter.id`, over the
            # buckets handed out by a closure that is the plain lookup in self.filter_map; every closure on the way is
            # either that lookup, another `any` over its argument, or the id comparison
            okc = False
            if re.match(r"^(<.*> as )?std::iter::Iterator>?::any\(", val):
                def nested(n_):
                    out = []
                    for c_ in F.closures_of(n_):
                        out.append(c_)
                        out += nested(c_.name)
                    return out
                kinds = []
                for c_ in {c.name: c for c in nested(f.name)}.values():
                    r_ = c_.expr_local(0)
                    if re.match(r"^std::collections::HashMap::get\(up:self\.filter_map, arg:\w+\)$", r_):
                        kinds.append("lookup")
                    elif re.match(r"^\((arg:\w+\.id Eq up:\w+\.id|up:\w+\.id Eq arg:\w+\.id)\)$", r_):
                        kinds.append("same-id")
                    elif re.match(r"^(<.*> as )?std::iter::Iterator>?::any\((core::slice::iter\()?arg:\w+\)?, closure\[", r_):
                        kinds.append("any")
                    else:
                        kinds.append("other:" + r_[:40])
                okc = "lookup" in kinds and "same-id" in kinds and not [k_ for k_ in kinds if k_.startswith("other")]
            if not okc:
                bad.append((f.loc(b), val[:120], sorted(conds)[:4]))
    run.floor("C06.4.batch-incremental", f"`true` answers of NetworkFilterList::filter_exists [{cfg}]", trues, 1)
    run.ob("C06.4.batch-incremental", "exists-means-same-id", not bad,
           "NetworkFilterList::filter_exists answers true only for a stored rule (an element of a bucket of self.filter_map) "
           f"whose id equals the id of the rule asked about; other `true` answers: {bad[:2]}",
           site=bad[0][0] if bad else f.loc(0), config=cfg)



def rule_incremental_badfilter(run, F, cfg):
    """A batch cancels every rule whose id equals the id of a `$badfilter` rule of the same batch. For the one-at-a-time
    engine to equal the batch engine, `Blocker::add_filter` has to test the rule it is given against the ids of the
    `$badfilter` rules loaded earlier -- which requires that the Blocker keeps that id set after construction. Decided
    structurally: add_filter (or something it calls) looks the new rule's `get_id()` up in a collection stored in
    `self`. (Adding a `$badfilter` rule itself is refused with an error, which is visible to the caller.)"""
    f = F.fn("blocker::Blocker::add_filter")
    run.touched(f)
    cone = [f] + list(F.closures_of(f.name))
    hit = []
    for g in cone:
        for b, t in g.calls(r"(HashSet|HashMap|BTreeSet)::contains(_key)?$|slice::contains$|binary_search"):
            e = g.expr_call(t)
            if re.search(r"(arg|up):self[\.\w]*", e) and "get_id(" in e:
                hit.append(g.loc(b))
    run.ob("C06.4.batch-incremental", "add_filter-honours-earlier-badfilters", bool(hit),
           "Blocker::add_filter tests the id of the rule it is given against the `$badfilter` ids remembered from the rules "
           f"loaded before (lookups found: {hit})", site=f.loc(0), config=cfg,
           detail="Blocker::new([`||a.com^$badfilter`]) followed by add_filter(`||a.com^`) blocks a.com; the same two rules "
                  "in one batch do not")
