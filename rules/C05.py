"""C05 — rule optimisation never changes a verdict."""
import re

from analysis.coverage import fields_read
from analysis.guards import dominating_conditions, conditional_defs
from analysis.facts import strip_generics

EXPLANATION = (
    "Fusion replaces a group of rules by one rule that keeps every field of its first member "
    "except the pattern list, so it preserves verdicts only if every other verdict-relevant field "
    "is equal across the group. Decided: (1) fusion-key completeness by field coverage: every "
    "field of NetworkFilter read on the match path, by the tag gate or by post-match consumers is "
    "either merged by fusion (filter, raw_line, the two regex bits), part of the grouping key as a "
    "whole value (mask, tag, is_complete_regex), or forced to a single value by select "
    "(opt_domains/opt_not_domains is_none, !is_hostname_anchor => no hostname, !is_redirect and "
    "!is_csp => no modifier_option in optimised lists); (2) bucket preservation: "
    "NetworkFilterList::optimize re-inserts each drained bucket under its own key; (3) the "
    "removeparam list is never optimised (Blocker::new passes false, Blocker::optimize skips it) and "
    "every other list follows options.enable_optimizations; (4) an empty (match-all) member is "
    "never dropped from a fused disjunction; fused rules are matched as a disjunction (every leaf "
    "matcher consumes the whole pattern iterator; compile_regex anchors each pattern separately and "
    "hands all of them to the RegexSet)."
    " Later additions: every RegexSet is built with size_limit = number of patterns x the single-regex limit and with the same case / unicode settings as the single-pattern builder (read from each build()'s own receiver chain); the redirect choice among equal priorities is a total order (C13.6), so it cannot depend on bucket order; explicit optimize() re-allocates rules, the regex cache is dropped in every build configuration (C06.3)."
    " Round 8: the pattern iterator handed to every leaf (FilterPartIterator: next / len / iter as tables: every pattern of a fused rule is yielded once, len() is 0 only for Empty); the fused rule's IS_REGEX / IS_COMPLETE_REGEX bits are `any` over the members; the collected patterns are not passed through another function between collection and construction; optimize() returns fused AND unfused rules."
)
NOT_DECIDED = "Engine-vs-engine verdict equality on concrete lists and requests."

NF = "filters::network::NetworkFilter"
SPG = "<optimizer::SimplePatternGroup as optimizer::Optimization>::"


def check(run):
    for cfg in run.cfgs("A", "B"):
        F = run.facts(cfg)
        run.guard("C05.1.fusion-key", cfg, lambda: rule_key(run, F, cfg))
        run.guard("C05.2.bucket-preservation", cfg, lambda: rule_bucket(run, F, cfg))
        run.guard("C05.3.what-is-optimised", cfg, lambda: rule_what(run, F, cfg))
        run.guard("C05.4.disjunction", cfg, lambda: rule_disjunction(run, F, cfg))
        run.guard("C05.5.part-iterator", cfg, lambda: rule_part_iterator(run, F, cfg))
        from . import C06 as _C06c
        bc = run.borrow("C06", only=r"optimize|key-is-rule-address|evictors", why="explicit optimisation re-allocates the rules: compiled regexes cached under the old addresses must be dropped, in every build configuration")
        run.guard("C05.via.C06.3.cache-key-validity", cfg, lambda: _C06c.rule_cache_key(bc, F, cfg))
        from . import C13 as _C13t
        bt = run.borrow("C13", why="optimisation reorders the buckets: the redirect chosen among matching rules must not depend on the order they are visited in")
        run.guard("C05.via.C13.6.priority-suffix", cfg, lambda: _C13t.rule_tie_break(bt, F, cfg))
        from . import C07 as _C07g
        bg = run.borrow("C07", why="fusion changes the order of a bucket: `check` has to find A matching rule whose tag is enabled "
                                    "whatever comes first -- the tag test belongs to the search, not behind it")
        run.guard("C05.via.C07.2.gate-shape", cfg, lambda: _C07g.rule_gate_shape(bg, F, cfg))
        from . import C02 as _C02rc
        brc = run.borrow("C02", only=r"regex-text-case|builders-|one-regex-only", why="the fused set must match like its members: every builder of compile_regex is configured alike, and all patterns of a fused filter are compiled together")
        run.guard("C05.via.C02.3.regex-translation", cfg, lambda: (_C02rc.rule_regex_case(brc, F, cfg), _C02rc.rule_regex_builder(brc, F, cfg)))


def select_constraints(F):
    """conditions under which select returns a non-false value: {expr: value}"""
    f = F.fn(SPG + "select")
    cons = None
    for kind, b, val, conds, _ in conditional_defs(f, 0):
        if val == "false":
            continue
        # the last conjunct is returned as a value (Not(is_csp(..))): add it
        c = dict(conds)
        m = re.match(r"^Not\((.*)\)$", val)
        if m:
            c[m.group(1)] = 0
        elif val != "true":
            c[val] = 1
        cons = c if cons is None else {k: v for k, v in cons.items() if c.get(k) == v}
    return f, cons or {}


def key_components(F):
    g = F.fn(SPG + "group_by_criteria")
    comps = []
    for b, t in g.calls(r"^core::fmt::rt::Argument::new_\w+$"):
        e = g.expr_operand(t["args"][0])
        comps.append(e)
    # the arguments are projections of one tuple `(a, b, c).i`; recover the i-th element
    out = []
    for e in comps:
        m = re.match(r"^\((.*)\)\.(\d+)$", e)
        if m:
            parts = _split_top(m.group(1))
            i = int(m.group(2))
            out.append(parts[i] if i < len(parts) else e)
        else:
            out.append(e)
    return g, out


def _split_top(s):
    parts, depth, cur = [], 0, ""
    for ch in s:
        if ch in "([{<":
            depth += 1
        elif ch in ")]}>":
            depth -= 1
        if ch == "," and depth == 0:
            parts.append(cur.strip())
            cur = ""
        else:
            cur += ch
    if cur.strip():
        parts.append(cur.strip())
    return parts


def rule_key(run, F, cfg):
    m = F.fn("<filters::network::NetworkFilter as filters::network::NetworkMatchable>::matches")
    fus = F.fn(SPG + "fusion")
    sel, cons = select_constraints(F)
    g, comps = key_components(F)
    run.touched(m, fus, sel, g)
    direct = set()
    for c in comps:
        mm = re.match(r"^arg:filter\.(\w+)$", c)
        if mm:
            direct.add(mm.group(1))
    # R: fields that can influence a verdict
    R_match = fields_read(m, NF)
    R = set(R_match) | {"tag", "modifier_option"}
    # fields the tag gate reads
    chk = F.fn("network_filter_list::NetworkFilterList::check")
    R |= fields_read(chk, NF) - {"id"}
    merged = {"filter", "raw_line"}
    derived = {"opt_domains_union": "derived from opt_domains (None when opt_domains is None)",
               "opt_not_domains_union": "derived from opt_not_domains",
               "id": "identity of the first member; not read by any verdict"}

    def sel_has(rx, val):
        return any(re.search(rx, e) and v == val for e, v in cons.items())

    just = {
        "mask": ("key", "mask" in direct,
                 "the whole mask is a component of the grouping key (`{:b}` of filter.mask)"),
        "tag": ("key", "tag" in direct,
                "the tag VALUE is a component of the grouping key (not merely tag.is_some())"),
        "opt_domains": ("select", sel_has(r"Option::is_none\(arg:filter\.opt_domains\)$", 1)
                        or sel_has(r"Option::is_some\(arg:filter\.opt_domains\)$", 0),
                        "select requires opt_domains.is_none()"),
        "opt_not_domains": ("select", sel_has(r"Option::is_none\(arg:filter\.opt_not_domains\)$", 1)
                            or sel_has(r"Option::is_some\(arg:filter\.opt_not_domains\)$", 0),
                            "select requires opt_not_domains.is_none()"),
        "hostname": ("select", sel_has(r"::is_hostname_anchor\(arg:filter\)$", 0),
                     "select requires !is_hostname_anchor(); hostname is Some only for "
                     "hostname-anchored rules (parse invariant, C02.4)"),
        "modifier_option": ("select",
                            sel_has(r"::is_redirect\(arg:filter\)$", 0) and sel_has(r"::is_csp\(arg:filter\)$", 0),
                            "select requires !is_redirect() and !is_csp(); the removeparam list is never "
                            "optimised (C05.3), so no fused rule carries a modifier_option"),
    }
    for fld in sorted(R):
        if fld in merged:
            run.ob("C05.1.fusion-key", f"field:{fld}", True,
                   f"`{fld}` is merged by fusion itself", config=cfg)
            continue
        if fld in derived:
            run.ob("C05.1.fusion-key", f"field:{fld}", True, f"`{fld}`: {derived[fld]}", config=cfg)
            continue
        if fld not in just:
            run.ob("C05.1.fusion-key", f"field:{fld}", False,
                   f"NetworkFilter.{fld} is read on the match path / by the tag gate but the fusion "
                   f"rule has no justification for it (new verdict-relevant field?)",
                   status="UNDISCHARGED", config=cfg)
            continue
        how, ok, why = just[fld]
        run.ob("C05.1.fusion-key", f"field:{fld}", ok,
               f"verdict-relevant field `{fld}` must be equal across a fused group: {why}",
               site=(g.loc(0) if how == "key" else sel.loc(0)), config=cfg,
               detail=f"key components: {comps}\nselect constraints: "
                      + "; ".join(f"{e[-60:]}={v}" for e, v in cons.items()))
    run.floor("C05.1.fusion-key", f"verdict-relevant fields [{cfg}]", len(R), 8)
    # is_complete_regex is merged with `any`, so it must also be a key component
    has_cr = any("is_complete_regex(arg:filter)" in c for c in comps) or "mask" in direct
    run.ob("C05.1.fusion-key", "key:is_complete_regex", has_cr,
           "the regex kind (is_complete_regex) is part of the grouping key", config=cfg)
    # fusion keeps the first member's other fields: base = filters[0].clone()
    wr = set()
    from analysis.coverage import fields_written
    wr = fields_written(fus, NF)
    extra = sorted(wr - {"filter", "raw_line", "mask"})
    run.ob("C05.1.fusion-key", "fusion-writes", not extra,
           f"fusion overwrites only filter / raw_line / mask regex bits of the cloned first member "
           f"(also writes: {extra})", config=cfg)
    sets = [fus.expr_operand(t["args"][1]) for b, t in fus.calls(r"::set$")]
    okbits = all(re.search(r"NetworkFilterMask::(IS_REGEX|IS_COMPLETE_REGEX)=", s) for s in sets) and len(sets) == 2
    run.ob("C05.1.fusion-key", "fusion-mask-bits", okbits,
           f"fusion changes only the IS_REGEX / IS_COMPLETE_REGEX bits of the mask ({sets})", config=cfg)


def rule_bucket(run, F, cfg):
    f = F.fn("network_filter_list::NetworkFilterList::optimize")
    run.touched(f)
    ins = f.calls(r"^std::collections::HashMap::insert$")
    ok = len(ins) == 1
    detail = ""
    if ok:
        b, t = ins[0]
        k = f.expr_operand(t["args"][1])
        v_orig = f.origins_operand(t["args"][2])
        ok_k = bool(re.search(r"Drain<.*>::next\(.*\)@Some\.0\.0$", k)) or bool(re.search(r"next\(.*drain.*\)@Some\.0\.0$", k))
        detail = f"key: {k[:200]}"
        ok = ok_k
    run.ob("C05.2.bucket-preservation", "same-key", ok,
           "NetworkFilterList::optimize inserts each optimised bucket under the key yielded by "
           "drain() for that bucket (no rule changes bucket, so index completeness survives)",
           site=f.loc(ins[0][0]) if ins else "", config=cfg, detail=detail)
    # the value is built from this bucket's filters only: optimizer::optimize(unoptimized) ++ unoptimizable
    calls = [strip_generics(t["callee"]) for b, t in f.calls()]
    ok2 = "optimizer::optimize" in calls and "std::vec::Vec::append" in calls
    run.ob("C05.2.bucket-preservation", "value-from-bucket", ok2,
           "the new bucket is optimizer::optimize(unshared rules) followed by the still-shared rules",
           config=cfg)
    # field assignment at the end
    wrote = any(s["k"] == "assign" and s["pl"]["p"] and isinstance(s["pl"]["p"][-1], dict)
                and s["pl"]["p"][-1].get("n") == "filter_map" for b, i, s in f.statements())
    run.ob("C05.2.bucket-preservation", "installs-map", wrote,
           "the rebuilt map is installed as self.filter_map", config=cfg)
    # optimizer::optimize returns fused ++ unfused (nothing dropped)
    o = F.fn("optimizer::optimize")
    # both components of apply_optimisation's (fused, unfused) result reach the returned vector: as its initial value
    # or through append / extend onto it
    comps = set(re.findall(r"optimizer::apply_optimisation\(.*?\)\.([01])\b", o.expr_local(0)))
    for b, t in o.calls(r"^std::vec::Vec::(append|extend|extend_from_slice)$|Extend<.*>>::extend$"):
        if len(t["args"]) >= 2:
            comps |= set(re.findall(r"optimizer::apply_optimisation\(.*?\)\.([01])\b", o.expr_operand(t["args"][1])))
    run.ob("C05.2.bucket-preservation", "nothing-dropped", comps == {"0", "1"},
           "optimizer::optimize returns the fused AND the unfused rules of apply_optimisation "
           f"(components of its result that reach the returned vector: {sorted(comps)})", config=cfg)
    a = F.fn("optimizer::apply_optimisation")
    # groups of size 1 go back to `negative`
    cl = F.closures_of("optimizer::apply_optimisation")
    pushes = sum(len(c.calls(r"^std::vec::Vec::push$")) for c in cl) + len(a.calls(r"^std::vec::Vec::push$"))
    run.ob("C05.2.bucket-preservation", "singletons-kept", pushes >= 2,
           "apply_optimisation pushes fused groups to `fused` and singleton groups back to the "
           "unfused list", config=cfg)


def rule_what(run, F, cfg):
    f = F.fn("blocker::Blocker::new")
    run.touched(f)
    aggs = [(b, i, s) for b, i, s in f.statements()
            if s["k"] == "assign" and s["rv"]["k"] == "agg" and s["rv"].get("adt") == "blocker::Blocker"]
    if len(aggs) != 1:
        run.ob("C05.3.what-is-optimised", "aggregate", False, "Blocker aggregate not found in Blocker::new",
               status="UNDISCHARGED", config=cfg)
        return
    b, i, s = aggs[0]
    n = 0
    for fname, op in zip(s["rv"]["fields"], s["rv"]["ops"]):
        e = f.expr_operand(op)
        m = re.match(r"^network_filter_list::NetworkFilterList::new\((.*), ([^,]+)\)$", e)
        if not m:
            continue
        n += 1
        flag = m.group(2)
        if fname == "removeparam":
            run.ob("C05.3.what-is-optimised", "new:removeparam", flag == "false",
                   f"Blocker::new builds the removeparam list with optimisation `{flag}` (must be the "
                   f"constant false: fused rules would share one parameter name)",
                   site=f.loc(b, i), config=cfg)
        else:
            run.ob("C05.3.what-is-optimised", f"new:{fname}",
                   flag in ("arg:options.enable_optimizations", "false"),
                   f"Blocker::new builds `{fname}` with optimisation flag `{flag}` "
                   f"(options.enable_optimizations or the constant false)", site=f.loc(b, i), config=cfg)
    run.floor("C05.3.what-is-optimised", f"lists built in Blocker::new [{cfg}]", n, 8)
    o = F.fn("blocker::Blocker::optimize")
    run.touched(o)
    lists = []
    for b, t in o.calls(r"^network_filter_list::NetworkFilterList::optimize$"):
        m = re.search(r"arg:self\.(\w+)$", o.expr_operand(t["args"][0]))
        lists.append(m.group(1) if m else "?")
    run.ob("C05.3.what-is-optimised", "optimize:skips-removeparam", "removeparam" not in lists and len(lists) >= 6,
           f"Blocker::optimize optimises {lists} and never the removeparam list", site=o.loc(0), config=cfg)


def rule_disjunction(run, F, cfg):
    fus = F.fn(SPG + "fusion")
    run.touched(fus)
    # (a) the Empty arm of the flatten loop is reached only if no member is Empty
    arms = []
    for b in sorted(fus.normal_blocks()):
        t = fus.blocks[b]["t"]
        if t["k"] == "switch":
            e = fus.expr_operand(t["discr"])
            if re.search(r"^discr\(.*next\(.*\)@Some\.0\.filter\)$", e):
                for v, tb in t["targets"]:
                    if v == 0:
                        arms.append((b, tb))
    ok = bool(arms)
    for sb, tb in arms:
        c = dominating_conditions(fus, tb)
        if not any(re.search(r"Iterator>::any\(core::slice::iter\(arg:filters\), closure\[", e) and v == 0
                   for e, v in c.items()):
            ok = False
    run.ob("C05.4.disjunction", "empty-member-not-dropped", ok,
           "in fusion the flatten loop skips FilterPart::Empty members only on the branch where no "
           "member is Empty (any(..Empty..) == false); otherwise a match-all rule fused with "
           "ordinary patterns would silently stop matching everything",
           site=fus.loc(arms[0][0]) if arms else fus.loc(0), config=cfg)
    # (a') alternatives of an already fused member are carried over one by one
    bodies = [fus] + list(F.closures_of(SPG + "fusion"))
    carried = {"Simple": False, "AnyOf": False}
    joined = []
    for fb in bodies:
        for b, t in fb.calls():
            cal = strip_generics(t["callee"])
            e = fb.expr_call(t)
            if cal.endswith("FilterPart::string_view"):
                joined.append(fb.loc(b))
            if re.search(r"\.filter@Simple\.0\b", e) and re.search(r"::(push|clone|to_string|to_owned|extend)", cal):
                carried["Simple"] = True
            if re.search(r"\.filter@AnyOf\.0\b", e) and re.search(r"::(extend_from_slice|extend|iter|into_iter|to_vec|clone|append)", cal):
                carried["AnyOf"] = True
    run.ob("C05.4.disjunction", "alternatives-carried-individually", all(carried.values()) and not joined,
           "fusion flattens its members pattern by pattern: Simple(s) contributes s, AnyOf(v) contributes "
           "every element of v; nothing goes through FilterPart::string_view (which joins an AnyOf with `|` "
           "into one literal that can never match)" + (f"; string_view called at {joined}" if joined else ""),
           site=joined[0] if joined else fus.loc(0), config=cfg, detail=f"carried: {carried}")
    # (a+) the two "needs the regex engine" bits of the fused rule are set when ANY member needs it: a group that mixes
    # wildcard patterns with plain ones (or /regex/ rules with ordinary ones) has to be compiled, otherwise the `*` / `^`
    # of a member would be compared as literal text (mutation run 6: `any` -> `all` passes the pinned suite)
    flags = {}
    for b, t in fus.calls(r"::set$"):
        if len(t["args"]) == 3:
            mm = re.search(r"NetworkFilterMask::(IS_REGEX|IS_COMPLETE_REGEX)\b", fus.expr_operand(t["args"][1]))
            if mm:
                flags[mm.group(1)] = fus.expr_operand(t["args"][2])
    want_pred = {"IS_REGEX": "is_regex", "IS_COMPLETE_REGEX": "is_complete_regex"}
    for bit, pred in want_pred.items():
        e = flags.get(bit, "")
        m_any = re.match(r"^<std::slice::Iter<'a, T> as std::iter::Iterator>::any\(core::slice::iter\(arg:\w+\), (fn:[\w:]+|closure\[([^\]]+)\]\(\))\)$", e)
        okf = False
        if m_any:
            if m_any.group(1).startswith("fn:"):
                okf = m_any.group(1).endswith("::" + pred)
            else:
                c = F.fns.get(m_any.group(2))
                okf = c is not None and bool(re.match(r"^filters::network::NetworkFilterMaskHelper::" + pred + r"\(arg:\w+\)$", c.expr_local(0)))
        run.ob("C05.4.disjunction", f"fused-flag-is-any-member:{bit}", okf,
               f"fusion sets {bit} of the fused rule to `filters.iter().any({pred})` (found `{e[-150:]}`): a fused group is "
               "matched through the regex engine as soon as one member needs it", site=fus.loc(0), config=cfg)
    # (a'') the fused pattern keeps ALL collected alternatives: Simple(p[0]) only when there is exactly one,
    # Empty only when there is none (or a member is Empty), AnyOf(all) otherwise
    parts = []
    for b, i, st in fus.statements():
        if st["k"] == "assign" and st["rv"]["k"] == "agg" and str(st["rv"].get("adt", "")).endswith("FilterPart"):
            c = dominating_conditions(fus, b, render=fus.vexpr_operand)
            ops = [fus.vexpr_operand(o) for o in st["rv"]["ops"]]
            # how many patterns were collected on the way here: 0 / 1 / 2 (= two or more), whatever test was used
            sizes = {0, 1, 2}
            for k, v in c.items():
                if re.match(r"^std::vec::Vec::is_empty\(\$\w+\)$", k):
                    sizes &= {0} if v == 1 else {1, 2}
                elif re.match(r"^\(std::vec::Vec::len\(\$\w+\) Eq ([01])\)$", k):
                    n_ = int(re.match(r"^\(std::vec::Vec::len\(\$\w+\) Eq ([01])\)$", k).group(1))
                    sizes &= {n_} if v == 1 else ({0, 1, 2} - {n_})
                elif re.match(r"^std::vec::Vec::len\(\$\w+\)$", k):
                    if v in (0, 1):
                        sizes &= {v}
                    elif isinstance(v, tuple) and v[0] == "not":
                        sizes -= set(x for x in v[1] if x in (0, 1))
                        if any(x >= 2 for x in v[1]):
                            sizes = set()  # a test on a particular larger length: not modelled
                    else:
                        sizes = set()
            anyv = [v for k, v in c.items() if re.search(r"Iterator>::any\(core::slice::iter\(\$\w+\)", k)]
            parts.append((st["rv"]["variant"], ops, sizes, anyv[0] if anyv else None))
    # the vector of collected patterns, whatever it is called: the operand of the AnyOf construction
    pv = next((ops[0] for var, ops, sizes, anyv in parts if var == "AnyOf" and len(ops) == 1 and re.match(r"^\$\w+$", ops[0])), None)
    good = pv is not None
    first_of = (r"(index\(%s, 0\)\)?|std::vec::Vec::(remove|swap_remove)\(%s, 0\)|std::vec::Vec::pop\(%s\)(@Some\.0)?)$"
                % ((re.escape(pv or "$?"),) * 3))
    for var, ops, sizes, anyv in parts:
        if var == "Empty":
            good = good and (anyv == 1 or sizes == {0})
        elif var == "Simple":
            good = good and sizes == {1} and len(ops) == 1 and bool(re.search(first_of, ops[0]))
        elif var == "AnyOf":
            good = good and ops == [pv] and sizes == {2}
        else:
            good = False
    # between collection and construction nothing else handles the collected patterns: the variable is initialised once,
    # filled by push / extend, asked for its size and moved into the fused part -- it is not handed to a function that
    # could select among the patterns (a "drop the patterns covered by a shorter one" step is right for substring
    # patterns and wrong as soon as the group is anchored with `|`)
    if pv:
        ALLOWED = r"^std::vec::Vec::(push|extend_from_slice|len|is_empty|with_capacity|new|remove|swap_remove|pop|reserve|shrink_to_fit)$|" \
                  r"Extend<.*>>::extend$|^std::vec::Vec::extend$|ops::Index<.*>>::index$|ops::Deref(Mut)?>::deref(_mut)?$|Clone>::clone$"
        handed = []
        for b, t in fus.calls():
            if any(fus.vexpr_operand(a) == pv for a in t["args"]):
                cal = strip_generics(t["callee"])
                if not re.search(ALLOWED, cal):
                    handed.append((cal.split("::")[-1], fus.loc(b)))
        pl = [l for l, nme in fus.varnames.items() if "$" + nme == pv]
        inits = [d for l in pl for d in fus.defs().get(l, [])]
        run.ob("C05.4.disjunction", "collected-patterns-untouched", not handed and len(inits) <= 1,
               f"the collected patterns ({pv}) are only filled, measured and moved into the fused part; they are not passed through "
               f"another function or re-assigned on the way (handed to: {handed[:2]}; assignments: {len(inits)})",
               site=handed[0][1] if handed else fus.loc(0), config=cfg)
    run.ob("C05.4.disjunction", "all-alternatives-kept", good and sorted(p[0] for p in parts) == ["AnyOf", "Empty", "Empty", "Simple"],
           "fusion builds Empty only if a member is Empty or no pattern was collected, Simple(p[0]) only if exactly "
           "one pattern was collected, and AnyOf(all collected patterns) otherwise", site=fus.loc(0), config=cfg,
           detail=str(parts)[:400])
    cl = [c for c in F.closures_of(SPG + "fusion")]
    tests_empty = any(any(t["k"] == "switch" and "discr(" in c.expr_operand(t["discr"]) for t in
                          [c.blocks[b]["t"] for b in c.normal_blocks()]) for c in cl)
    run.ob("C05.4.disjunction", "any-tests-variant", tests_empty,
           "the any() closure inspects the FilterPart variant of each member", config=cfg)
    # (b) compile_regex: per-pattern anchoring inside the loop, all patterns to the set builder
    cr = F.fn("regex_manager::compile_regex")
    run.touched(cr)
    fmt = cr.calls(r"^std::fmt::format$")
    pushes = [(b, t) for b, t in cr.calls(r"^std::vec::Vec::push$")]
    loop_heads = [b for b, t in cr.calls(r"Iterator>?::next$")]
    in_loop = bool(loop_heads) and all(
        any(cr.dominates(h, b) and h in cr.reachable_from(b) for h in loop_heads) for b, _ in pushes)
    run.ob("C05.4.disjunction", "per-pattern-anchoring", bool(pushes) and in_loop,
           "compile_regex builds (and anchors) one regex string per pattern inside the loop over the "
           "patterns", site=cr.loc(pushes[0][0]) if pushes else "", config=cfg)
    anch = False
    for b, t in fmt:
        e = cr.expr_call(t)
        if re.search(r'"\^"', e) and re.search(r'"\$"', e):
            anch = any(cr.dominates(h, b) and h in cr.reachable_from(b) for h in loop_heads)
    run.ob("C05.4.disjunction", "anchors-inside-loop", anch,
           "the `^` / `$` anchors are emitted by the per-pattern format! inside the loop (anchors "
           "hoisted around a joined alternation would bind to the first / last alternative only)",
           config=cfg)
    # "set build sites" of compile_regex: a RegexSetBuilder chain ending in build(), written in the function itself or
    # in a local closure it calls (`let build_set = |patterns| BytesRegexSetBuilder::new(patterns)....build()`).
    # Each site: (block in compile_regex, rendering of the patterns it receives, regex of its result's discriminant,
    #             the body holding the chain, block of build() in that body)
    sites = []
    for b, t in cr.calls(r"RegexSetBuilder::build$"):
        nw = [t2 for b2, t2 in cr.calls(r"RegexSetBuilder::new$") if cr.dominates(b2, b) and cr.expr_call(t2)[:80] in cr.expr_operand(t["args"][0])]
        pats = cr.vexpr_operand(nw[0]["args"][0]) if nw else "?"
        sites.append((b, pats, r"^discr\(regex::bytes::RegexSetBuilder::build\(", cr, b))
    for k in F.closures_of(cr.name):
        kb = k.calls(r"RegexSetBuilder::build$")
        if not kb:
            continue
        for b, t in cr.calls(r"^" + re.escape(k.name) + r"$"):
            pats = cr.vexpr_operand(t["args"][1]) if len(t["args"]) > 1 else "?"
            sites.append((b, pats, r"^discr\(" + re.escape(k.name) + r"\(", k, kb[0][0]))
    # the vector all per-pattern regexes are pushed into (whatever it is called)
    pv = {cr.vexpr_operand(t["args"][0]) for b, t in pushes}
    pvn = next(iter(pv)) if len(pv) == 1 else "?"
    first = [s_ for s_ in sites if pvn in s_[1] and "filter" not in s_[1]]
    ok = len(pv) == 1 and len(first) == 1
    # any further set is built only after the full set failed to compile (fallback, see invalid-member-isolated)
    fail_rx = [s_[2] for s_ in sites]
    for s_ in sites:
        if s_ in first:
            continue
        c = dominating_conditions(cr, s_[0], render=cr.vexpr_operand)
        ok = ok and any(any(re.search(rx, k_) for rx in fail_rx) and v == 1 for k_, v in c.items())
    sb = [(s_[0], None) for s_ in sites]
    # one unparsable member must not disable its fused siblings: a RegexParsingError that follows a failed SET
    # build is reached only through a per-pattern validity filter (is_ok of the single-pattern build)
    flt = []
    for b, t in cr.calls(r"^std::iter::Iterator::filter$"):
        m = re.search(r"closure\[([^\]]+)\]", cr.vexpr_call(t))
        c = F.fns.get(m.group(1)) if m else None
        if c is not None and re.match(r"^std::result::Result::is_ok\(regex::bytes::RegexBuilder::build\(", c.expr_local(0)):
            flt.append(b)
    errs = []
    for b, i, st in cr.statements():
        if st["k"] == "assign" and st["rv"]["k"] == "agg" and st["rv"].get("variant") == "RegexParsingError":
            c = dominating_conditions(cr, b, render=cr.vexpr_operand)
            after_set = any(any(re.search(rx, k_) for rx in fail_rx) and v == 1 for k_, v in c.items())
            if after_set:
                errs.append((cr.loc(b), any(cr.dominates(fb, b) for fb in flt)))
    # every set is built with room for each of its members: the regex crate's limit on one compiled program applies to
    # the whole set, so a group of large patterns that are each fine on their own would fail to compile as a set, and
    # (all members being valid) the whole fused filter would never match
    lim = []
    for sb_, pats, rx, body, bb in sites:
        t = body.blocks[bb]["t"]
        recv = body.expr_operand(t["args"][0])
        arg = [body.expr_operand(t2["args"][1]) for b2, t2 in body.calls(r"RegexSetBuilder::size_limit$")
               if body.dominates(b2, bb) and body.expr_call(t2)[:60] in recv]
        # a closure sees the limit as a captured variable of compile_regex: follow it there
        res = []
        for a in arg:
            m_ = re.match(r"^up:(\w+)$", a)
            if m_ and body is not cr:
                ls = [l for l, nme in cr.varnames.items() if nme == m_.group(1)]
                a = cr.expr_local(ls[0]) if ls else a
            res.append(a)
        good = bool(res) and all(re.search(r"(saturating_mul|wrapping_mul|MulWithOverflow|Mul)", a) and re.search(r"::len\(", a)
                                 and re.search(r"DEFAULT_REGEX_SIZE_LIMIT|10485760", a) for a in res)
        lim.append((cr.loc(sb_), good, [a[:90] for a in res]))
    dl = F.consts.get("regex_manager::DEFAULT_REGEX_SIZE_LIMIT", {}).get("val", {}).get("int")
    run.ob("C05.4.disjunction", "set-size-limit-scales-with-members", len(lim) >= 2 and all(g_ for _, g_, _ in lim) and (dl or 0) >= 10 * (1 << 20),
           "every RegexSet of compile_regex is built with size_limit = number of patterns x the single-regex limit "
           f"(DEFAULT_REGEX_SIZE_LIMIT = {dl}, the regex crate's default is 10 MiB): {lim}", site=cr.loc(0), config=cfg)
    run.ob("C05.4.disjunction", "invalid-member-isolated", bool(errs) and all(okf for _, okf in errs),
           "when the RegexSet of a fused filter fails to compile, compile_regex falls back to the patterns that compile "
           "on their own; RegexParsingError (which never matches) is produced only after that per-pattern filter. "
           "Otherwise one unparsable rule (`/broken(unclosed/`) silently disables every rule fused with it, which an "
           f"unoptimised engine does not do (error sites after a failed set build: {errs})", site=cr.loc(0), config=cfg)
    run.ob("C05.4.disjunction", "all-patterns-to-set", ok,
           "the RegexSet builder receives the vector of all per-pattern regexes (not a joined string)",
           site=cr.loc(sb[0][0]) if sb else "", config=cfg)


FPI = "filters::network::FilterPartIterator<'a>"


def rule_part_iterator(run, F, cfg):
    """The pattern list of a (fused) rule is handed to every leaf matcher as a `FilterPartIterator`. The leaves ask it
    two things: `len() == 0` (no pattern: the rule matches any URL) and `any(..)` over what `next()` yields. Decided on
    the three functions as tables over the variant of the part and the two comparisons of the cursor:
      iter(): the cursor starts at 0 on the part itself (the only construction of the iterator in the crate);
      next(): Empty -> None; Simple(s) -> Some(s) exactly when the cursor is 0; AnyOf(v) -> Some(v[cursor]) exactly
              while cursor < v.len(); every Some advances the cursor by one, no None moves it;
      len():  0 / 1 / v.len().
    A cursor that starts at 1, advances by two, stops at len - 1 or a len() of 0 for Simple loses patterns of a fused
    rule (or turns a rule into match-all) without any leaf matcher changing."""
    from analysis.pathinterp import enumerate_paths, path_value
    rid = "C05.5.part-iterator"
    variants = [v["name"] for v in F.adt("filters::network::FilterPart")["variants"]]
    nxt = F.fn(f"<{FPI} as std::iter::Iterator>::next")
    ln = F.fn(f"<{FPI} as std::iter::ExactSizeIterator>::len")
    run.touched(nxt)
    run.touched(ln)

    def vname(conds):
        for e, v in conds:
            if re.match(r"^discr\(arg:self\.filter_part\)$", e) and isinstance(v, int) and v < len(variants):
                return variants[v]
        return None

    rows = []
    for p in enumerate_paths(nxt):
        if p.end != "return":
            continue
        var = vname(p.conds)
        payload = None
        writes = []
        for b in p.blocks:
            for s in nxt.blocks[b]["s"]:
                if s["k"] != "assign":
                    continue
                if s["pl"]["p"]:
                    writes.append((nxt._apply_proj("_%d" % s["pl"]["l"], s["pl"]["p"]), nxt.expr_rvalue(s["rv"])))
                elif s["rv"]["k"] == "agg" and str(s["rv"].get("adt", "")).endswith("Option") and s["rv"]["ops"]:
                    payload = nxt.expr_operand(s["rv"]["ops"][0])
        ret = path_value(nxt, p, 0) or ""
        is_some = "Option::Some" in ret or (payload is not None and "None" not in ret)
        other = {e: v for e, v in p.conds if not e.startswith("discr(arg:self.filter_part)")}
        rows.append((var, other, is_some, payload if is_some else None, writes))
    run.floor(rid, f"return paths of FilterPartIterator::next [{cfg}]", len(rows), 5)
    adv = [("_1.index", "(arg:self.index AddWithOverflow 1).0")]
    bad = []
    seen_some = set()
    for var, other, is_some, payload, writes in rows:
        if var is None:
            bad.append(("a path that does not depend on the variant", other))
            continue
        conds = sorted(other.items())
        if not is_some:
            want = {"Empty": [[]],
                    "Simple": [[("(arg:self.index Eq 0)", 0)]],
                    "AnyOf": [[("(arg:self.index Lt std::vec::Vec::len(arg:self.filter_part@AnyOf.0))", 0)],
                              [("(arg:self.index Ge std::vec::Vec::len(arg:self.filter_part@AnyOf.0))", 1)]]}[var]
            if conds not in want or writes:
                bad.append((f"{var}: None", conds, writes))
            continue
        seen_some.add(var)
        if writes != adv:
            bad.append((f"{var}: the cursor is not advanced by exactly one", writes))
        if var == "Simple":
            if conds != [("(arg:self.index Eq 0)", 1)] or not re.search(r"arg:self\.filter_part@Simple\.0\b", payload or ""):
                bad.append(("Simple: Some", conds, payload))
        elif var == "AnyOf":
            okc = conds in ([("(arg:self.index Lt std::vec::Vec::len(arg:self.filter_part@AnyOf.0))", 1)],
                            [("(arg:self.index Ge std::vec::Vec::len(arg:self.filter_part@AnyOf.0))", 0)])
            if not okc or not re.search(r"index\(arg:self\.filter_part@AnyOf\.0, arg:self\.index\)", payload or ""):
                bad.append(("AnyOf: Some", conds, payload))
        else:
            bad.append(("Empty yields a pattern", conds, payload))
    if seen_some != {"Simple", "AnyOf"}:
        bad.append(("variants that yield patterns", sorted(seen_some)))
    run.ob(rid, "next:table", not bad,
           "FilterPartIterator::next yields nothing for Empty, the one pattern of Simple exactly when the cursor is 0, "
           "element [cursor] of AnyOf exactly while cursor < len, and moves the cursor by one with every pattern it yields "
           f"(so `any` over the iterator sees every pattern of a fused rule once); deviations: {bad[:3]}",
           site=nxt.loc(0), config=cfg)
    # len()
    lrows = {}
    for p in enumerate_paths(ln):
        if p.end == "return":
            lrows[vname(p.conds)] = path_value(ln, p, 0)
    lok = (lrows.get("Empty") == "0" and lrows.get("Simple") == "1"
           and re.match(r"^std::vec::Vec::len\(.*@AnyOf\.0\)$", lrows.get("AnyOf") or "") is not None and len(lrows) == 3)
    run.ob(rid, "len:table", lok,
           "the iterator's len() is 0 for Empty, 1 for Simple and the vector's length for AnyOf: the leaf matchers treat "
           f"`len() == 0` as `the rule has no pattern and matches every URL` (found {lrows})", site=ln.loc(0), config=cfg)
    # constructions
    cons = []
    for f in F.fns.values():
        if f.j.get("kind") == "Derive" or "as std::clone::Clone>::clone" in f.name:
            continue
        for b, i, s in f.statements():
            if s["k"] == "assign" and s["rv"]["k"] == "agg" and str(s["rv"].get("adt", "")).endswith("FilterPartIterator"):
                cons.append((f.name, f.expr_rvalue(s["rv"]), f.loc(b, i)))
    want = "filters::network::FilterPartIterator::FilterPartIterator{filter_part: arg:self, index: 0}"
    cok = len(cons) >= 1 and all(n == "filters::network::FilterPart::iter" and e == want for n, e, _ in cons)
    run.ob(rid, "starts-at-zero", cok,
           "the only construction of the iterator is FilterPart::iter(), with the cursor at 0 on the part itself "
           f"(found {[(n, e[-60:]) for n, e, _ in cons][:3]})", site=cons[0][2] if cons else nxt.loc(0), config=cfg)
