"""C19 — thread-safe build: concurrent queries equal sequential ones."""
import hashlib
import json
import re

from analysis.facts import strip_generics
from analysis import a7
from rules import a7_common
from . import C06 as _C06

EXPLANATION = (
    "The schedule quantifier is discharged by type- and lock-structure arguments: (1) trait-solver "
    "facts — in the thread-safe configuration (B, and E with regex-debug-info) Engine: Send + Sync, in "
    "the default configuration Engine is not Sync (the RefCell build cannot be shared by accident); "
    "a compile_fail/compile-pass doctest pair in /verif/witness re-states this as a witness (thorough "
    "tier); (2) the manual `unsafe impl Send for RegexManager` is vacuous: every field under it already "
    "implements Send; (3) single lock, whole query, no re-entry — Blocker.regex_manager is a single "
    "Mutex<RegexManager>, touched only by borrow_regex_manager, and no function reachable from a call "
    "site that follows an acquisition acquires it again (re-entrant Mutex::lock deadlocks, RefCell "
    "panics); the guard is never stored in a field or returned beyond borrow_regex_manager; (4) no other "
    "shared mutable state and cache purity are C06.1-3 evaluated in configuration B; (5) configuration "
    "diff — the MIR of the two builds is identical function by function except for the functions that "
    "hold the guard type and the Blocker constructors, which is the argument that both builds give "
    "identical answers; (6) no poisoning — every panic-capable site (asserts, unwrap/expect, indexing, "
    "time arithmetic, ...) in the cone of the functions that hold the MutexGuard is discharged by the "
    "reviewed A7 table with a basis that holds for any engine state (same table as C10.3)."
)
NOT_DECIDED = ("Fairness / performance under contention; panics inside dependencies (regex, seahash) that "
               "are not expressed as a panic-capable call in this crate's MIR.")


def check(run):
    A = run.facts("A")
    for cfg in ("B", "E"):
        F = run.facts(cfg)
        run.guard("C19.1.send-sync", cfg, lambda: rule_send_sync(run, F, A, cfg))
        run.guard("C19.2.unsafe-impl-vacuous", cfg, lambda: rule_unsafe(run, F, cfg))
        run.guard("C19.3.single-lock", cfg, lambda: rule_lock(run, F, cfg))
        run.guard("C19.4.no-panic-under-lock", cfg, lambda: rule_poison(run, F, cfg))
        if cfg == "B":
            b = run.borrow("C06", why="answers are schedule-independent only if the shared regex cache is semantically "
                                      "transparent and nothing else is mutated by a query")
            run.guard("C19.via.C06.1.interior-mutability", cfg, lambda: _C06.rule_im(b, F, cfg))
            run.guard("C19.via.C06.2.pure-cache", cfg, lambda: _C06.rule_pure_cache(b, F, cfg))
            run.guard("C19.via.C06.3.cache-key-validity", cfg, lambda: _C06.rule_cache_key(b, F, cfg))
    run.guard("C19.3.single-lock", "A", lambda: rule_lock(run, A, "A"))
    run.guard("C19.5.config-diff", "A/B", lambda: rule_diff(run, A, run.facts("B")))


def rule_poison(run, F, cfg):
    """a panic while the MutexGuard is live poisons the lock for every later query: audit every
    panic-capable site in the cone of the functions that acquire it (the guard lives to their end)"""
    holders = sorted(set(g.name.split("::{closure")[0]
                         for g, b, t in F.callers_of(r"^blocker::Blocker::borrow_regex_manager$")))
    run.floor("C19.4.no-panic-under-lock", f"functions holding the regex lock [{cfg}]", len(holders), 5)
    a7.check_cone(run, "C19.4.no-panic-under-lock", F, cfg, holders, a7_common.rows(),
                  a7_common.NO_PARSE_INVARIANT, floor=40, label="code running under the regex-manager lock")


def rule_send_sync(run, F, A, cfg):
    e = F.adt("engine::Engine")
    run.ob("C19.1.send-sync", "Engine:Send+Sync", e["send"] and e["sync"],
           f"trait solver: engine::Engine: Send={e['send']} Sync={e['sync']} in the thread-safe configuration",
           config=cfg)
    a = A.adt("engine::Engine")
    run.ob("C19.1.send-sync", "Engine:!Sync-in-default", not a["sync"],
           f"trait solver: in the default (RefCell) configuration Engine: Sync={a['sync']} — it cannot be shared "
           f"between threads by accident", config=cfg)
    b = F.adt("blocker::Blocker")
    fld = [f for f in F.fields("blocker::Blocker") if f["name"] == "regex_manager"]
    ok = len(fld) == 1 and fld[0]["ty"] == "std::sync::Mutex<regex_manager::RegexManager>"
    run.ob("C19.1.send-sync", "regex_manager:single-mutex", ok,
           f"Blocker.regex_manager is one std::sync::Mutex<RegexManager> ({fld[0]['ty'] if fld else None}); "
           f"several caches (per thread / sharded) would have to be invalidated together", config=cfg)
    # every field of Engine's type graph is Sync in B
    bad = []
    for n, adt in F.adts.items():
        if n not in ("engine::Engine", "blocker::Blocker", "cosmetic_filter_cache::CosmeticFilterCache",
                     "resources::resource_storage::ResourceStorage", "network_filter_list::NetworkFilterList",
                     "filters::network::NetworkFilter"):
            continue
        for v in adt["variants"]:
            for f in v["fields"]:
                if not f.get("sync", True) or not f.get("send", True):
                    bad.append((n, f["name"], f["ty"]))
    run.ob("C19.1.send-sync", "fields-send-sync", not bad,
           f"every field of Engine / Blocker / caches / NetworkFilter is Send + Sync ({bad[:2]})", config=cfg)


def rule_unsafe(run, F, cfg):
    un = [i for i in F.impls if i.get("unsafe") and i.get("trait") in ("std::marker::Send", "std::marker::Sync")]
    names = sorted((i["self"], i["trait"]) for i in un)
    run.ob("C19.2.unsafe-impl-vacuous", "inventory", names == [("regex_manager::RegexManager", "std::marker::Send")],
           f"the only manual unsafe Send/Sync impl in the crate is `unsafe impl Send for RegexManager` ({names})",
           config=cfg)
    bad = []
    n = 0
    for t in ("regex_manager::RegexManager", "regex_manager::RegexEntry", "regex_manager::CompiledRegex",
              "regex_manager::RegexManagerDiscardPolicy"):
        for v in F.adt(t)["variants"]:
            for f in v["fields"]:
                n += 1
                if not f["send"]:
                    bad.append((t, f["name"], f["ty"]))
    run.ob("C19.2.unsafe-impl-vacuous", "fields-already-send", not bad and n >= 9,
           f"all {n} fields underneath the unsafe impl implement Send according to the trait solver, so the "
           f"impl hides nothing ({bad[:2]})", config=cfg,
           detail="a non-Send field (Rc, raw pointer, Cell) added under the unsafe impl would be silently "
                  "shipped across threads")


def rule_lock(run, F, cfg):
    B = "blocker::Blocker::borrow_regex_manager"
    # who touches the field
    touch = set()
    for n, f in F.fns.items():
        for b, i, s in f.statements():
            if s["k"] != "assign":
                continue
            for pl in [s["pl"], s["rv"].get("pl"), (s["rv"].get("op") or {}).get("pl") if isinstance(s["rv"].get("op"), dict) else None]:
                if not pl:
                    continue
                for p in pl["p"]:
                    if isinstance(p, dict) and p.get("adt") == "blocker::Blocker" and p.get("n") == "regex_manager":
                        touch.add(n)
    run.ob("C19.3.single-lock", "who-may-access", touch <= {B},
           f"field Blocker.regex_manager is accessed only by borrow_regex_manager (accessors: {sorted(touch)}); "
           f"constructors build it in aggregates", config=cfg)
    # lock is taken exactly once inside borrow_regex_manager
    bf = F.fn(B)
    locks = bf.calls(r"^std::sync::Mutex::lock$|^std::cell::RefCell::borrow_mut$")
    run.ob("C19.3.single-lock", "one-acquisition", len(locks) == 1,
           f"borrow_regex_manager acquires the lock / borrow exactly once ({len(locks)})", site=bf.loc(0), config=cfg)
    # no re-entry
    callers = F.callers_of(r"^blocker::Blocker::borrow_regex_manager$")
    n = 0
    for f, b, t in callers:
        n += 1
        after = f.reachable_from(b)
        # more than one acquisition in the same function while the first guard may be live
        again = [b2 for b2, t2 in f.calls(r"^blocker::Blocker::borrow_regex_manager$") if b2 in after and b2 != b]
        bad = []
        for b2 in sorted(after):
            t2 = f.blocks[b2]["t"]
            if t2["k"] != "call" or b2 == b:
                continue
            roots = set()
            if t2["callee"] in F.fns:
                roots.add(t2["callee"])
            for a in t2["args"]:
                if a.get("k") == "const" and a.get("closure") in F.fns:
                    roots.add(a["closure"])
            # closures created in f and passed along
            if roots:
                cone = F.cone(roots)
                if B in cone:
                    p = F.path_to(roots, B)
                    bad.append((f.loc(b2), " -> ".join(p or [])))
        # closures defined in f are part of f's behaviour
        for c in F.closures_of(f.name):
            if B in F.cone([c.name]):
                bad.append((c.loc(0), c.name))
        run.ob("C19.3.single-lock", f"no-reentry:{f.name}#{n}", not bad and not again,
               f"{f.name}: after acquiring the regex manager no reachable call acquires it again "
               f"(re-entrant Mutex::lock deadlocks; RefCell::borrow_mut panics); offending: {(bad + again)[:2]}",
               site=f.loc(b), config=cfg)
        run.touched(f)
    run.floor("C19.3.single-lock", f"acquisition sites [{cfg}]", n, 6)
    # the guard type is never a field and is returned only by borrow_regex_manager
    guard_rx = re.compile(r"MutexGuard<|RefMut<")
    fields = [(n2, f["name"]) for n2, a in F.adts.items() for v in a["variants"] for f in v["fields"] if guard_rx.search(f["ty"])]
    rets = [n2 for n2, f in F.fns.items() if guard_rx.search(f.j.get("sig", "").split("->")[-1]) and n2 != B]
    run.ob("C19.3.single-lock", "guard-not-stored", not fields and not rets,
           f"the lock guard is never stored in a struct ({fields}) nor returned by any function other than "
           f"borrow_regex_manager ({rets})", config=cfg)


def _strip(o):
    if isinstance(o, dict):
        return {k: _strip(v) for k, v in o.items() if k not in ("sp", "span", "body_span", "repr")}
    if isinstance(o, list):
        return [_strip(x) for x in o]
    return o


def _h(f):
    return hashlib.sha256(json.dumps(_strip(f.mir), sort_keys=True).encode()).hexdigest()


def rule_diff(run, A, B):
    only_a = sorted(set(A.fns) - set(B.fns))
    only_b = sorted(set(B.fns) - set(A.fns))
    ok_set = not only_a and all(n.startswith("engine::_assertions") for n in only_b)
    run.ob("C19.5.config-diff", "function-sets", ok_set,
           f"the two builds define the same functions except the Send/Sync assertion items "
           f"(only in default: {only_a[:3]}; only in thread-safe: {only_b[:4]})", config="A/B")
    diff = sorted(n for n in A.fns if n in B.fns and _h(A.fns[n]) != _h(B.fns[n]))
    holders = set(f.name.split("::{closure")[0] for f, b, t in B.callers_of(r"^blocker::Blocker::borrow_regex_manager$"))
    allowed = holders | {"blocker::Blocker::borrow_regex_manager", "blocker::Blocker::new"}
    # constructors of Blocker (aggregate of a struct whose field type differs)
    for n, f in B.fns.items():
        for b, i, s in f.statements():
            if s["k"] == "assign" and s["rv"]["k"] == "agg" and s["rv"].get("adt") == "blocker::Blocker":
                allowed.add(n)
    extra = [n for n in diff if n.split("::{closure")[0] not in allowed]
    run.ob("C19.5.config-diff", "mir-identical-elsewhere", not extra,
           f"of {len(A.fns)} functions, {len(diff)} differ between the default and the thread-safe build; all "
           f"of them hold the guard type or construct a Blocker. Unexpected differences: {extra[:4]}",
           config="A/B",
           detail="a thread_local / static-mut / cfg-gated fast path in one configuration only would show up "
                  "here as a function whose MIR differs")
    run.extra["config_diff"] = {"functions": len(A.fns), "differing": diff}
