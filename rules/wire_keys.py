"""Established JSON keys of the types that callers hand to the library as external data (resource lists, parse
options). The derived Deserialize impls mark every one of these fields `#[serde(default)]` and ignore unknown keys,
so renaming the accepted key does not produce an error: the existing document still loads, with the field silently
defaulted (permission 0 = unrestricted; rule_types = All). The rule reads the key -> field table out of the derived
`__FieldVisitor::visit_str` (serde attributes themselves are invisible in HIR) and requires

  * every established key is still accepted for the field it names (aliases may be added freely), and
  * the derived Serialize of the same type writes a key its own Deserialize accepts for that very field.

The key strings are part of the documented interchange format (resource JSON produced by the resource assembler and
shipped separately from the library; ParseOptions passed from the JS bindings), not an implementation detail:
no behaviour-preserving edit changes them."""
from analysis import serde_shape as S

RESOURCE = {
    "resources::Resource": ["name", "aliases", "kind", "content", "dependencies", "permission"],
}
RESOURCE_VARIANTS = {
    "resources::ResourceType": {"mime": "Mime", "template": "Template"},
}
OPTIONS = {
    "lists::ParseOptions": ["format", "rule_types", "permissions"],
}
OPTIONS_VARIANTS = {
    "lists::RuleTypes": {"All": "All", "NetworkOnly": "NetworkOnly", "CosmeticOnly": "CosmeticOnly"},
    "lists::FilterFormat": {"Standard": "Standard", "Hosts": "Hosts"},
}


def _names(F, ty):
    a = F.adts.get(ty)
    if a is None:
        return None, None
    if a["kind"] == "Enum":
        return "variant", [v["name"] for v in a["variants"]]
    return "field", [f["name"] for f in a["variants"][0]["fields"]]


def rule_keys(run, rid, F, cfg, structs, enums, why):
    n = 0
    for ty, table in list(structs.items()) + list(enums.items()):
        kind, names = _names(F, ty)
        dk = S.de_keys(F, ty)
        short = ty.split("::")[-1]
        if names is None or dk is None:
            run.ob(rid, f"{short}:derived-field-visitor", False,
                   f"no derived keyed Deserialize found for `{ty}`", status="UNDISCHARGED", config=cfg)
            continue
        v = S.field_visitor(F, ty)
        run.touched(v)
        pairs = list(table.items()) if isinstance(table, dict) else [(k, k) for k in table]
        for pos, (key, member) in enumerate(pairs):
            got = dk.get(key, "absent")
            # the member is identified by its name; if it was renamed in the source (with a serde rename that keeps
            # the wire key) by its declared position, provided the member list still has the reviewed length
            want = names.index(member) if member in names else (pos if len(names) == len(table) else None)
            n += 1
            run.ob(rid, f"{short}.{member}:key", want is not None and got == want,
                   f"the derived Deserialize of {ty} accepts the established key \"{key}\" for {kind} `{member}` "
                   f"(position {want}); found: {got!r}. {why}", site=v.loc(0), config=cfg,
                   detail=f"accepted keys: {dk}")
        ss = S.ser_struct(F, ty)
        if ss is not None:
            run.touched(ss["fn"])
            for i, (key, b) in enumerate(ss["fields"]):
                n += 1
                run.ob(rid, f"{short}[{i}]:writer-reader-agree", dk.get(key, "absent") == i,
                       f"the derived Serialize of {ty} writes field {i} under \"{key}\"; its Deserialize maps that key "
                       f"to {dk.get(key, 'absent')!r}", site=ss["fn"].loc(b), config=cfg)
    return n
