"""Established JSON keys of the types that callers hand to the library as external data (resource lists, parse
options). The derived Deserialize impls mark every one of these fields `#[serde(default)]` and ignore unknown keys,
so renaming the accepted key does not produce an error: the existing document still loads, with the field silently
defaulted (permission 0 = unrestricted; rule_types = All). The rule reads the key -> field table out of the derived
`__FieldVisitor::visit_str` (serde attributes themselves are invisible in HIR) and requires

  * every established key is still accepted for the field it names (aliases may be added freely), and
  * the derived Serialize of the same type writes a key its own Deserialize accepts for that very field.

The key strings are part of the documented interchange format (resource JSON produced by the resource assembler and
shipped separately from the library; ParseOptions passed from the JS bindings), not an implementation detail:
no behaviour-preserving edit changes them."""
from analysis import serde_shape as S

RESOURCE = {
    "resources::Resource": ["name", "aliases", "kind", "content", "dependencies", "permission"],
}
RESOURCE_VARIANTS = {
    "resources::ResourceType": {"mime": "Mime", "template": "Template"},
}
OPTIONS = {
    "lists::ParseOptions": ["format", "rule_types", "permissions"],
}
OPTIONS_VARIANTS = {
    "lists::RuleTypes": {"All": "All", "NetworkOnly": "NetworkOnly", "CosmeticOnly": "CosmeticOnly"},
    "lists::FilterFormat": {"Standard": "Standard", "Hosts": "Hosts"},
}


def _names(F, ty):
    a = F.adts.get(ty)
    if a is None:
        return None, None
    if a["kind"] == "Enum":
        return "variant", [v["name"] for v in a["variants"]]
    return "field", [f["name"] for f in a["variants"][0]["fields"]]


def rule_keys(run, rid, F, cfg, structs, enums, why):
    n = 0
    for ty, table in list(structs.items()) + list(enums.items()):
        kind, names = _names(F, ty)
        dk = S.de_keys(F, ty)
        short = ty.split("::")[-1]
        if names is None or dk is None:
            run.ob(rid, f"{short}:derived-field-visitor", False,
                   f"no derived keyed Deserialize found for `{ty}`", status="UNDISCHARGED", config=cfg)
            continue
        v = S.field_visitor(F, ty)
        run.touched(v)
        pairs = list(table.items()) if isinstance(table, dict) else [(k, k) for k in table]
        for pos, (key, member) in enumerate(pairs):
            got = dk.get(key, "absent")
            # the member is identified by its name; if it was renamed in the source (with a serde rename that keeps
            # the wire key) by its declared position, provided the member list still has the reviewed length
            want = names.index(member) if member in names else (pos if len(names) == len(table) else None)
            n += 1
            run.ob(rid, f"{short}.{member}:key", want is not None and got == want,
                   f"the derived Deserialize of {ty} accepts the established key \"{key}\" for {kind} `{member}` "
                   f"(position {want}); found: {got!r}. {why}", site=v.loc(0), config=cfg,
                   detail=f"accepted keys: {dk}")
        ss = S.ser_struct(F, ty)
        if ss is not None:
            run.touched(ss["fn"])
            for i, (key, b) in enumerate(ss["fields"]):
                n += 1
                run.ob(rid, f"{short}[{i}]:writer-reader-agree", dk.get(key, "absent") == i,
                       f"the derived Serialize of {ty} writes field {i} under \"{key}\"; its Deserialize maps that key "
                       f"to {dk.get(key, 'absent')!r}", site=ss["fn"].loc(b), config=cfg)
    return n


# IANA media types (plus the crate's own `fn/javascript`): they come from resource bundles written by other tools and go
# out in `data:` URLs that browsers interpret
MIME = {
    "text/css": "TextCss", "image/gif": "ImageGif", "text/html": "TextHtml",
    "application/javascript": "ApplicationJavascript", "application/json": "ApplicationJson", "audio/mp3": "AudioMp3",
    "video/mp4": "VideoMp4", "image/png": "ImagePng", "text/plain": "TextPlain", "text/xml": "TextXml",
    "fn/javascript": "FnJavascript",
}


def rule_mime(run, rid, F, cfg):
    """`MimeType::from(&str)` reads each established media type as its variant (anything else: Unknown), and
    `<&str>::from(&MimeType)` writes the same string back — that string is the media type of the `data:` URL a redirect
    is answered with. Changing both tables alike keeps them consistent with each other and wrong for everybody else."""
    import re
    from analysis.pathinterp import enumerate_paths, path_value
    r = F.fns.get("<resources::MimeType as std::convert::From<&str>>::from")
    w = F.fns.get("resources::<impl std::convert::From<&resources::MimeType> for &str>::from")
    if r is None or w is None:
        run.ob(rid, "MimeType:conversions", False, "MimeType <-> &str conversions not found", status="UNDISCHARGED", config=cfg)
        return 0
    run.touched(r, w)
    read = {}
    for p in enumerate_paths(r):
        if p.end != "return":
            continue
        val = re.sub(r"^resources::MimeType::(\w+)\{\}$", r"\1", path_value(r, p, 0) or "")
        hit = [re.search(r'eq\(arg:v, "([^"]*)"\)$', e).group(1) for e, v in p.conds if v == 1 and re.search(r'eq\(arg:v, "([^"]*)"\)$', e)]
        read[hit[-1] if hit else "<other>"] = val
    variants = [v["name"] for v in F.adt("resources::MimeType")["variants"]]
    written = {}
    for p in enumerate_paths(w):
        if p.end != "return":
            continue
        d = [v for e, v in p.conds if e == "discr(arg:v)"]
        if d and isinstance(d[0], int) and d[0] < len(variants):
            written[variants[d[0]]] = (path_value(w, p, 0) or "").strip('"')
    want_read = dict(MIME, **{"<other>": "Unknown"})
    run.ob(rid, "MimeType:read", read == want_read,
           f"MimeType::from(&str) maps the established media types to their variants and everything else to Unknown "
           f"(differences: { {k: (read.get(k), want_read.get(k)) for k in set(read) | set(want_read) if read.get(k) != want_read.get(k)} })",
           site=r.loc(0), config=cfg)
    want_written = {v: k for k, v in MIME.items()}
    got_w = {k: v for k, v in written.items() if k != "Unknown"}
    run.ob(rid, "MimeType:written", got_w == want_written,
           f"<&str>::from(&MimeType) writes each variant as its established media type "
           f"(differences: { {k: (got_w.get(k), want_written.get(k)) for k in set(got_w) | set(want_written) if got_w.get(k) != want_written.get(k)} })",
           site=w.loc(0), config=cfg)
    return len(read) + len(written)


DERIVED_DESERIALIZE = ["resources::PermissionMask", "resources::Resource", "resources::ResourceType", "lists::ParseOptions",
                       "lists::RuleTypes", "lists::FilterFormat"]


def rule_derived(run, rid, F, cfg, types=DERIVED_DESERIALIZE):
    """The types read from caller-supplied JSON decode through serde's derived code, which reports a value of the wrong
    shape or range as an error (the whole resource list is then refused). A hand-written impl can quietly turn such a
    value into a default — for `PermissionMask` that default means "needs no permission"."""
    import re
    n = 0
    for ty in types:
        cands = [f for nme, f in F.fns.items() if re.search(r"Deserialize<'de>(>)? for " + re.escape(ty) + r">::deserialize$", nme)
                 or re.search(r"^<" + re.escape(ty) + r" as .*Deserialize<'de>>::deserialize$", nme)]
        derived = [f for f in cands if isinstance(f.j.get("span"), dict) and any("Derive" in x and "Deserialize" in x for x in f.j["span"].get("exp", []))]
        n += len(derived)
        run.ob(rid, f"{ty.split('::')[-1]}:deserialize-is-derived", len(cands) == 1 and len(derived) == 1,
               f"`{ty}` is decoded by serde's derived Deserialize ({[c.name[:80] for c in cands]}; derived: {len(derived)})",
               site=cands[0].loc(0) if cands else "", config=cfg)
    return n
