"""Shared extraction of the rule-routing decision tables (T_route) of Blocker::new,
Blocker::add_filter and Blocker::filter_exists with the path interpreter (A4)."""
import itertools
import re

from analysis.pathinterp import enumerate_paths, path_calls, CannotDecide
from analysis.facts import AnchorMissing, strip_generics

PREDS = ["is_badfilter", "bad_id", "exists", "is_redirect", "also_block_redirect", "is_csp",
         "is_removeparam", "is_generic_hide", "is_exception", "is_important", "tag"]

BLOCKER_LISTS = ["csp", "exceptions", "importants", "redirects", "removeparam", "filters_tagged",
                 "filters", "generic_hide"]

# valuations NetworkFilter::parse can never produce (each with the reason and the parse-side anchor)
INFEASIBLE = [
    ("generichide without exception",
     lambda v: v["is_generic_hide"] and not v["is_exception"],
     "NetworkFilterError::GenericHideWithoutException"),
    ("removeparam with exception",
     lambda v: v["is_removeparam"] and v["is_exception"],
     "NetworkFilterError::RemoveparamWithException"),
    ("more than one modifier option (csp / redirect / removeparam)",
     lambda v: (v["is_csp"] + v["is_redirect"] + v["is_removeparam"]) > 1,
     "NetworkFilterError::MultipleModifierOptions"),
    ("ALSO_BLOCK_REDIRECT is only set together with IS_REDIRECT (Redirect arm of parse)",
     lambda v: v["also_block_redirect"] and not v["is_redirect"], None),
]


def pred_key(subject_rx):
    """maps a canonical discriminant expression to a short predicate name, checking the subject"""
    rx_helper = re.compile(r"NetworkFilterMaskHelper::(\w+)\((.*)\)$")

    def key(e):
        m = rx_helper.search(e)
        if m:
            if not re.search(subject_rx, m.group(2)):
                return "foreign:" + m.group(1)
            return m.group(1)
        m = re.search(r"Option::is_some\((.*)\.tag\)$", e)
        if m:
            return "tag" if re.search(subject_rx, m.group(1)) else "foreign:tag"
        if re.search(r"HashSet::contains\(.*get_id_without_badfilter.*get_id\(", e) or \
                re.search(r"HashSet::contains\(.*,\s*filters::network::NetworkFilter::get_id\(", e):
            return "bad_id"
        if re.search(r"blocker::Blocker::filter_exists\(arg:self, arg:filter\)$", e):
            return "exists"
        return None
    return key


def _field_of(expr):
    m = re.search(r"arg:self\.(\w+)", expr)
    return m.group(1) if m else None


class Table:
    """decision table: list of (conds: {pred: 0/1}, dests: frozenset, path)"""

    def __init__(self, name):
        self.name = name
        self.rows = []
        self.unknown_conds = set()
        self.list_guards = set()

    def eval(self, v):
        """union of destination sets of rows consistent with total valuation v; None if no row"""
        hit = None
        for conds, dests, _ in self.rows:
            if all(v.get(k) == val for k, val in conds.items()):
                hit = dests if hit is None else (hit | dests)
        return hit


def feasible(v):
    for _why, pred, _a in INFEASIBLE:
        if pred(v):
            return False
    return True


def valuations(fixed=None):
    fixed = fixed or {}
    free = [p for p in PREDS if p not in fixed]
    for bits in itertools.product((0, 1), repeat=len(free)):
        v = dict(fixed)
        v.update(zip(free, bits))
        yield v


def table_new(F):
    """T_route(Blocker::new): per loop-body path, which Blocker list fields receive the rule"""
    f = F.fn("blocker::Blocker::new")
    # map constructor sites of the temporary Vecs to the Blocker field they initialise
    site2field = {}
    with f.sites():
        for b, i, s in f.statements():
            if s["k"] == "assign" and s["rv"]["k"] == "agg" and s["rv"].get("adt") == "blocker::Blocker":
                for fname, op in zip(s["rv"]["fields"], s["rv"]["ops"]):
                    e = f.expr_operand(op)
                    for m in re.finditer(r"std::vec::Vec::with_capacity@(bb\d+)", e):
                        # NetworkFilterList::new(<vec>, opt) or the Vec itself (tagged_filters_all)
                        site2field.setdefault(m.group(1), fname)
        if not site2field:
            raise AnchorMissing("Blocker aggregate in Blocker::new not found")
        key = pred_key(r"Iterator>::next(@bb\d+)?\(arg:network_filters\)@Some\.0")
        t = Table("Blocker::new")
        for p in enumerate_paths(f, inline=F):
            conds = {}
            in_second_loop = False
            for e, val in p.conds:
                e2 = re.sub(r"@bb\d+", "", e)
                if re.search(r"^discr\(<std::vec::IntoIter.*Iterator>::next\(arg:network_filters\)\)$", e2):
                    in_second_loop = (val == 1)
                    continue
                k = key(e2)
                if k is None:
                    continue
                if k.startswith("foreign:"):
                    continue
                conds[k] = 1 if val == 1 else 0
            if not in_second_loop or not p.end.startswith("backedge"):
                continue
            # conditions on the whole list under which the routing loop runs at all
            for e, val in p.conds:
                e2 = re.sub(r"@bb\d+", "", e)
                if re.search(r"Vec::(is_empty|len)\(arg:network_filters\)", e2) or re.search(r"\(.*arg:network_filters.*\) (Eq|Ne|Gt|Lt|Ge|Le) ", e2):
                    t.list_guards.add((e2, val))
            dests = set()
            for b, tm in path_calls(f, p, r"std::vec::Vec::push$"):
                e = f.expr_operand(tm["args"][0])
                m = re.search(r"std::vec::Vec::with_capacity@(bb\d+)", e)
                val = re.sub(r"@bb\d+", "", f.expr_operand(tm["args"][1]))
                if not re.search(r"IntoIter.*next\(arg:network_filters\)@Some\.0", val):
                    continue  # first loop's badfilters.push(&filter)
                if m and m.group(1) in site2field:
                    dests.add(site2field[m.group(1)])
                else:
                    dests.add("?" + e[:60])
            t.rows.append((conds, frozenset(dests), p))
    return t, site2field


def table_add(F):
    f = F.fn("blocker::Blocker::add_filter")
    key = pred_key(r"^arg:filter$")
    t = Table("Blocker::add_filter")
    order_violations = []
    for p in enumerate_paths(f, inline=F):
        conds = {}
        for e, val in p.conds:
            k = key(e)
            if k is None or k.startswith("foreign:"):
                continue
            conds[k] = 1 if val == 1 else 0
        if p.end != "return":
            continue
        dests = set()
        exists_pos = None
        first_event_pos = None
        for pos, b in enumerate(p.blocks):
            tm = f.blocks[b]["t"]
            if tm["k"] != "call":
                continue
            c = strip_generics(tm["callee"])
            if c == "blocker::Blocker::filter_exists":
                exists_pos = pos
            if c == "network_filter_list::NetworkFilterList::add_filter":
                fld = _field_of(f.expr_operand(tm["args"][0]))
                dests.add(fld or "?")
                first_event_pos = pos if first_event_pos is None else first_event_pos
            elif c == "std::vec::Vec::push":
                fld = _field_of(f.expr_operand(tm["args"][0]))
                if fld:
                    dests.add(fld)
                    first_event_pos = pos if first_event_pos is None else first_event_pos
        if first_event_pos is not None and (exists_pos is None or exists_pos > first_event_pos):
            order_violations.append(p)
        t.rows.append((conds, frozenset(dests), p))
    return t, order_violations


def table_exists(F):
    f = F.fn("blocker::Blocker::filter_exists")
    key = pred_key(r"^arg:filter$")
    t = Table("Blocker::filter_exists")
    for p in enumerate_paths(f, inline=F):
        conds = {}
        for e, val in p.conds:
            k = key(e)
            if k is None or k.startswith("foreign:"):
                continue
            conds[k] = 1 if val == 1 else 0
        if p.end not in ("return",) and not p.end.startswith("backedge"):
            continue
        probed = set()
        for b in p.blocks:
            blk = f.blocks[b]
            tm = blk["t"]
            exprs = []
            if tm["k"] == "call":
                exprs += [f.expr_operand(a) for a in tm["args"]]
            for s in blk["s"]:
                if s["k"] == "assign":
                    exprs.append(f.expr_rvalue(s["rv"], depth=0))
            for e in exprs:
                for m in re.finditer(r"arg:self\.(\w+)", e):
                    probed.add(m.group(1))
        t.rows.append((conds, frozenset(probed), p))
    return t


def fmt_val(v, keys=None):
    keys = keys or [k for k in PREDS if v.get(k)]
    return "{" + ",".join(k for k in keys if v.get(k)) + "}"


def ambiguous(tn):
    """first feasible valuation for which rows consistent with it store the rule in different lists
    (routing depends on a decision outside the modelled predicates), with the unmodelled decisions"""
    for v in valuations({"exists": 0}):
        if not feasible(v):
            continue
        ds = set()
        rows = []
        for conds, dests, p in tn.rows:
            if all(v.get(k) == val for k, val in conds.items()):
                ds.add(dests)
                rows.append(p)
        if len(ds) > 1:
            unk = set()
            for p in rows:
                for e, val in p.conds:
                    if "NetworkFilterMaskHelper" not in e and ".tag)" not in e and "IntoIter" not in e \
                            and e != "φ{false | true}" and "core::slice::iter(arg:network_filters)" not in e \
                            and "get_id_without_badfilter" not in e and "Vec::is_empty(arg:network_filters)" not in e:
                        unk.add(e[:140])
            return v, ds, sorted(unk)
    return None
