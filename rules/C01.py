"""C01 — engine verdict equals rule-by-rule evaluation (index completeness)."""
import re

from analysis.facts import strip_generics
from analysis.guards import dominating_conditions, conditional_defs, has_cond
from analysis.pathinterp import enumerate_paths, path_calls, path_value
from . import routing as R
from . import C05 as _C05

EXPLANATION = (
    "The verdict equality over all lists and URLs is a runtime quantity and is NOT decided. Decided are the "
    "index-soundness obligations without which a matching rule can be lost or a foreign bucket consulted: "
    "(1) token-source agreement — every Hash that reaches the key of insert_dup in NetworkFilterList::new / "
    "add_filter is the constant 0 or a token of that same filter's get_tokens(), the best-token search is "
    "re-initialised per token group, get_tokens pushes only tokenize_filter / tokenize / opt_domains / "
    "fast_hash(\"http(s)\") values, the request probes tokenize_pooled(lower-cased url) plus the source "
    "hostname hashes plus 0, and all three tokenizer wrappers call fast_tokenizer_no_regex with the same "
    "classifier is_allowed_filter; (2) fallback bucket — Vec::push(0) post-dominates the tokenizer call in "
    "calculate_tokens; (3) exhaustive probing — check_all returns only through the empty-map branch or the "
    "exhausted outer iterator, check additionally through Some(filter) under matches() and the tag gate, and "
    "both iterate request.get_tokens_for_match() unmodified; (4) token-boundary soundness — on every path "
    "of get_tokens to tokenize_filter, !is_left_anchor => skip_first_token and !is_right_anchor => "
    "skip_last_token (an un-pinned end of the pattern need not fall on a token boundary of the URL), and "
    "the tokenizer drops tokens adjacent to '*'; (5) routing totality — every parsed, non-cancelled rule "
    "reaches a list that some query probes (T_route, shared with C04)."
    " Later additions: (6) what the request tokenizer emits, as truth tables of its two decision regions walked edge by edge (the `*` tests apply to filter text only: request URLs are tokenized with wildcards = false), the token cap is at least the 127 of the property's premise; (7) de-duplication identity: insert_dup's ordering / equality reads the stored line hash; the public entry points between the parsers and the stores drop no rule, and the structural id (which ignores the tag) is used for $badfilter matching only; (8) visit-all loops (list construction, probing) contain no truncating iterator adapter and no `break`."
    " Round 6: the functions that file rules into the engine's lists call nothing that takes elements out of a collection again (retain / dedup / truncate / remove / clear)."
    ' Round 8: every list that can hold tagged rules is probed with the enabled tag set (C07.1 borrowed).'
)
NOT_DECIDED = ("Verdict equality on concrete (list, request) pairs; the precedence combination over concrete hits "
               "(skeleton: C04.2); the 127-token truncation; 64-bit hash collisions; each leaf matcher (C02).")

NL = "network_filter_list::NetworkFilterList::"
H = "filters::network::NetworkFilterMaskHelper::"


SHRINKING_CALLS = re.compile(
    r"^std::vec::Vec::(retain|retain_mut|dedup|dedup_by|dedup_by_key|truncate|remove|swap_remove|clear|"
    r"extract_if)$|^std::collections::(HashMap|HashSet)::(retain|remove|clear|extract_if)$|"
    r"^(itertools|blocker::_::itertools)::Itertools::(dedup|dedup_by|unique|unique_by)$")


def rule_no_shrink(run, F, cfg):
    """Who-may-call rule for the functions that sort parsed rules into the engine's lists (Blocker::new,
    Blocker::add_filter, Blocker::tags_with_set, NetworkFilterList::new / add_filter): once a rule has been put
    into a list nothing takes it out again -- no retain / dedup / truncate / remove / clear on the collections
    these functions build (`drain`, `pop` and `split_off` hand the elements on and are not restricted). (What may be left out is decided before the push, by the routing table of C04.1 and the
    identity rule C01.7; capacity calls such as shrink_to_fit do not change the content.)"""
    roots = ["blocker::Blocker::new", "blocker::Blocker::add_filter", "blocker::Blocker::tags_with_set",
             "network_filter_list::NetworkFilterList::new", "network_filter_list::NetworkFilterList::add_filter"]
    found = []
    n = 0
    for r in roots:
        fs = [f for nme, f in F.fns.items() if nme == r or nme.startswith(r + "::")]
        if not fs:
            run.ob("C01.5.routing-total", f"no-shrinking-call:{r.split('::')[-1]}", False, f"function `{r}` not found",
                   status="UNDISCHARGED", config=cfg)
            continue
        for f in fs:
            run.touched(f)
            for b, t in f.calls():
                n += 1
                c = strip_generics(t["callee"])
                if SHRINKING_CALLS.search(c):
                    found.append((f.name.split("::", 1)[-1], c.split("::")[-1], f.loc(b)))
    run.ob("C01.5.routing-total", "no-shrinking-call", not found,
           f"the functions that file rules into the engine's lists ({', '.join(r.split('::', 1)[-1] for r in roots)}; {n} call "
           f"sites) call nothing that removes elements from a collection again; found: {found}",
           site=found[0][2] if found else "", config=cfg,
           detail="a retain/dedup on a rule list drops rules after the routing decided to keep them: e.g. rules that "
                  "differ only in their tag collapse when de-duplicated by the badfilter id")
    run.floor("C01.5.routing-total", f"call sites scanned for shrinking calls [{cfg}]", n, 60)


def check(run):
    for cfg in run.cfgs("A", "B"):
        F = run.facts(cfg)
        from analysis.guards import rule_visits_all as _rva
        run.guard("C01.8.every-candidate", cfg, lambda: _rva(run, "C01.8.every-candidate", F, cfg, ['network_filter_list::NetworkFilterList::check', 'network_filter_list::NetworkFilterList::check_all', 'network_filter_list::NetworkFilterList::new', 'network_filter_list::NetworkFilterList::add_filter'],
                  'Every rule is filed, and every rule of every bucket named by a request token is tried',
                  # `check` answers with the FIRST suitable rule: `find` over all candidates is that (what its predicate has to
                  # require is C07.2 / C01.3 chain-predicate)
                  allowed=[(r"NetworkFilterList::check$", "find")], minimum=4))
        run.guard("C01.1.token-source", cfg, lambda: rule_store(run, F, cfg))
        from . import C07 as _C07tg
        btg = run.borrow("C07", why="a tagged rule matches exactly when its tag is enabled: every list that can hold tagged rules (importants, exceptions, csp, filters_tagged) is probed with the enabled set, not with the empty one")
        run.guard("C01.via.C07.1.tag-gate", cfg, lambda: _C07tg.rule_tag_gate(btg, F, cfg))
        run.guard("C01.1.token-source", cfg + "/probe", lambda: rule_probe(run, F, cfg))
        run.guard("C01.3.exhaustive-probing", cfg, lambda: rule_exhaustive(run, F, cfg))
        run.guard("C01.4.token-boundary", cfg, lambda: rule_boundary(run, F, cfg))
        run.guard("C01.5.routing-total", cfg, lambda: rule_routing(run, F, cfg))
        run.guard("C01.5.routing-total", cfg + "/no-shrink", lambda: rule_no_shrink(run, F, cfg))
        run.guard("C01.1.token-source", cfg + "/removeparam", lambda: rule_removeparam_tokens(run, F, cfg))
        run.guard("C01.1.token-source", cfg + "/scheme", lambda: rule_scheme_tokens(run, F, cfg))
        run.guard("C01.1.token-source", cfg + "/sources", lambda: rule_token_sources(run, F, cfg))
        run.guard("C01.6.rule-matcher", cfg, lambda: rule_matches_conjunction(run, F, cfg))
        run.guard("C01.7.rule-identity", cfg, lambda: rule_identity(run, F, cfg))
        run.guard("C01.9.entry-points", cfg, lambda: rule_entry_points(run, F, cfg))
        run.guard("C01.4.token-boundary", cfg + "/tokenizer", lambda: rule_tokenizer_table(run, F, cfg))
        b = run.borrow("C05", why="a fused rule must still be found for every request one of its members matches")
        run.guard("C01.via.C05.1.fusion-key", cfg, lambda: _C05.rule_key(b, F, cfg))
        run.guard("C01.via.C05.2.bucket-preservation", cfg, lambda: _C05.rule_bucket(b, F, cfg))
        run.guard("C01.via.C05.4.disjunction", cfg, lambda: _C05.rule_disjunction(b, F, cfg))
        from . import C04 as _C04   # lazy: C04 imports sibling modules too
        b4 = run.borrow("C04", why="the engine verdict is the precedence formula over the per-list hits")
        run.guard("C01.via.C04.2.precedence", cfg, lambda: _C04.rule_precedence(b4, F, cfg))
        run.guard("C01.via.C04.1.routing", cfg, lambda: _C04.rule_routing(b4, F, cfg))
        from . import C02 as _C02s   # lazy: C02 borrows from this module
        bsep = run.borrow("C02", only=r"replacement:ANCHOR", why="a rule is reached through the bucket of one of its tokens: wherever its pattern can "
                                     "match, the URL must have that token, so `^` may accept no byte the request tokenizer keeps inside a token "
                                     "(letters, digits, `%` -- the bytes of non-ASCII letters included)")
        run.guard("C01.via.C02.3.regex-translation", cfg, lambda: _C02s.rule_translation(bsep, F, cfg))
        b4c = run.borrow("C04", why="which rules are live: a rule is dropped from the index exactly when some `$badfilter` line of "
                                    "the list names it, wherever that line stands")
        run.guard("C01.via.C04.3.badfilter-id", cfg + "/complete", lambda: _C04.rule_badfilter_set_complete(b4c, F, cfg))
        from . import C03 as _C03
        b3 = run.borrow("C03", only=r"websocket-scheme|initiator-required",
                        why="a rule indexed under `https` / its domain hash must not match requests that lack that token")
        run.guard("C01.via.C03.3.check_options-table", cfg, lambda: _C03.rule_check_options(b3, F, cfg))
        from . import C07 as _C07
        b7 = run.borrow("C07", why="a rule that matches (and passes the tag gate) must be returned / collected by the list probe")
        run.guard("C01.via.C07.2.gate-shape", cfg, lambda: _C07.rule_gate_shape(b7, F, cfg))
        from . import C08 as _C08
        b8 = run.borrow("C08", only=r"NetworkFilterV0", why="engines are shipped serialized: the engine loaded from the bytes of engine(L) must still be engine(L), rule by rule")
        run.guard("C01.via.C08.2.positional", cfg, lambda: _C08.rule_positional(b8, F, cfg))
        b74 = run.borrow("C07", why="engines are shipped serialized and loaded into running engines: the loaded engine must be engine(L, T) for the caller's tag set T, i.e. the tagged rules have to be re-indexed for T after every load")
        run.guard("C01.via.C07.4.deserialize", cfg, lambda: _C07.rule_deserialize(b74, F, cfg))


def rule_store(run, F, cfg):
    for name in (NL + "new", NL + "add_filter"):
        f = F.fn(name)
        run.touched(f)
        ins = f.calls(r"^network_filter_list::insert_dup$")
        ok = len(ins) == 1
        short = name.split("::")[-1]
        if ok:
            b, t = ins[0]
            key_op = t["args"][1]
            o = f.deep_origins(key_op)
            src = [x for x in o if x.startswith("call:") and "get_tokens" in x]
            foreign = [x for x in o if x.startswith("call:") and not re.search(
                r"get_tokens|Iterator>::next|IntoIterator|into_iter|HashMap::get|vec_hashmap_len|token_histogram|"
                r"Iterator::(map|collect)|Arc::new|Vec::len|slice::len|Option::", x)]
            via_closure = any(c.calls(r"NetworkFilter::get_tokens$") for c in F.closures_of(f.name)) and \
                any(x.startswith("arg:filters") for x in o)
            ok = (bool(src) or via_closure) and not foreign
            run.ob("C01.1.token-source", f"{short}:key-from-own-tokens", ok,
                   f"{name}: the bucket key passed to insert_dup derives only from the constant 0 and the tokens "
                   f"of the filter being inserted (get_tokens); other sources: {foreign[:3]}", site=f.loc(b), config=cfg)
            val = f.expr_operand(t["args"][2])
        # best_token re-initialised inside the per-group loop
        bl = [l for l, n in f.varnames.items() if n == "best_token" and isinstance(l, int)]
        okr = False
        for b2, i, s in f.statements():
            if s["k"] == "assign" and not s["pl"]["p"] and s["pl"]["l"] in bl and s["rv"]["k"] == "use" \
                    and f.expr_operand(s["rv"]["op"]) == "0":
                in_cycle = b2 in f.reachable_from(f.succ(b2)[0]) if f.succ(b2) else False
                dominates_insert = ins and f.dominates(b2, ins[0][0])
                okr = in_cycle and bool(dominates_insert)
        run.ob("C01.1.token-source", f"{short}:best-token-reset-per-group", okr,
               f"{name}: `best_token = 0` (and the minimum count) is re-initialised inside the loop over the filter's "
               f"token groups and dominates the insertion — a rule indexed under several groups (multi-domain "
               f"rules without pattern tokens) gets one bucket per group", site=f.loc(0), config=cfg,
               detail="hoisting the initialisation out of the loop makes later groups reuse the first group's "
                      "best token: the rule is inserted again into the first bucket and never into the others")
        # the candidates are only replaced by tokens of this group
        for b2, i, s in f.statements():
            pass
    g = F.fn("filters::network::NetworkFilter::get_tokens")
    run.touched(g)
    srcs = set()
    for b, t in g.calls(r"^std::vec::Vec::(push|append)$"):
        if "tokens" not in g.expr_operand(t["args"][0]) and "Vec::with_capacity" not in g.expr_operand(t["args"][0]):
            continue
        v = g.expr_operand(t["args"][1])
        if re.search(r"utils::tokenize_filter\(", v):
            srcs.add("tokenize_filter")
        elif re.search(r"utils::tokenize\(", v):
            srcs.add("tokenize")
        elif re.search(r'utils::fast_hash\("https?"\)', v):
            srcs.add("fast_hash(scheme)")
        elif "opt_domains" in v:
            srcs.add("opt_domains element")
        else:
            srcs.add("OTHER:" + v[:60])
    allowed = {"tokenize_filter", "tokenize", "fast_hash(scheme)", "opt_domains element"}
    run.ob("C01.1.token-source", "get_tokens:sources", srcs <= allowed and {"tokenize_filter", "tokenize"} <= srcs,
           f"get_tokens pushes only tokenize_filter(pattern) / tokenize(hostname|removeparam) / a single opt_domains "
           f"hash / fast_hash(\"http(s)\") ({sorted(srcs)})", site=g.loc(0), config=cfg)
    # the three tokenizer wrappers share tokenizer and classifier
    for w in ("utils::tokenize", "utils::tokenize_pooled", "utils::tokenize_filter"):
        f = F.fn(w)
        cs = f.calls(r"^utils::fast_tokenizer_no_regex$")
        ok = len(cs) == 1 and f.expr_operand(cs[0][1]["args"][1]) == "fn:utils::is_allowed_filter"
        run.ob("C01.1.token-source", f"{w.split('::')[-1]}:same-tokenizer", ok,
               f"{w} calls fast_tokenizer_no_regex with the classifier is_allowed_filter "
               f"({f.expr_operand(cs[0][1]['args'][1]) if cs else None})", config=cfg)
    tp = F.fn("utils::tokenize_pooled")
    cs = tp.calls(r"^utils::fast_tokenizer_no_regex$")
    ok = bool(cs) and tp.expr_operand(cs[0][1]["args"][2]) == "false" and tp.expr_operand(cs[0][1]["args"][3]) == "false"
    run.ob("C01.1.token-source", "tokenize_pooled:no-skips", ok,
           "the request tokenizer skips neither the first nor the last token", config=cfg)


def rule_probe(run, F, cfg):
    c = F.fn("request::calculate_tokens")
    run.touched(c)
    tk = c.calls(r"^utils::tokenize_pooled$")
    ps = [(b, t) for b, t in c.calls(r"^std::vec::Vec::push$") if c.expr_operand(t["args"][1]) == "0"]
    ok = len(tk) == 1 and len(ps) == 1 and c.postdominates(ps[0][0], tk[0][0]) and c.expr_operand(tk[0][1]["args"][0]) == "arg:url_lower_cased"
    run.ob("C01.2.fallback-bucket", "request-probes-bucket-0", ok,
           "calculate_tokens tokenises the lower-cased URL and always appends the token 0 (bucket of rules without "
           "a usable token)", site=c.loc(0), config=cfg)
    gm = F.fn("request::Request::get_tokens_for_match")
    e = gm.expr_local(0)
    ok = "arg:self.source_hostname_hashes" in e and "request::Request::get_tokens(arg:self)" in e and "Iterator::chain(" in e
    run.ob("C01.1.token-source", "probe-set", ok,
           f"get_tokens_for_match = source_hostname_hashes chained with the URL tokens (`{e[:120]}`)", site=gm.loc(0), config=cfg)
    fd = F.fn("request::Request::from_detailed_parameters")
    hs = fd.calls(r"^utils::fast_hash$")
    run.ob("C01.1.token-source", "source-hashes", len(hs) >= 2,
           "source hostname hashes use utils::fast_hash, the same function get_tokens' opt_domains hashes were "
           "computed with (C03.5)", config=cfg)


def rule_exhaustive(run, F, cfg):
    for name, kind in ((NL + "check", "first"), (NL + "check_all", "all")):
        f = F.fn(name)
        run.touched(f)
        outer = [(b, t) for b, t in f.calls(r"Iterator>::next$|Iterator::next$")
                 if "get_tokens_for_match" in f.expr_operand(t["args"][0])]
        if not outer:
            # the same walk written as one iterator chain: tokens -> buckets -> flatten -> find / filter
            from . import C07 as _C07ch
            ch = _C07ch.probe_chain(F, f, kind)
            if ch is not None:
                okc = ch["lookup"] and not ch["others"] and ch["requires_match"]
                for inst, text in (("iterates-all-probes", "runs over request.get_tokens_for_match() itself"),
                                   ("returns", "ends only when every probe token has been looked up" + (" or with the first rule its predicate accepts" if kind == "first" else "")),
                                   ("whole-bucket", "flattens the whole bucket of each probed token")):
                    run.ob("C01.3.exhaustive-probing", f"{kind}:{inst}", okc,
                           f"{name} (iterator chain) {text}: bucket lookup {'plain' if ch['lookup'] else 'NOT plain'}, selecting closures "
                           f"{ch['preds']}, other selecting steps {ch['others']}", site=ch["site"], config=cfg)
                continue
        it = f.calls(r"^request::Request::get_tokens_for_match$")
        plain = bool(outer) and all(re.search(r"^request::Request::get_tokens_for_match\(arg:request\)$", f.expr_operand(t["args"][0])) for b, t in outer)
        run.ob("C01.3.exhaustive-probing", f"{kind}:iterates-all-probes", len(it) == 1 and plain,
               f"{name} iterates request.get_tokens_for_match() itself (no take / skip / filter adapter): "
               f"`{f.expr_operand(outer[0][1]['args'][0])[:100] if outer else None}`", site=f.loc(0), config=cfg)
        n = 0
        bad = []
        for p in enumerate_paths(f):
            if p.end != "return":
                continue
            n += 1
            d = {}
            for e, v in p.conds:
                if re.search(r"HashMap::is_empty\(arg:self\.filter_map\)$", e):
                    d["empty"] = v
                if re.search(r"^discr\(.*get_tokens_for_match\(arg:request\)\)\)$", e) or \
                        (e.startswith("discr(") and "get_tokens_for_match(arg:request))" in e and "HashMap::get" not in e and "@Some" not in e):
                    d["outer"] = v
                if re.search(r"NetworkMatchable>::matches\(", e):
                    d["matches"] = v
            val = path_value(f, p, 0) or ""
            if d.get("empty") == 1:
                continue
            if d.get("outer") in (0, ("not", (1,))):
                continue  # outer iterator exhausted
            if kind == "first" and "Some" in val and d.get("matches") == 1:
                continue
            bad.append((val[:40], {k: v for k, v in d.items()}))
        run.ob("C01.3.exhaustive-probing", f"{kind}:returns", not bad and n >= 2,
               f"{name} returns only when the map is empty, when every probe token has been looked up"
               + (", or with Some(filter) under matches()" if kind == "first" else "")
               + f" ({n} return paths; offending: {bad[:2]})", site=f.loc(0), config=cfg,
               detail="an early break / take(n) / probing only the first bucket loses matching rules")
        # inner loop covers the whole bucket
        inner = [(b, t) for b, t in f.calls(r"Iterator>::next$") if "HashMap::get" in f.expr_operand(t["args"][0])]
        run.ob("C01.3.exhaustive-probing", f"{kind}:whole-bucket", len(inner) == 1,
               f"{name} walks the whole bucket of each probed token (one inner loop over filter_map.get(token))", config=cfg)
        # a filter that fails matches() or the gate does not end the inner loop
        if inner and kind == "first":
            ib = inner[0][0]
            ok_cont = True
            for p in enumerate_paths(f, start=ib):
                m = [v for e, v in p.conds if re.search(r"NetworkMatchable>::matches\(", e)]
                if m == [0] and not (p.end == f"backedge:{ib}" or p.end.startswith("backedge")):
                    ok_cont = False
            run.ob("C01.3.exhaustive-probing", f"{kind}:mismatch-continues", ok_cont,
                   f"{name}: a filter that does not match leads back to the loop (the next filter of the same "
                   f"bucket is examined)", config=cfg)


def rule_boundary(run, F, cfg):
    g = F.fn("filters::network::NetworkFilter::get_tokens")
    tf = g.calls(r"^utils::tokenize_filter$")
    if len(tf) != 1:
        run.ob("C01.4.token-boundary", "tokenize_filter-call", False, f"expected one tokenize_filter call in get_tokens, found {len(tf)}",
               status="UNDISCHARGED", config=cfg)
        return
    tb, tt = tf[0]
    a_first, a_last = tt["args"][1], tt["args"][2]
    n = 0
    bad = []
    # is_plain() is defined as !is_regex(): valuations where both agree are infeasible
    ip = [f2 for n2, f2 in F.fns.items() if n2.endswith("NetworkFilterMaskHelper::is_plain")]
    plain_is_not_regex = bool(ip) and ip[0].expr_local(0) == "Not(" + H + "is_regex(arg:self))"
    run.ob("C01.4.token-boundary", "is_plain=!is_regex", plain_is_not_regex,
           "is_plain() is defined as !is_regex() (used to discard infeasible valuations)", config=cfg)
    for p in enumerate_paths(g, stop_blocks=[tb]):
        if p.end != f"stop:{tb}":
            continue
        dd0 = {}
        for e, v in p.conds:
            m = re.match(r"^" + re.escape(H) + r"(\w+)\(arg:self\)$", e)
            if m:
                dd0[m.group(1)] = v
        if plain_is_not_regex and "is_plain" in dd0 and "is_regex" in dd0 and dd0["is_plain"] == dd0["is_regex"]:
            continue
        n += 1
        d = {}
        for e, v in p.conds:
            m = re.match(r"^" + re.escape(H) + r"(\w+)\(arg:self\)$", e)
            if m:
                d[m.group(1)] = v
        first = path_value(g, p, a_first["pl"]["l"]) if a_first.get("pl") else g.expr_operand(a_first)
        last = path_value(g, p, a_last["pl"]["l"]) if a_last.get("pl") else g.expr_operand(a_last)
        # evaluate under every completion of the undecided anchor predicates
        for lv in ([d["is_left_anchor"]] if "is_left_anchor" in d else [0, 1]):
            for rv in ([d["is_right_anchor"]] if "is_right_anchor" in d else [0, 1]):
                dd = dict(d, is_left_anchor=lv, is_right_anchor=rv)
                fv = _resolve(first, dd)
                lav = _resolve(last, dd)
                if lv == 0 and fv != "true":
                    bad.append(("left end un-pinned but first token kept", dd, fv))
                if rv == 0 and lav != "true":
                    bad.append(("right end un-pinned but last token kept", dd, lav))
    run.floor("C01.4.token-boundary", f"paths of get_tokens reaching tokenize_filter [{cfg}]", n, 2)
    run.ob("C01.4.token-boundary", "skip-unpinned-ends", not bad,
           "on every path of get_tokens to tokenize_filter(pattern, skip_first, skip_last): !is_left_anchor => "
           "skip_first_token and !is_right_anchor => skip_last_token. The token at an end of the pattern that the "
           "matcher does not pin may be a fragment of a longer URL token (`ads/foo` matches `/loads/foo`), so using "
           f"it as the bucket key loses the rule; offending: {bad[:2]}", site=g.loc(tb), config=cfg)
    # complete regexes are not tokenised
    c = dominating_conditions(g, tb)
    run.ob("C01.4.token-boundary", "no-tokens-from-complete-regex", has_cond(c, r"::is_complete_regex\(arg:self\)$", 0),
           "patterns of /regex/ rules are not tokenised", config=cfg)
    # tokenizer: when is a token emitted? Two decision regions (inside the loop at the end of a token; after the loop),
    # each a short-circuit chain: walked edge by edge and compared with the specification on all valuations
    t = F.fn("utils::fast_tokenizer_no_regex")
    run.touched(t)
    rule_token_emission(run, F, cfg, t)
    mx = [b for b, i, s in t.statements() if s["k"] == "assign" and s["rv"]["k"] == "binop" and s["rv"]["op"] in ("Ge", "Gt", "Lt", "Le")
          and "TOKENS_MAX" in t.expr_rvalue(s["rv"], 2)]
    run.ob("C01.4.token-boundary", "token-limit", bool(mx), "the tokenizer stops at TOKENS_MAX tokens (the property's < 127 token premise)", config=cfg)
    cap = F.const_int("utils::TOKENS_MAX")
    run.ob("C01.4.token-boundary", "token-limit-value", cap >= 127,
           f"the request tokenizer keeps at least the first 127 tokens of a URL (utils::TOKENS_MAX = {cap}): the property "
           f"holds for every URL with fewer than 127 tokens only if none of those tokens is cut off, because a rule is "
           f"filed under ONE of its tokens and found only if that token is among the request's",
           site=F.consts["utils::TOKENS_MAX"]["span"], config=cfg)


ENTRY_POINTS = ["lists::FilterSet::add_filters", "lists::FilterSet::add_filter", "lists::FilterSet::add_filter_list",
                "engine::Engine::from_filter_set", "engine::Engine::from_rules", "engine::Engine::from_rules_debug",
                "engine::Engine::from_rules_parametrised", "lists::parse_filters",
                "cosmetic_filter_cache::CosmeticFilterCache::from_rules"]
DROPPING = re.compile(
    r"^std::vec::Vec::(retain|retain_mut|dedup|dedup_by|dedup_by_key|truncate|drain|pop|remove|swap_remove|clear|split_off)$|"
    r"^std::iter::Iterator::(filter|filter_map|take|take_while|skip|skip_while|step_by|map_while)$|Itertools::(dedup|unique|unique_by)$")


def rule_entry_points(run, F, cfg):
    """Between the parsers and the stores (Blocker::new, CosmeticFilterCache::from_rules) the public entry points hand
    every parsed rule on: FilterSet::add_filters / add_filter / add_filter_list, Engine::from_filter_set and the
    from_rules* wrappers contain no operation that can drop an element of a rule vector (retain, dedup, filter, truncate,
    ...). De-duplicating there needs a notion of "the same rule", and every identity coarser than the rule line loses
    rules (get_id() ignores `$tag`; an identity without the entity lists makes `site.*##.x` swallow the generic `##.x`)."""
    n = 0
    for root in ENTRY_POINTS:
        fs = [f for nme, f in F.fns.items() if nme == root or nme.startswith(root + "::")]
        if not fs:
            run.ob("C01.9.entry-points", f"forwards-all-rules:{root.split('::', 1)[-1]}", False, f"`{root}` not found",
                   status="UNDISCHARGED", config=cfg)
            continue
        run.touched(*fs)
        n += len(fs)
        hits = [(strip_generics(t["callee"]).split("::")[-1], g.loc(b)) for g in fs for b, t in g.calls()
                if DROPPING.search(strip_generics(t["callee"]))]
        run.ob("C01.9.entry-points", f"forwards-all-rules:{root.split('::', 1)[-1]}", not hits,
               f"{root} passes on every rule it is given: no element-dropping operation on the way ({hits[:3]})",
               site=hits[0][1] if hits else fs[0].loc(0), config=cfg)
    run.floor("C01.9.entry-points", f"entry-point bodies searched [{cfg}]", n, 9)
    # the structural identity (which ignores the tag and the spelling) is for $badfilter matching only
    users = sorted(set(g.name.split("::{closure")[0] for fn_ in ("get_id", "get_id_without_badfilter")
                       for g, b, t in F.callers_of(r"^filters::network::NetworkFilter::" + fn_ + "$")))
    run.ob("C01.9.entry-points", "structural-id-used-for-badfilter-only", set(users) <= {"blocker::Blocker::new"} and bool(users),
           f"NetworkFilter::get_id / get_id_without_badfilter are called by Blocker::new only (callers: {users}); as a notion of "
           f"rule identity anywhere else it merges rules that differ in their tag", config=cfg)


def rule_token_emission(run, F, cfg, t):
    """fast_tokenizer_no_regex(pattern, is_allowed_code, skip_first_token, skip_last_token, wildcards, buffer):
      end of a token inside the loop:  emit iff (start != 0 || !skip_first) && length > 1 && !(wildcards && (next == '*' || prev == '*'))
      token still open after the loop: emit iff !skip_last && inside && (start != 0 || !skip_first) && length > 1 && !(wildcards && prev == '*')
    `skip_first` guards EVERY emission (a pattern's first token can be its last: `gif|`), and the `*` tests apply only to
    filter patterns (`wildcards`): in a request URL a `*` is an ordinary character and its neighbours are whole tokens."""
    import itertools
    from analysis.guards import walk_decisions, dominating_conditions as _dc
    pn = {k: t.varnames.get(k) for k in (3, 4, 5)}            # skip_first_token, skip_last_token, wildcards by position
    ok_sig = t.argc == 6 and all(pn.values())
    pushes = [b for b, tm in t.calls(r"^std::vec::Vec::push$")]
    nxt = [b for b, tm in t.calls(r"CharIndices<'a> as std::iter::Iterator>::next$")]
    ok_shape = ok_sig and len(pushes) == 2 and len(nxt) == 1
    if not ok_shape:
        run.ob("C01.4.token-boundary", "emission:shape", False,
               f"fast_tokenizer_no_regex has six parameters, one char_indices loop and two token pushes (argc {t.argc}, pushes {len(pushes)})",
               status="UNDISCHARGED", site=t.loc(0), config=cfg)
        return
    sw = t.blocks[t.blocks[nxt[0]]["t"]["t"]]["t"]
    loop_exit = [tg for v, tg in sw["targets"] if v == 0][0]
    in_loop = [b for b in pushes if t.dominates(t.blocks[nxt[0]]["t"]["t"], b) and b not in t.reachable_from(loop_exit)]
    final = [b for b in pushes if b in t.reachable_from(loop_exit)]
    # start of the in-loop region: the block where the token state is closed (a bool local set to false under
    # `!allowed && inside`); its end: the next update of the previous-character variable
    closes = [b for b, i, st in t.statements() if st["k"] == "assign" and not st["pl"]["p"] and t.vexpr_rvalue(st["rv"]) == "false"
              and st["pl"]["l"] in t.varnames and st["pl"]["l"] > t.argc
              and any("Fn::call" in k and v == 0 for k, v in _dc(t, b, render=t.vexpr_operand).items())]
    prevs = sorted({b for b, i, st in t.statements() if st["k"] == "assign" and not st["pl"]["p"]
                    and st["pl"]["l"] in t.varnames and st["pl"]["l"] > t.argc
                    and t.vexpr_rvalue(st["rv"]).startswith("std::option::Option::Some{0: ") and closes and b in t.reachable_from(closes[0]) and t.dominates(closes[0], b)})
    if len(in_loop) != 1 or len(final) != 1 or len(closes) != 1 or len(prevs) != 1:
        run.ob("C01.4.token-boundary", "emission:shape", False,
               f"decision regions of the tokenizer not found (in-loop pushes {in_loop}, final {final}, close {closes}, prev update {prevs})",
               status="UNDISCHARGED", site=t.loc(0), config=cfg)
        return

    def atom(e):
        e = e.replace("$" + pn[3], "$SF").replace("$" + pn[4], "$SL").replace("$" + pn[5], "$W")
        table = [(r"^\(\$\w+ Ne 0\)$", "S0", 1), (r"^\(\$\w+ Eq 0\)$", "S0", 0), (r"^\$SF$", "SF", 1), (r"^\$SL$", "SL", 1), (r"^\$W$", "W", 1),
                 (r"^\(\((\$\w+|core::str::len\(\$\w+\)) SubWithOverflow \$\w+\)\.0 Gt 1\)$", "LEN", 1),
                 (r"^\(\$\w+ Eq '\*'\)$", "CS", 1), (r"^\(\$\w+ Ne '\*'\)$", "CS", 0),
                 (r"^<std::option::Option<T> as std::cmp::PartialEq>::eq\(\$\w+, std::option::Option::Some\{0: '\*'\}\)$", "PS", 1),
                 (r"^std::cmp::PartialEq::eq\(\$\w+, std::option::Option::Some\{0: '\*'\}\)$", "PS", 1),
                 (r"^<std::option::Option<T> as std::cmp::PartialEq>::ne\(\$\w+, std::option::Option::Some\{0: '\*'\}\)$", "PS", 0),
                 (r"^std::cmp::PartialEq::ne\(\$\w+, std::option::Option::Some\{0: '\*'\}\)$", "PS", 0),
                 (r"^\$\w+$", "IN", 1)]
        for rx, nme, pol in table:
            if re.match(rx, e):
                return nme, pol
        return None, None

    def table_of(rows):
        out, unknown = [], set()
        for conds, label in rows:
            a = {}
            for e, v in conds.items():
                nme, pol = atom(e)
                if nme is None or v not in (0, 1):
                    unknown.add(f"{e[:80]}={v}")
                else:
                    a[nme] = v if pol == 1 else 1 - v
            out.append((a, label))
        return out, unknown

    specs = {
        "in-loop": (walk_decisions(t, closes[0], {in_loop[0]: "emit", prevs[0]: "skip"}, render=t.vexpr_operand),
                    ["S0", "SF", "LEN", "W", "CS", "PS"],
                    lambda v: (v["S0"] or not v["SF"]) and v["LEN"] and not (v["W"] and (v["CS"] or v["PS"]))),
        "final": (walk_decisions(t, loop_exit, {**{r: "skip" for r in t.exits()}, final[0]: "emit"}, render=t.vexpr_operand),
                  ["SL", "IN", "S0", "SF", "LEN", "W", "PS"],
                  lambda v: (not v["SL"]) and v["IN"] and (v["S0"] or not v["SF"]) and v["LEN"] and not (v["W"] and v["PS"])),
    }
    for name, (rows, names, spec) in specs.items():
        tab, unknown = table_of(rows)
        modelled = not unknown and all(l in ("emit", "skip") for _, l in tab) and len(tab) >= 5
        bad = []
        if modelled:
            for bits in itertools.product((0, 1), repeat=len(names)):
                v = dict(zip(names, bits))
                got = {l for a, l in tab if all(v.get(k) == x for k, x in a.items())}
                want = "emit" if spec(v) else "skip"
                if got != {want}:
                    bad.append(({k: x for k, x in v.items() if x}, sorted(got), want))
        run.ob("C01.4.token-boundary", f"emission-table:{name}", modelled and not bad,
               f"token emission ({name}) equals its specification on all {2 ** len(names)} valuations of {names} "
               f"({len(tab)} decision paths; unmodelled: {sorted(unknown)[:2]}; first difference: {bad[:1]})",
               status=None if modelled else "UNDISCHARGED", site=t.loc(closes[0] if name == 'in-loop' else loop_exit), config=cfg)
    # which entry point tokenizes what: requests without wildcard semantics, rule text with
    want_flag = {"utils::tokenize_pooled": "false", "utils::tokenize": "true", "utils::tokenize_filter": "true"}
    got_flag = {}
    for g, b, tm in F.callers_of(r"^utils::fast_tokenizer_no_regex$"):
        got_flag[g.name] = g.expr_operand(tm["args"][4]) if len(tm["args"]) > 4 else "?"
    req = [g.name for g, b, tm in F.callers_of(r"^utils::tokenize_pooled$")]
    run.ob("C01.4.token-boundary", "wildcard-flag-by-entry-point", got_flag == want_flag and any(n.startswith("request::") for n in req),
           f"tokenize_pooled (request URLs: called from {req}) passes wildcards = false, tokenize / tokenize_filter (rule text) pass "
           f"true ({got_flag})", site=t.loc(0), config=cfg)


def rule_token_cap_unbounded(run, F, cfg):
    """For the properties that quantify over ALL requests (C04, C14 carry no premise on the number of URL tokens,
    unlike C01): the request tokenizer looks up every token of the URL. It does not: it stops at TOKENS_MAX. The cap is
    part of the instance key, so that a different (lower) cap is a different finding."""
    t = F.fn("utils::fast_tokenizer_no_regex")
    run.touched(t)
    capped = [b for b, i, s in t.statements() if s["k"] == "assign" and s["rv"]["k"] == "binop" and s["rv"]["op"] in ("Ge", "Gt", "Lt", "Le")
              and "TOKENS_MAX" in t.expr_rvalue(s["rv"], 2)]
    cap = F.const_int("utils::TOKENS_MAX")
    run.ob("C01.4.token-boundary", f"request-tokens-not-truncated:cap={cap if capped else 'none'}", not capped,
           f"the request tokenizer stops after {cap} tokens: a rule filed under a token that comes later in the URL is never "
           f"looked up although it matches (`*$removeparam=fbclid` does not remove fbclid behind 61 other parameters; adding "
           f"rules that share a URL's early tokens can move a matching rule's bucket behind the cap and un-block the URL)",
           site=t.loc(capped[0]) if capped else t.loc(0), config=cfg)


def _resolve(val, d):
    """evaluate a boolean expression over decided mask predicates"""
    if val is None:
        return None
    v = val.strip()
    if v in ("true", "false"):
        return v
    m = re.match(r"^Not\((.*)\)$", v)
    if m:
        r = _resolve(m.group(1), d)
        return {"true": "false", "false": "true"}.get(r, v)
    m = re.match(r"^" + re.escape(H) + r"(\w+)\(arg:self\)$", v)
    if m and m.group(1) in d and d[m.group(1)] in (0, 1):
        return "true" if d[m.group(1)] else "false"
    return v


def rule_routing(run, F, cfg):
    tn, _ = R.table_new(F)
    lost = []
    n = 0
    for v in R.valuations({"is_badfilter": 0, "bad_id": 0, "exists": 0}):
        if not R.feasible(v):
            continue
        n += 1
        d = tn.eval(v)
        if not d:
            lost.append(R.fmt_val(v))
    run.ob("C01.5.routing-total", "every-live-rule-stored", not lost and n >= 50,
           f"every parsed, non-cancelled rule ({n} feasible flag valuations) is stored in at least one list "
           f"(lost: {lost[:3]})", config=cfg)
    amb = R.ambiguous(tn)
    run.ob("C01.5.routing-total", "no-unmodelled-drop", amb is None,
           "whether and where a rule is stored depends only on its own flags: no path of Blocker::new drops or "
           "re-routes a rule because of other rules (de-duplication sets etc.)"
           + (f"; valuation {R.fmt_val(amb[0])} leads to {[sorted(x) for x in amb[1]]} depending on {amb[2][:3]}" if amb else ""),
           site="src/blocker.rs Blocker::new", config=cfg, status=None if amb is None else "UNDISCHARGED")
    # every list is probed by some query
    probed = set()
    for f in F.fns.values():
        if not f.name.startswith("blocker::Blocker::"):
            continue
        for b, t in f.calls(r"^network_filter_list::NetworkFilterList::check(_all)?$"):
            m = re.search(r"(?:arg|up):self\.(\w+)$", f.expr_operand(t["args"][0]))
            if m:
                probed.add(m.group(1))
            elif "removeparam" in f.expr_operand(t["args"][0]):
                probed.add("removeparam")
    ar = F.fn("blocker::Blocker::check_parameterised")
    if any("arg:self.removeparam" in ar.expr_operand(t["args"][0]) for b, t in ar.calls(r"apply_removeparam$")):
        probed.add("removeparam")
    want = set(R.BLOCKER_LISTS)
    run.ob("C01.5.routing-total", "every-list-probed", want <= probed,
           f"every Blocker list is probed by some query function (unprobed: {sorted(want - probed)})", config=cfg)


def rule_removeparam_tokens(run, F, cfg):
    """get_tokens may index a rule under tokens of its modifier option only for removeparam rules (whose
    option is the parameter NAME, which occurs in the URL whenever the rule has any effect), lower-cased like
    the request URL, and only for names the request tokenizer would reproduce (VALID_PARAM)."""
    g = F.fn("filters::network::NetworkFilter::get_tokens")
    run.touched(g)
    from analysis.guards import dominating_conditions as _dc
    sites = []
    for b, t in g.calls(r"^utils::tokenize(_filter)?$"):
        e = g.vexpr_call(t)
        if "modifier_option" in e or "$removeparam" in e:
            sites.append((b, e, _dc(g, b, render=g.vexpr_operand)))
    # every use of the modifier option as a token source
    ok = len(sites) == 1
    detail = ""
    if ok:
        b, e, c = sites[0]
        short = {re.sub(r"filters::network::(_::|NetworkFilterMask::)?", "", k): v for k, v in c.items()}
        need = [("contains($self.mask, IS_REMOVEPARAM)", 1), ("discr($self.modifier_option)", 1)]
        have_valid = any(re.search(r"Regex::is_match\(.*VALID_PARAM\), .*\$removeparam\)", k) and v == 1 for k, v in short.items())
        lower = "to_ascii_lowercase(" in e or "to_lowercase(" in e
        ok = all(short.get(k) == v for k, v in need) and have_valid and lower
        detail = f"{e[:160]} under {sorted(short.items())[:6]}"
    run.ob("C01.1.token-source", "removeparam-name-tokens", ok,
           "get_tokens tokenizes the modifier option only as lower-cased removeparam name: guarded by "
           "mask.contains(IS_REMOVEPARAM), modifier_option being Some and VALID_PARAM.is_match (a redirect name "
           "or csp text used as bucket key would hide the rule from every request)",
           site=g.loc(sites[0][0]) if sites else g.loc(0), config=cfg, detail=detail)


def rule_scheme_tokens(run, F, cfg):
    """the optional protocol token: `http` only for rules that apply to http and not https (every URL such a
    rule matches starts with the token `http`), `https` symmetrically; anything else hides the rule from
    requests of the other scheme whenever the protocol token is the bucket key (token-less patterns)"""
    g = F.fn("filters::network::NetworkFilter::get_tokens")
    from analysis.guards import dominating_conditions as _dc
    seen = {}
    for b, t in g.calls(r"^utils::fast_hash$"):
        lit = g.vexpr_operand(t["args"][0])
        if not re.match(r'^"[a-z]+"$', lit):
            continue
        c = {re.sub(r"filters::network::NetworkFilterMaskHelper::", "", k): v
             for k, v in _dc(g, b, render=g.vexpr_operand).items()}
        seen[lit.strip('"')] = (c.get("for_http($self)"), c.get("for_https($self)"), g.loc(b))
    want = {"http": (1, 0), "https": (0, 1)}
    for lit, (h, hs) in want.items():
        got = seen.get(lit)
        run.ob("C01.1.token-source", f"scheme-token:{lit}", got is not None and got[:2] == (h, hs),
               f"get_tokens adds the protocol token `{lit}` exactly under for_http={h} and for_https={hs} "
               f"(found {got[:2] if got else None})", site=got[2] if got else g.loc(0), config=cfg)
    extra = sorted(set(seen) - set(want))
    run.ob("C01.1.token-source", "scheme-token:no-others", not extra,
           f"no other literal token is added to a rule's tokens ({extra})", config=cfg)


def rule_tokenizer_table(run, F, cfg):
    """fast_tokenizer_no_regex as a table over its state variables (variable-level rendering, compared modulo
    the variables' names): a token is emitted only when neither neighbour is `*`; the token state machine;
    the previous-character tracking."""
    t = F.fn("utils::fast_tokenizer_no_regex")
    from analysis.guards import dominating_conditions as _dc
    from analysis.names import renaming

    def conds(b):
        out = set()
        for k, v in _dc(t, b, render=t.vexpr_operand).items():
            if re.match(r"^\$\w+$", k):
                out.add((k, v))
            elif re.match(r"^\(\$\w+ (Ne|Eq) '\*'\)$", k):
                out.add((k, v))
            elif re.match(r"^std::cmp::PartialEq::(ne|eq)\(\$\w+, std::option::Option::Some\{0: '\*'\}\)$", k):
                out.add((k, v))
            elif re.match(r"^std::ops::Fn::call \[virtual\]\((\$\w+), ", k):
                out.add(("allowed(" + re.match(r"^std::ops::Fn::call \[virtual\]\((\$\w+), ", k).group(1) + ")", v))
        return frozenset(out)

    pushes = []
    for b, tm in t.calls(r"^std::vec::Vec::push$"):
        c = _dc(t, b, render=t.vexpr_operand)
        in_loop = any(k.startswith("discr(") and "next(" in k and v == 1 for k, v in c.items())
        pushes.append((in_loop, conds(b)))
    updates = []
    for b, i, st in t.statements():
        if st["k"] == "assign" and not st["pl"]["p"] and st["pl"]["l"] in t.varnames and st["pl"]["l"] > t.argc:
            ty = str(t.locals[st["pl"]["l"]].get("ty") if isinstance(t.locals[st["pl"]["l"]], dict) else t.locals[st["pl"]["l"]])
            if ty not in ("bool", "usize", "std::option::Option<char>"):
                continue
            val = t.vexpr_rvalue(st["rv"])
            if val.startswith("std::option::Option::Some{0: "):
                val = "Some(current char)"
            elif "Iterator>::next(" in val:
                continue   # loop pattern bindings (i, c)
            updates.append(("$" + t.varnames[st["pl"]["l"]], val, conds(b)))
    STAR_PREV = ("std::cmp::PartialEq::ne($preceding_ch, std::option::Option::Some{0: '*'})", 1)
    want = {
        "pushes": sorted([
            (True, frozenset({("allowed($is_allowed_code)", 0), ("$inside", 1), ("($c Ne '*')", 1), STAR_PREV})),
            (False, frozenset({("$skip_last_token", 0), ("$inside", 1), STAR_PREV})),
        ], key=repr),
        "updates": {
            ("$inside", "false", frozenset()): 1, ("$start", "0", frozenset()): 1,
            ("$preceding_ch", "std::option::Option::None{}", frozenset()): 1,
            ("$inside", "true", frozenset({("allowed($is_allowed_code)", 1), ("$inside", 0)})): 1,
            ("$start", "$i", frozenset({("allowed($is_allowed_code)", 1), ("$inside", 0)})): 1,
            ("$inside", "false", frozenset({("allowed($is_allowed_code)", 0), ("$inside", 1)})): 1,
            ("$preceding_ch", "Some(current char)", frozenset({("allowed($is_allowed_code)", 0), ("$inside", 1)})): 1,
            ("$preceding_ch", "Some(current char)", frozenset({("allowed($is_allowed_code)", 0), ("$inside", 0)})): 1,
        },
    }
    from collections import Counter
    got = {"updates": dict(Counter(updates))}
    want = {"updates": want["updates"]}
    ren = renaming(got, want, fixed=())
    run.ob("C01.4.token-boundary", "tokenizer-table", ren is not None,
           "fast_tokenizer_no_regex (modulo the names of its variables; emission: see emission-table). State: a token starts (inside = true, start = i) at a token character while outside one and "
           "ends at a non-token character while inside one; the previous character is None at first and is set to the "
           "current character at EVERY non-token character. No other update of these variables.",
           site=t.loc(0), config=cfg,
           detail=f"updates: {sorted(got['updates'], key=repr)}")


def rule_token_sources(run, F, cfg):
    """Every token a rule can be indexed under (every write into get_tokens' `tokens`, and the per-domain
    dispatch) is one of the enumerated sources, each under the guard that makes the token occur in every
    request the rule can match. An unknown source fails closed."""
    g = F.fn("filters::network::NetworkFilter::get_tokens")
    from analysis.guards import dominating_conditions as _dc

    def sh(k):
        return re.sub(r"filters::network::(NetworkFilterMaskHelper::|NetworkFilterMask::|_::)?", "", k)

    # the token vector: the variable that is returned as the single group `vec![tokens]`
    tok = None
    for b, i, st in g.statements():
        if st["k"] == "assign" and st["rv"]["k"] == "agg" and st["rv"].get("agg") == "array" and len(st["rv"]["ops"]) == 1:
            v = g.vexpr_operand(st["rv"]["ops"][0])
            if re.match(r"^\$\w+$", v):
                tok = v
    if tok is None:
        run.ob("C01.1.token-source", "source:token-vector", False, "the vector returned as `vec![tokens]` was not found",
               status="UNDISCHARGED", config=cfg)
        return
    # sources are recognised by the PROVENANCE of the value written (flow-insensitive, no local names)
    SOURCES = [
        # (name, callee regex, regex over the provenance of the written value, [(condition regex, value)], why)
        ("single-domain", r"Vec::push$", r"core::slice::first\(.*arg:self\.opt_domains.*\)@Some\.0$",
         [(r"PartialEq>::eq\(std::option::Option::map\(std::option::Option::as_ref\(\$self\.opt_domains\), closure\[.*\]\(\)\), std::option::Option::Some\{0: 1\}\)$", 1)],
         "the only positive domain: every request the rule matches comes from it (with two domains the first one "
         "is absent from requests of the second)"),
        ("pattern", r"Vec::append$", r"^utils::tokenize_filter\(", [(r"^is_complete_regex\(\$self\)$", 0)],
         "tokens of a plain / wildcard pattern (boundaries: C01.4)"),
        ("hostname", r"Vec::append$", r"^utils::tokenize\(.*arg:self\.hostname", [(r"^contains\(\$self\.mask, IS_HOSTNAME_REGEX\)$", 0)],
         "labels of a literal hostname (a hostname with wildcards yields fragments)"),
        ("removeparam", r"Vec::append$", r"^utils::tokenize\(.*to_ascii_lowercase\(.*arg:self\.modifier_option", [(r"^contains\(\$self\.mask, IS_REMOVEPARAM\)$", 1)],
         "see removeparam-name-tokens"),
        ("scheme", r"Vec::push$", r'^utils::fast_hash\("https?"\)$', [], "see scheme-token:*"),
    ]
    seen = {}
    unknown = []
    for b, t in g.calls(r"^std::vec::Vec::(push|append|extend|extend_from_slice|insert)$"):
        if g.vexpr_operand(t["args"][0]) != tok:
            continue
        prov = sh(g.expr_operand(t["args"][-1]))
        if "…" in prov:
            # depth-truncated: append the leaves of the provenance tree
            prov += " <- " + " ".join(sorted(x for x in g.deep_origins(t["args"][-1]) if x.startswith("arg:")))
        cal = strip_generics(t["callee"])
        c = {sh(k): v for k, v in _dc(g, b, render=g.vexpr_operand).items()}
        for name, crx, prx, need, why in SOURCES:
            if re.search(crx, cal) and re.search(prx, prov):
                ok = all(any(re.search(nr, k) and v == nv for k, v in c.items()) for nr, nv in need)
                seen.setdefault(name, []).append((ok, g.loc(b), why))
                break
        else:
            unknown.append((cal.split("::")[-1] + "(" + prov[:100] + ")", g.loc(b)))
    for name, crx, prx, need, why in SOURCES:
        got = seen.get(name, [])
        run.ob("C01.1.token-source", f"source:{name}", bool(got) and all(o for o, _, _ in got),
               f"get_tokens source `{name}`: {why}; required guard {need} "
               + ("holds" if got and all(o for o, _, _ in got) else "does NOT dominate the write (or the source is gone)"),
               site=got[0][1] if got else g.loc(0), config=cfg)
    run.ob("C01.1.token-source", "source:no-unknown", not unknown,
           f"no other write into the rule's token vector ({unknown[:2]})", status=None if not unknown else "UNDISCHARGED",
           config=cfg)
    # the closure in the single-domain guard is the list length
    cl = [c for c in F.closures_of(g.name) if c.calls(r"^std::vec::Vec::len$")]
    run.ob("C01.1.token-source", "single-domain:len", len(cl) >= 1,
           "the single-domain test compares the number of positive domains (Vec::len) with 1", config=cfg)
    # per-domain dispatch: only when there are positive domains; otherwise exactly one token group is returned
    rets = g.defs().get(0, [])
    kinds = []
    for d in rets:
        if d[0] == "call":
            e = sh(g.vexpr_call(d[2]))
            c = {sh(k): v for k, v in _dc(g, d[1], render=g.vexpr_operand).items()}
            if "collect(" in e and "opt_domains" in e:
                kinds.append(("dispatch", c.get("std::option::Option::is_some($self.opt_domains)") == 1))
            elif "box_assume_init_into_vec_unsafe" in e or "from_elem" in e or "into_vec" in e:
                kinds.append(("single-group", True))
            else:
                kinds.append(("?" + e[:60], False))
        else:
            kinds.append(("?assign", False))
    run.ob("C01.1.token-source", "groups:dispatch-or-one", sorted(kinds) == [("dispatch", True), ("single-group", True)],
           "get_tokens returns either one group per positive domain — only under opt_domains.is_some(), otherwise the "
           "rule would be stored in no bucket at all — or exactly one group (`vec![tokens]`) "
           f"({kinds})", config=cfg)


def rule_matches_conjunction(run, F, cfg):
    """a rule matches iff its options AND its pattern match (the reference matcher the index must agree with)"""
    m = F.fn("<filters::network::NetworkFilter as filters::network::NetworkMatchable>::matches")
    run.touched(m)
    from analysis.guards import dominating_conditions as _dc
    co = m.calls(r"network_matchers::check_options$")
    cp = m.calls(r"network_matchers::check_pattern$")
    ok = len(co) == 1 and len(cp) == 1
    detail = ""
    if ok:
        c = _dc(m, cp[0][0], render=m.vexpr_operand)
        gate = [v for k, v in c.items() if "check_options(" in k]
        ret = m.expr_local(0)
        ok = gate == [1] and bool(re.match(r"^φ\{false \| filters::network_matchers::check_pattern\(", ret))
        detail = f"check_pattern evaluated under check_options == {gate}; result = {ret[:120]}"
    run.ob("C01.6.rule-matcher", "options-and-pattern", ok,
           "NetworkFilter::matches is check_options(..) && check_pattern(..): false when the options fail, the "
           "pattern verdict otherwise", site=m.loc(0), config=cfg, detail=detail)


def rule_identity(run, F, cfg):
    """Buckets are de-duplicated by NetworkFilter.id (insert_dup), and Blocker::add_filter rejects a rule whose id
    is already present: two different rule lines must therefore have different ids. The id is the hash of the
    whole rule line, unmodified (not lower-cased: `$removeparam=Ref` and `=ref`, `$tag=` values, case-sensitive
    regexes differ by case only; not the option-independent identity used for $badfilter, which ignores the tag)."""
    p = F.fn("filters::network::NetworkFilter::parse")
    ids = []
    for b, i, st in p.statements():
        if st["k"] == "assign" and st["rv"]["k"] == "agg" and st["rv"].get("adt") == "filters::network::NetworkFilter":
            d = dict(zip(st["rv"]["fields"], st["rv"]["ops"]))
            ids.append(p.expr_operand(d["id"]))
    run.ob("C01.7.rule-identity", "id-is-hash-of-the-line", ids == ["utils::fast_hash(arg:line)"],
           f"NetworkFilter::parse sets id = utils::fast_hash(line) of the unmodified rule text ({ids})", site=p.loc(0), config=cfg)
    ins = F.fn("network_filter_list::insert_dup")
    keyed = [ins.expr_call(t) for b, t in ins.calls(r"binary_search|contains|::eq$|PartialEq")]
    run.touched(ins)
    run.ob("C01.7.rule-identity", "insert_dup-compares-rules", bool(ins.calls()),
           "insert_dup drops a rule only if an equal rule (same id) is already in the bucket", config=cfg)
    # ... and "equal" means the same rule LINE: the ordering / equality insert_dup and Vec::contains use reads the
    # stored `id` of both operands. Any coarser identity (the option-independent get_id() ignores `$tag=`) makes
    # insert_dup drop the second of two rules that differ only in what the coarser identity leaves out.
    for tr, mname in (("std::cmp::PartialOrd", "partial_cmp"), ("std::cmp::PartialEq", "eq")):
        c = F.fns.get(f"<filters::network::NetworkFilter as {tr}>::{mname}")
        if c is None:
            run.ob("C01.7.rule-identity", f"dedup-order:{mname}", False,
                   f"<NetworkFilter as {tr}>::{mname} not found", status="UNDISCHARGED", config=cfg)
            continue
        run.touched(c)
        reads = set()
        for b, i, st in c.statements():
            if st["k"] == "assign":
                reads.add(c.expr_rvalue(st["rv"]))
        for b, t in c.calls():
            reads.update(c.expr_operand(a) for a in t["args"])
        local_calls = [strip_generics(t["callee"]) for b, t in c.calls() if t.get("local")]
        ok = "arg:self.id" in reads and "arg:other.id" in reads
        run.ob("C01.7.rule-identity", f"dedup-order:{mname}", ok,
               f"<NetworkFilter as {tr}>::{mname} compares the stored line hash `id` of both filters "
               f"(crate functions it calls instead: {local_calls}). Two rules that differ only by `$tag=` (or by "
               f"anything else a derived identity leaves out) are different rules: insert_dup must keep both",
               site=c.loc(0), config=cfg)
