"""C11 — list parsing is total, line-independent; hosts == ||host^; rule-type options."""
import re

from analysis import a7
from analysis.facts import strip_generics
from analysis.guards import dominating_conditions, has_cond
from analysis.pathinterp import enumerate_paths, path_calls
from . import a7_cones, a7_common

EXPLANATION = (
    "Decided: (1) totality — panic-site audit (A7) of the whole parsing cone (parse_filter, "
    "parse_filters(_with_metadata), FilterSet::add_*, read_list_metadata, NetworkFilter::parse / "
    "parse_hosts_style, CosmeticFilter::parse, parse_scriptlet_args, Engine::from_rules*, "
    "from_filter_set) in the default configuration and with css-validation: every bounds / overflow "
    "assert, unwrap / expect, panic, str / slice / Vec index, Vec::insert site must be discharged by an "
    "auto class or by a table row whose operand provenance (part of the site key) and dominating "
    "guards are unchanged; regex literals are validated with regex-syntax; (2) line independence — "
    "per-line parsing is a pure function of the line: parse_filter takes no &mut parameter, its cone "
    "writes no static and reaches no interior-mutable state, and parse_filters_with_metadata's per-line "
    "closure calls parse_filter with arguments derived only from {the line, debug, opts}; "
    "(3) hosts == `||host^` — every Ok of parse_hosts_style is the result of NetworkFilter::parse on a "
    "string assembled from \"||\", the (lower-cased, www-stripped, punycoded) hostname and '^'; "
    "(4) rule-type options — decision table of parse_filter over format x rule_types x detected type."
    ' Later additions: the JSON keys of ParseOptions / RuleTypes / FilterFormat are the established ones (read from the derived field visitors); every location of a cosmetic line is recorded or the line is rejected (no iteration of the location loop falls through); parse_filter forwards what the parsers return unchanged (closures that only call Into::into); the per-line loops contain no truncating adapter or `break`; ParseOptions::permissions applies to the rules of its own list (C18.2).'
    ' Round 6: in the standard format detect_filter_type and both rule parsers receive line.trim() itself; every option is recorded or the line rejected (C03.9 borrowed).'
    ' Round 8: hosts entries and `||host^` rules go through the one host normalisation (C02.7 borrowed).'
)
NOT_DECIDED = "That the accepted grammar is the intended one; behaviour of the regex / idna / addr dependencies."


def check(run):
    for cfg in run.cfgs("A", "C"):
        F = run.facts(cfg)
        from analysis.guards import rule_visits_all as _rva
        run.guard("C11.6.every-line", cfg, lambda: _rva(run, "C11.6.every-line", F, cfg, ['lists::parse_filters_with_metadata', 'lists::FilterSet::add_filters', 'lists::FilterSet::add_filter_list'],
                  'Every line of a list is parsed on its own: a rejected line must not end the walk over the remaining lines', minimum=2))
        from . import C01 as _C01e
        be = run.borrow("C01", why="what a list contributes is what its lines parse to under the options given with it: the entry points between the parsers and the stores neither skip nor remember lines")
        run.guard("C11.via.C01.9.entry-points", cfg, lambda: _C01e.rule_entry_points(be, F, cfg))
        from . import C02 as _C02h
        bh = run.borrow("C02", only=r"ascii-host|host-verbatim|www-", why="a hosts entry must name the same host as `||entry^`: both go through the one host normalisation of NetworkFilter::parse (lower-case, strip `www.`, then punycode of exactly that text)")
        run.guard("C11.via.C02.7.host-verbatim", cfg, lambda: (_C02h.rule_host_verbatim(bh, F, cfg), _C02h.rule_ascii_host_verbatim(bh, F, cfg)))
        run.guard("C11.1.totality", cfg, lambda: a7.check_cone(
            run, "C11.1.totality", F, cfg, a7_cones.PARSE_ROOTS, a7_common.rows(), a7_common.ALL,
            floor=140, label="list-parsing"))
        run.guard("C11.2.line-independence", cfg, lambda: rule_independence(run, F, cfg))
        from . import C03 as _C03opt
        bop = run.borrow("C03", why="a line is either parsed as a whole or rejected as a whole: an option the parser does not "
                                    "record may not be dropped from an otherwise accepted line")
        run.guard("C11.via.C03.9.every-entry", cfg + "/recorded", lambda: _C03opt.rule_every_option_recorded(bop, F, cfg))
        run.guard("C11.2.line-independence", cfg + "/locations", lambda: rule_location_loop(run, F, cfg))
        run.guard("C11.2.line-independence", cfg + "/standard-text", lambda: rule_standard_text(run, F, cfg))
        run.guard("C11.3.hosts-delegation", cfg, lambda: rule_hosts(run, F, cfg))
        run.guard("C11.4.rule-types", cfg, lambda: rule_types(run, F, cfg))
        from . import wire_keys as _wk
        run.guard("C11.5.options-wire-keys", cfg, lambda: run.floor(
            "C11.5.options-wire-keys", f"option keys / variants compared [{cfg}]",
            _wk.rule_keys(run, "C11.5.options-wire-keys", F, cfg, _wk.OPTIONS, _wk.OPTIONS_VARIANTS,
                          "Options passed as data (the JS bindings deserialize ParseOptions) would otherwise fall back to "
                          "the defaults: rule_types = All loads the rules a network-only / cosmetic-only load must not"), 8))
        if cfg == "A":
            from . import C18 as _C18g
            b182 = run.borrow("C18", only=r"pairwise-permission|injection-mask", why="ParseOptions::permissions is an option of ONE list: its rules are resolved with that mask, not with the union of all lists that have a rule for the page")
            run.guard("C11.via.C18.2.gate-provenance", cfg, lambda: _C18g.rule_gate(b182, F, cfg))


def rule_location_loop(run, F, cfg):
    """A cosmetic line is rejected as a whole when one of its locations cannot be converted (PunycodeError): every
    iteration of the location loop of parse_before_sharp either records the location (a hash pushed into one of the
    four lists, or the unsupported flag set) or leaves the function. An iteration that merely `continue`s turns
    `bad-idn.example##.ad` into a rule with fewer — possibly no — locations, i.e. into a generic rule."""
    from analysis.guards import natural_loops, loop_of_iteration
    f = F.fn("filters::cosmetic::CosmeticFilter::parse_before_sharp")
    run.touched(f)
    loops = natural_loops(f)
    heads = [(b, t) for b, t in f.calls(r"Iterator>::next$|Iterator::next$") if "locations_before_sharp(" in f.expr_operand(t["args"][0])]
    ok = len(heads) == 1
    skip = []
    if ok:
        hb = heads[0][0]
        lp = loop_of_iteration(f, loops, hb)
        body = lp[1] if lp else set()
        flag = [l for l, nme in f.varnames.items() if nme == "any_unsupported"]
        work = {b for b, t in f.calls(r"^std::vec::Vec::push$") if b in body}
        work |= {b for b, i, st in f.statements() if b in body and st["k"] == "assign" and st["pl"]["l"] in flag and not st["pl"]["p"]
                 and f.expr_rvalue(st["rv"]) == "true"}
        ok = len(work) >= 5
        # from the block the call returns to: can the header be reached again without passing a work block?
        start = heads[0][1].get("t")
        if start is not None and hb in f.reachable_from(start, avoid=work):
            # report where: the first successor edges back to the header from non-work blocks
            skip = [f.loc(x) for x in sorted(body) if x not in work and hb in f.succ(x) and x in f.reachable_from(start, avoid=work)]
    run.ob("C11.2.line-independence", "every-location-recorded-or-line-rejected", ok and not skip,
           "in parse_before_sharp every iteration over the locations pushes a hash / sets the unsupported flag, or returns: no "
           f"path leads back to the loop head without recording the location (skipping edges at {skip[:3]})",
           site=skip[0] if skip else f.loc(0), config=cfg)


def rule_independence(run, F, cfg):
    pf = F.fn("lists::parse_filter")
    run.touched(pf)
    sig = pf.j.get("sig", "")
    run.ob("C11.2.line-independence", "parse_filter:no-&mut", "&mut" not in sig and "&'a mut" not in sig,
           f"parse_filter takes no mutable reference ({sig[:120]})", site=pf.loc(0), config=cfg)
    cone = F.cone(["lists::parse_filter"])
    # statics touched: only Lazy / consts (C06.1) — and none mutable
    muts = [n for n, s in F.statics.items() if s["mut"]]
    run.ob("C11.2.line-independence", "no-static-mut", not muts, f"the crate has no `static mut` ({muts})", config=cfg)
    im = []
    for n in cone:
        f = F.fns[n]
        for b, t in f.calls(r"^std::cell::(RefCell|Cell)::|^std::sync::(Mutex|RwLock)::|atomic::Atomic\w+::(store|fetch_|swap)"):
            im.append((n, strip_generics(t["callee"])))
    run.ob("C11.2.line-independence", "no-interior-mutability-in-cone", not im,
           f"the cone of parse_filter ({len(cone)} functions) uses no Cell / RefCell / Mutex / atomic write ({im[:2]})",
           config=cfg)
    tls = [n for n in cone for b, i, s in F.fns[n].statements() if s["k"] == "assign" and s["rv"]["k"] == "tls"]
    run.ob("C11.2.line-independence", "no-thread-local-in-cone", not tls, f"no thread_local access in the cone ({tls[:2]})", config=cfg)
    # per-line closure of parse_filters_with_metadata
    pm = F.fn("lists::parse_filters_with_metadata")
    run.touched(pm)
    calls = []
    for c in [pm] + F.closures_of(pm.name):
        for b, t in c.calls(r"^lists::parse_filter$"):
            calls.append((c, b, t))
    ok = bool(calls)
    detail = []
    for c, b, t in calls:
        for a in t["args"]:
            o = set(x for x in c.deep_origins(a) if x.startswith(("arg:", "up:", "var:")))
            detail.append(sorted(o))
            for x in o:
                if not re.match(r"^(arg:\w+|up:debug|up:opts)(\.|$)", x):
                    ok = False
                if re.search(r"metadata|network_filters|cosmetic_filters", x):
                    ok = False
    run.ob("C11.2.line-independence", "per-line-call-arguments", ok,
           "parse_filters_with_metadata calls parse_filter(line, debug, opts) with arguments derived only from "
           "the current line, `debug` and `opts` — never from the metadata or the accumulated results",
           site=pm.loc(0), config=cfg, detail=str(detail))
    # the decision to parse a line must not depend on state carried from earlier lines
    state = []
    for c, b, t in calls:
        conds = dominating_conditions(c, b)
        for e in conds:
            ups = set(re.findall(r"up:(\w+)", e))
            if ups - {"debug", "opts"}:
                state.append((c.loc(b), e[:120]))
        if not c.postdominates(b, 0):
            # some path through the per-line closure skips parse_filter: under which decisions?
            for p in enumerate_paths(c):
                if p.end == "return" and b not in p.blocks:
                    for e, v in p.conds:
                        if set(re.findall(r"up:(\w+)", e)) - {"debug", "opts"}:
                            state.append((c.loc(b), "skipped under " + e[:100]))
    # mutable captured state other than the metadata accumulator
    wr = []
    for c in F.closures_of(pm.name):
        for b, i, s in c.statements():
            if s["k"] == "assign" and s["pl"]["p"]:
                tgt = c.expr_place(s["pl"])
                m = re.match(r"^up:(\w+)$", tgt)
                if m and m.group(1) not in ("metadata",):
                    wr.append((c.loc(b, i), tgt))
    run.ob("C11.2.line-independence", "no-cross-line-state", not state and not wr,
           "whether and how a line is parsed does not depend on state carried over from earlier lines: the "
           "parse_filter call in the per-line closure is not control-dependent on a captured variable, and the "
           f"closure writes no captured variable other than the metadata accumulator (offending: {(state + wr)[:2]})",
           site=pm.loc(0), config=cfg,
           detail="deleting a rejected line must leave the interpretation of every other line unchanged")
    # results are accumulated with partition / filter_map(Result::ok): no early exit on Err
    early = [strip_generics(t["callee"]) for c in [pm] + F.closures_of(pm.name) for b, t in c.calls(r"Try>::branch$|FromResidual")]
    run.ob("C11.2.line-independence", "no-early-exit-on-error", not early,
           f"a rejected line does not abort the list: no `?` in parse_filters_with_metadata ({early[:2]})", config=cfg)
    af = F.fn("lists::FilterSet::add_filters")
    run.touched(af)
    ext = [strip_generics(t["callee"]) for b, t in af.calls(r"Vec::(extend|append|push)$|Extend<.*>>::extend$")]
    run.ob("C11.2.line-independence", "add_filters-appends", len(ext) >= 2,
           f"FilterSet::add_filters only appends the parsed rules ({ext})", config=cfg)


def rule_hosts(run, F, cfg):
    h = F.fn("filters::network::NetworkFilter::parse_hosts_style")
    run.touched(h)
    ps = h.calls(r"^filters::network::NetworkFilter::parse$")
    ok = len(ps) == 1
    ret = h.expr_local(0)
    ok_ret = ok and "filters::network::NetworkFilter::parse(" in ret and "Result::Ok" not in ret.replace("NetworkFilter::parse", "")
    run.ob("C11.3.hosts-delegation", "ok-is-parse-result", ok_ret,
           "every Ok of parse_hosts_style is the return value of NetworkFilter::parse (no second code path that "
           "builds the filter directly)", site=h.loc(ps[0][0]) if ps else h.loc(0), config=cfg)
    if ps:
        b, t = ps[0]
        # NetworkFilter::parse normalises the host of a `||host^` rule itself: lower-case, strip ONE `www.`, then punycode.
        # A hosts entry equals that rule only if it reaches the parser before those steps: text that was converted (or
        # trimmed repeatedly) first is normalised a second time, in the other order
        conv = [(strip_generics(t2["callee"]).split("::")[-1], h.loc(b2)) for b2, t2 in h.calls(r"String::push_str$")
                if "idna::domain_to_ascii(" in h.expr_operand(t2["args"][1])]
        run.ob("C11.3.hosts-delegation", "host-converted-by-the-rule-parser-only", not conv,
               "the host spliced into `||host^` has not been through the punycode conversion already "
               f"(converted text pushed at {[c_[1] for c_ in conv]})", site=conv[0][1] if conv else h.loc(b), config=cfg,
               detail="`0.0.0.0 ｗｗｗ.example.com` (full-width www) is converted to `www.example.com` first and then loses the "
                      "`www.` in NetworkFilter::parse: it blocks example.com, while `||ｗｗｗ.example.com^` blocks www.example.com only")
        pushes = [(strip_generics(t2["callee"]).split("::")[-1], h.expr_operand(t2["args"][1])) for b2, t2 in h.calls(r"String::(push|push_str)$")]
        froms = " ".join(h.expr_call(t2) for b2, t2 in h.calls(r"String::from$|From<&str>>::from$|ToOwned|to_string$|String::push_str$"))
        consts = set(v for k, v in pushes if v.startswith(("'", '"')))
        ok_c = '"||"' in (froms + " " + " ".join(consts)) and "'^'" in consts
        run.ob("C11.3.hosts-delegation", "assembled-as-||host^", ok_c,
               f"the parsed string is assembled from \"||\", the normalised hostname and '^' (pushes: {pushes})",
               site=h.loc(b), config=cfg)
        src = [x for k, v in pushes for x in [v] if not v.startswith(("'", '"'))]
        ok_h = bool(src) and all("arg:hostname" in x or "domain_to_ascii" in x for x in src)
        run.ob("C11.3.hosts-delegation", "hostname-provenance", ok_h,
               f"the host part derives from the `hostname` argument (lower-cased, www-stripped, punycoded): {src}", config=cfg)
    # every piece of text spliced between "||" and '^' has passed the invalid-character test IN THE FORM IN WHICH IT IS
    # SPLICED: the argument itself (lower-casing and the www. trim introduce no syntax characters), and the punycode
    # conversion's output once more, because the conversion maps compatibility characters to ASCII (`＊` -> `*`)
    if ps:
        tested = [(b2, h.expr_operand(t2["args"][1])) for b2, t2 in h.calls(r"^regex::Regex::is_match$")
                  if "INVALID_CHARS" in h.expr_operand(t2["args"][0])]
        unt = []
        for b2, t2 in h.calls(r"String::push_str$"):
            v = h.expr_operand(t2["args"][1])
            if v.startswith(('"', "'")):
                continue
            conds = dominating_conditions(h, b2)
            okv = False
            PRE = "regex::Regex::is_match(static:filters::network::NetworkFilter::parse_hosts_style::INVALID_CHARS, "
            for key, val in conds.items():
                if not key.startswith(PRE) or val != 0:
                    continue
                te = key[len(PRE):-1]
                if "domain_to_ascii" in v:
                    okv = okv or ("domain_to_ascii(" in te and te.endswith("@Continue.0"))   # the converted text itself was tested
                else:
                    okv = okv or te == h.local_name(1)        # the raw argument was tested
            if not okv:
                unt.append((v[:90], h.loc(b2)))
        run.ob("C11.3.hosts-delegation", "spliced-text-free-of-rule-syntax", bool(tested) and not unt,
               f"each host text pushed between \"||\" and '^' is covered by an INVALID_CHARS test of that same text ({len(tested)} tests); "
               f"untested: {unt}", site=unt[0][1] if unt else h.loc(0), config=cfg,
               detail="`0.0.0.0 ex＊ample.com` (full-width asterisk) passes the test of the raw text, is mapped to `ex*ample.com` by "
                      "the punycode conversion and is then parsed as the wildcard rule `||ex*ample.com^`, which `||ex＊ample.com^` is not")
    pf = F.fn("lists::parse_filter")
    hs = pf.calls(r"NetworkFilter::parse_hosts_style$")
    ok_g = bool(hs) and all(has_cond(dominating_conditions(pf, b), r"loads_network_rules\(", 1) for b, t in hs)
    # both entry points strip a leading `www.` from the LOWER-CASED host (same normalisation order)
    pn = F.fn("filters::network::NetworkFilter::parse")
    trims = []
    for g in [pn] + F.closures_of(pn.name) + [F.fn("filters::network::NetworkFilter::parse_hosts_style")]:
        for b, t in g.calls(r"trim_start_matches$"):
            if g.expr_operand(t["args"][1]) == '"www."':
                trims.append((g.name.split("::")[-1], bool(re.search(r"to_(ascii_)?lowercase\(", g.expr_operand(t["args"][0])))))
    run.ob("C11.3.hosts-delegation", "www-trim-after-lowercase", len(trims) >= 2 and all(o for _, o in trims),
           "`www.` is stripped from the lower-cased hostname in NetworkFilter::parse as well as in parse_hosts_style, so "
           f"`0.0.0.0 WWW.Example.com` and `||WWW.Example.com^` yield the same rule ({trims})", config=cfg)
    # what the parsers return is handed on as it is: the closures parse_filter maps over the parse results only convert
    # the type (`.map(|f| f.into())`); rewriting a field there (e.g. raw_line in debug mode) makes a hosts entry differ
    # from the `||host^` rule it stands for
    fw = []
    for b, t in pf.calls(r"^std::result::Result::map$"):
        e = pf.expr_call(t)
        m_ = re.match(r"^std::result::Result::map\((filters::network::NetworkFilter::parse_hosts_style|filters::network::NetworkFilter::parse|filters::cosmetic::CosmeticFilter::parse)\(.*, closure\[([^\]]+)\]\(", e)
        if not m_:
            # `.map(ParsedFilter::from)` / `.map(Into::into)`: a conversion function passed by name
            m2 = re.match(r"^std::result::Result::map\((filters::network::NetworkFilter::parse_hosts_style|filters::network::NetworkFilter::parse|filters::cosmetic::CosmeticFilter::parse)\(.*, fn:[^()]*(From<[^()]*>>::from|Into<[^()]*>>::into|convert::From::from|convert::Into::into)\)$", e)
            if m2:
                fw.append((m2.group(1).split("::")[-1], True, ["(conversion function)"], []))
            continue
        c = F.fns.get(m_.group(2))
        callees = [strip_generics(ct["callee"]) for cb, ct in c.calls()] if c else ["?"]
        writes = [c.expr_place(st["pl"]) for cb, ci, st in c.statements() if st["k"] == "assign" and st["pl"]["p"] and st["pl"]["l"] != 0] if c else ["?"]
        fw.append((m_.group(1).split("::")[-1], callees == ["<T as std::convert::Into<U>>::into"] and not writes, callees, writes))
    run.ob("C11.3.hosts-delegation", "parse-results-forwarded-unchanged", len(fw) == 3 and all(x[1] for x in fw),
           "parse_filter maps the results of NetworkFilter::parse, parse_hosts_style and CosmeticFilter::parse through closures "
           f"that only convert the type with Into::into ({[(x[0], x[2], x[3]) for x in fw]})", site=pf.loc(0), config=cfg)
    run.ob("C11.3.hosts-delegation", "hosts-arm-gated", ok_g,
           "in parse_filter the hosts arm reaches parse_hosts_style only under rule_types.loads_network_rules()", config=cfg)


def rule_standard_text(run, F, cfg):
    """parse_filter, standard format: what is classified and what the two rule parsers receive is the line with its
    surrounding whitespace removed -- nothing cut out of it (a `#`, a space and a quote are ordinary characters of
    selectors, scriptlet arguments and patterns)."""
    pf = F.fn("lists::parse_filter")
    run.touched(pf)
    p1 = pf.local_name(1)
    want = f"core::str::trim({p1})"
    seen = {}
    for b, t in pf.calls(r"^lists::detect_filter_type$|^filters::network::NetworkFilter::parse$|^filters::cosmetic::CosmeticFilter::parse$"):
        seen.setdefault(strip_generics(t["callee"]).split("::")[-2] + "::" + strip_generics(t["callee"]).split("::")[-1], []).append(
            pf.expr_operand(t["args"][0]))
    bad = {k: v for k, v in seen.items() if any(x != want for x in v)}
    run.ob("C11.2.line-independence", "standard-rule-text-is-the-trimmed-line", len(seen) == 3 and not bad,
           f"detect_filter_type, NetworkFilter::parse and CosmeticFilter::parse all receive `{want}`; "
           f"differing arguments: { {k: [x[:90] for x in v] for k, v in bad.items()} }", site=pf.loc(0), config=cfg,
           detail="a rule text that is shortened before parsing (inline-comment stripping, quoting, splitting) changes "
                  "selectors and patterns that legitimately contain the cut-off characters")


def rule_types(run, F, cfg):
    pf = F.fn("lists::parse_filter")
    n = 0
    bad = []
    for p in enumerate_paths(pf):
        calls = [strip_generics(t["callee"]) for b, t in path_calls(pf, p, r"NetworkFilter::parse(_hosts_style)?$|CosmeticFilter::parse$")]
        if not calls:
            continue
        n += 1
        d = {}
        variants = [v["name"] for v in F.adt("lists::RuleTypes")["variants"]]
        possible = set(variants)
        for e, v in p.conds:
            m = re.search(r"RuleTypes::(loads_network_rules|loads_cosmetic_rules)\(", e)
            if m:
                d[m.group(1)] = v
            if re.search(r"^discr\((arg:opts\.rule_types|\(.*, arg:opts\.rule_types\)\.1)\)$", e):
                if isinstance(v, int):
                    possible &= {variants[v]} if v < len(variants) else set()
                elif isinstance(v, tuple) and v[0] == "not":
                    possible -= {variants[i] for i in v[1] if i < len(variants)}
        for c in calls:
            if "NetworkFilter::parse" in c and d.get("loads_network_rules") != 1 and not possible <= {"All", "NetworkOnly"}:
                bad.append((c, d, sorted(possible)))
            if "CosmeticFilter::parse" in c and d.get("loads_cosmetic_rules") != 1 and not possible <= {"All", "CosmeticOnly"}:
                bad.append((c, d, sorted(possible)))
    run.floor("C11.4.rule-types", f"paths of parse_filter that reach a rule parser [{cfg}]", n, 3)
    run.ob("C11.4.rule-types", "parser-gated-by-rule-type", not bad,
           "every path of parse_filter that reaches NetworkFilter::parse* has decided loads_network_rules() == true, "
           f"and every path that reaches CosmeticFilter::parse has decided loads_cosmetic_rules() == true; offending: {bad[:2]}",
           site=pf.loc(0), config=cfg)
    rt = F.fn("lists::RuleTypes::loads_network_rules")
    rc = F.fn("lists::RuleTypes::loads_cosmetic_rules")
    variants = [v["name"] for v in F.adt("lists::RuleTypes")["variants"]]
    tn = _variant_table(rt, variants)
    tc = _variant_table(rc, variants)
    ok = tn == {"All": "true", "NetworkOnly": "true", "CosmeticOnly": "false"} and \
        tc == {"All": "true", "NetworkOnly": "false", "CosmeticOnly": "true"}
    run.ob("C11.4.rule-types", "rule-type-tables", ok,
           f"loads_network_rules = {tn}; loads_cosmetic_rules = {tc}", config=cfg)


def _variant_table(f, variants):
    from analysis.pathinterp import path_value
    t = {}
    for p in enumerate_paths(f):
        if p.end != "return":
            continue
        val = path_value(f, p, 0)
        for e, v in p.conds:
            if e.startswith("discr(arg:self"):
                if isinstance(v, int) and v < len(variants):
                    t[variants[v]] = val
                elif isinstance(v, tuple) and v[0] == "not":
                    for i, nme in enumerate(variants):
                        if i not in v[1]:
                            t.setdefault(nme, val)
    if not t:
        # matches!(..) lowered to a comparison chain
        pass
    return t
