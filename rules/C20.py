"""C20 — content-blocking export is total and emits only well-formed, ordered rules (config C)."""
import re

from analysis import a7
from analysis.coverage import fields_read
from analysis.facts import strip_generics
from analysis.guards import dominating_conditions, conditional_defs, has_cond
from . import a7_cones, a7_common

EXPLANATION = (
    "Configuration with the content-blocking feature only (the pinned suite never builds it). Decided: "
    "(1) totality — panic-site audit (A7) of FilterSet::into_content_blocking and both TryFrom conversions; "
    "the `expect(\"All rules should be in debug mode\")` sites are discharged by a who-may-write rule on "
    "FilterSet's rule vectors plus the !debug early return; (2) ASCII — every Ok produced by the two "
    "conversions is dominated by is_ascii() == true and CbRule::is_ascii reads every string-bearing field of "
    "CbRule / CbAction / CbTrigger; (3) if-domain / unless-domain exclusivity — every Ok of the network "
    "conversion is dominated by the test on the two lists that are actually emitted in the trigger; "
    "(4) ordering — in into_content_blocking the ignore-previous-rules entries are appended after all other "
    "rules, and the only later push is ignore_previous_fp_documents(); (5) filters_used bookkeeping — each "
    "push of the original line is control-dependent on the Ok arm of that rule's conversion; (6) every "
    "hostname / pattern text that reaches a url-filter is escaped with the SPECIAL_CHARS regex, whose literal "
    "covers the metacharacters outside Safari's subset; (7) no emitted url-filter can be the empty string "
    "(WebKit rejects a rule list containing one): every value reaching CbTrigger.url_filter is a non-empty "
    "literal, a format! with a non-empty literal piece, or passes an is_empty() test that repairs or rejects."
    ' Round 8: every Ok result of into_content_blocking passes the step that moves ignore-previous-rules entries behind all others (not conditional on a remembered flag).'
)
NOT_DECIDED = "That the emitted pattern matches a superset of the URLs the original rule matches (value level)."

NET = "<content_blocking::CbRuleEquivalent as std::convert::TryFrom<filters::network::NetworkFilter>>::try_from"
COS = "<content_blocking::CbRule as std::convert::TryFrom<filters::cosmetic::CosmeticFilter>>::try_from"


def check(run):
    cfg = "C"
    F = run.facts(cfg)
    run.guard("C20.1.totality", cfg, lambda: a7.check_cone(
        run, "C20.1.totality", F, cfg, a7_cones.EXPORT_ROOTS, a7_common.rows(), a7_common.ALL,
        floor=60, label="content-blocking export"))
    run.guard("C20.1.totality", "who-may-write", lambda: rule_writers(run, F, cfg))
    run.guard("C20.2.ascii", cfg, lambda: rule_ascii(run, F, cfg))
    run.guard("C20.3.if-unless-exclusive", cfg, lambda: rule_exclusive(run, F, cfg))
    run.guard("C20.3.if-unless-exclusive", cfg + "/cosmetic", lambda: rule_exclusive_cosmetic(run, F, cfg))
    run.guard("C20.1.totality", cfg + "/domain-section", lambda: rule_domain_section_guard(run, F, cfg))
    run.guard("C20.4.ordering", cfg, lambda: rule_order(run, F, cfg))
    run.guard("C20.6.escaping", cfg, lambda: rule_escape(run, F, cfg))
    run.guard("C20.6.escaping", cfg + "/sinks", lambda: rule_escape_sinks(run, F, cfg))
    run.guard("C20.7.url-filter-nonempty", cfg, lambda: rule_nonempty(run, F, cfg))
    from . import C12 as _C12
    b12 = run.borrow("C12", why="an emitted `$`-terminated url-filter covers what the engine matches only if the engine sees the whole URL")
    run.guard("C20.via.C12.7.whole-url", cfg, lambda: _C12.rule_whole_url(b12, F, cfg))


def rule_writers(run, F, cfg):
    FS = "lists::FilterSet"
    wr = set()
    for n, f in F.fns.items():
        for b, t in f.calls(r"Vec::(push|extend|append|insert)$|Extend<.*>>::extend$"):
            e = f.expr_operand(t["args"][0])
            if re.search(r"arg:self\.(network_filters|cosmetic_filters)$", e) and f.j.get("impl_self", "") == FS:
                wr.add(n)
        for b, i, s in f.statements():
            if s["k"] == "assign" and s["pl"]["p"] and isinstance(s["pl"]["p"][-1], dict) and s["pl"]["p"][-1].get("adt") == FS \
                    and s["pl"]["p"][-1].get("n") in ("network_filters", "cosmetic_filters"):
                wr.add(n)
    allowed = {"lists::FilterSet::add_filters", "lists::FilterSet::add_filter"}
    run.ob("C20.1.totality", "filterset-writers", wr <= allowed and bool(wr),
           f"FilterSet.network_filters / cosmetic_filters are written only by {sorted(allowed)} (writers: {sorted(wr)})",
           config=cfg)
    for n in sorted(wr):
        f = F.fn(n)
        pf = f.calls(r"^lists::parse_filter(s_with_metadata)?$")
        ok = bool(pf) and all(f.expr_operand(t["args"][1]) == "arg:self.debug" for b, t in pf)
        run.ob("C20.1.totality", f"parsed-with-own-debug:{n.split('::')[-1]}", ok,
               f"{n} parses with self.debug, so raw_line is Some for every stored rule when debug is on", config=cfg)
    ic = F.fn("lists::FilterSet::into_content_blocking")
    rets = [(b, val, conds) for kind, b, val, conds, _ in conditional_defs(ic, 0)]
    ok = any("Result::Err" in val and has_cond(conds, r"arg:self\.debug$", 0) for b, val, conds in rets)
    cl_ok = True
    for c in F.closures_of(ic.name):
        pass
    # everything else in the function is under debug == true
    body_calls = [b for b, t in ic.calls(r"Iterator::for_each$")]
    ok2 = bool(body_calls) and all(has_cond(dominating_conditions(ic, b), r"arg:self\.debug$", 1) for b in body_calls)
    run.ob("C20.1.totality", "debug-early-return", ok and ok2,
           "into_content_blocking returns Err(()) when !self.debug before any rule is converted", site=ic.loc(0), config=cfg)


def rule_ascii(run, F, cfg):
    for name, label in ((NET, "network"), (COS, "cosmetic")):
        f = F.fn(name)
        run.touched(f)
        n = 0
        ok = True
        for kind, b, val, conds, _ in conditional_defs(f, 0):
            if "Result::Ok" not in val:
                continue
            n += 1
            if not has_cond(conds, r"content_blocking::CbRule::is_ascii\(", 1):
                ok = False
        run.ob("C20.2.ascii", f"{label}:ok-dominated-by-is_ascii", ok and n >= 1,
               f"every Ok produced by the {label} conversion ({n} sites) is dominated by CbRule::is_ascii() == true",
               site=f.loc(0), config=cfg)
    ia = F.fn("content_blocking::CbRule::is_ascii")
    cone = [ia] + F.closures_of(ia.name)
    read = set()
    for g in cone:
        for adt in ("content_blocking::CbRule", "content_blocking::CbAction", "content_blocking::CbTrigger"):
            read |= {f"{adt.split('::')[-1]}.{x}" for x in fields_read(g, adt)}
    need = set()
    for adt in ("content_blocking::CbAction", "content_blocking::CbTrigger"):
        for fl in F.fields(adt):
            if "std::string::String" in fl["ty"]:
                need.add(f"{adt.split('::')[-1]}.{fl['name']}")
    missing = sorted(need - read)
    run.ob("C20.2.ascii", "is_ascii-covers-all-strings", not missing and len(need) >= 6,
           f"CbRule::is_ascii reads every string-bearing field {sorted(need)} (missing: {missing})", site=ia.loc(0), config=cfg)


def rule_exclusive(run, F, cfg):
    from analysis.pathinterp import enumerate_paths, CannotDecide
    f = F.fn(NET)
    ag = [(b, i, s) for b, i, s in f.statements() if s["k"] == "assign" and s["rv"]["k"] == "agg" and s["rv"].get("adt") == "content_blocking::CbTrigger"]
    prim = []
    for b, i, s in ag:
        ops = dict(zip(s["rv"]["fields"], s["rv"]["ops"]))
        if "if_domain" not in ops:
            continue
        ei = f.expr_operand(ops["if_domain"])
        eu = f.expr_operand(ops["unless_domain"])
        if ei.startswith("content_blocking::CbRule") or "rule_clone" in ei:
            continue  # derived rules copy the already checked trigger
        prim.append((b, i, ei, eu))
    run.ob("C20.3.if-unless-exclusive", "primary-trigger", len(prim) == 1,
           f"exactly one CbTrigger is built from freshly computed domain lists ({len(prim)})", config=cfg)
    if len(prim) != 1:
        return
    b, i, ei, eu = prim[0]
    # the Err(UnlessAndIfDomainTogetherUnsupported) test: is_some on the same two values, both true => Err
    tests_if = [tb for tb, t in f.calls(r"^std::option::Option::is_some$") if f.expr_operand(t["args"][0]) == ei]
    tests_un = [tb for tb, t in f.calls(r"^std::option::Option::is_some$") if f.expr_operand(t["args"][0]) == eu]
    ok = bool(tests_if) and bool(tests_un)
    detail = f"if_domain=`{ei[:90]}` unless_domain=`{eu[:90]}`; is_some tests on them: {len(tests_if)}/{len(tests_un)}"
    if ok:
        # on no path to the aggregate are both tests true
        try:
            both = 0
            n = 0
            for p in enumerate_paths(f, start=tests_if[0], stop_blocks=[b], budget=200000):
                if p.end != f"stop:{b}":
                    continue
                n += 1
                d = {}
                for e, v in p.conds:
                    if e == f"std::option::Option::is_some({ei})":
                        d["if"] = v
                    if e == f"std::option::Option::is_some({eu})":
                        d["un"] = v
                if d.get("if") == 1 and d.get("un") == 1:
                    both += 1
                if "if" not in d:
                    both += 1
            ok = n > 0 and both == 0
            detail += f"; {n} paths from the test to the trigger construction, {both} with both lists present"
        except CannotDecide as ex:
            run.ob("C20.3.if-unless-exclusive", "trigger-lists", False, f"cannot decide: {ex}", status="UNDISCHARGED", config=cfg)
            return
    run.ob("C20.3.if-unless-exclusive", "trigger-lists", ok,
           "the CbTrigger is built only on paths where is_some() failed for at least one of the two lists that are "
           "actually placed in if_domain / unless_domain (tested on the emitted values, not on the parser's hashes)",
           site=f.loc(b, i), config=cfg, detail=detail)


def rule_order(run, F, cfg):
    f = F.fn("lists::FilterSet::into_content_blocking")
    run.touched(f)
    with f.sites():
        app = [(b, f.expr_operand(t["args"][0]), f.expr_operand(t["args"][1])) for b, t in f.calls(r"^std::vec::Vec::append$")]
        pushes = [(b, f.expr_operand(t["args"][0]), f.expr_operand(t["args"][1])) for b, t in f.calls(r"^std::vec::Vec::push$")]
    ok = len(app) == 1
    late = []
    if ok:
        ab, dst, src = app[0]
        reach = f.reachable_from(ab)
        for b, tgt, val in pushes:
            if b in reach and b != ab and tgt == dst:
                late.append(val)
        ok = all("ignore_previous_fp_documents" in v for v in late)
        # all conversion loops precede the append
        loops = [b for b, t in f.calls(r"Iterator::for_each$")]
        ok = ok and bool(loops) and all(f.dominates(lb, ab) and lb not in reach for lb in loops)
    # the step that puts the ignore-previous-rules entries behind the others is taken on EVERY way to an Ok result (not
    # only when some remembered flag says the set has exceptions: a flag is only as good as every place that must set it)
    oks = [b for b, i, st in f.statements() if st["k"] == "assign" and st["rv"]["k"] == "agg"
           and str(st["rv"].get("adt", "")).endswith("Result") and st["rv"].get("variant") == "Ok"]
    uncond = len(app) == 1 and bool(oks) and all(f.dominates(app[0][0], b) for b in oks)
    run.ob("C20.4.ordering", "separation-unconditional", uncond,
           "every Ok result of into_content_blocking is reached through the step that moves the ignore-previous-rules "
           f"entries behind all other entries ({len(oks)} Ok constructions, {len(app)} append steps)",
           site=f.loc(app[0][0]) if app else f.loc(0), config=cfg)
    run.ob("C20.4.ordering", "ignore-previous-last", ok,
           "other_rules.append(&mut ignore_previous_rules) runs after both conversion loops, and the only rule "
           f"pushed afterwards is ignore_previous_fp_documents() (late pushes: {[v[:50] for v in late]})",
           site=f.loc(app[0][0]) if app else f.loc(0), config=cfg)
    # in the closures: IgnorePreviousRules go to ignore_previous_rules, others to other_rules; filters_used in Ok arm
    n = 0
    for c in F.closures_of(f.name):
        ps = [(b, c.expr_operand(t["args"][0]), c.expr_operand(t["args"][1])) for b, t in c.calls(r"^std::vec::Vec::push$")]
        for b, tgt, val in ps:
            cond = dominating_conditions(c, b)
            if tgt.endswith("filters_used"):
                n += 1
                okb = any(k.startswith("discr(") and ("try_into" in k or "TryInto" in k or "TryFrom" in k) and v == 0 for k, v in cond.items())
                run.ob("C20.5.bookkeeping", f"filters_used#{n}", okb,
                       "the original line is pushed to filters_used only in the Ok arm of that rule's conversion",
                       site=c.loc(b), config=cfg)
            elif tgt.endswith("ignore_previous_rules"):
                okb = any(".typ)" in k and k.startswith("discr(") for k in cond)
                run.ob("C20.4.ordering", f"routing:{c.name[-12:]}:ignore", okb,
                       "a rule is routed to ignore_previous_rules by a match on its action type", site=c.loc(b), config=cfg)
    run.floor("C20.5.bookkeeping", "filters_used pushes", n, 2)
    g = F.fn("content_blocking::ignore_previous_fp_documents")
    e = " ".join(g.expr_rvalue(s["rv"], 2) for b, i, s in g.statements() if s["k"] == "assign")
    run.ob("C20.4.ordering", "fp-document-rule-type", "IgnorePreviousRules" in e,
           "ignore_previous_fp_documents() is itself an ignore-previous-rules entry", config=cfg)


def rule_escape(run, F, cfg):
    f = F.fn(NET)
    lit = None
    for c in F.fns_matching(r"try_from::SPECIAL_CHARS::\{closure#0\}$"):
        for b, t in c.calls(r"^regex::Regex::new$"):
            lit = c.expr_operand(t["args"][0])
    want_chars = set(".+?^${}()|[]\\")
    have = set()
    if lit:
        m = re.search(r"\[(.*)\]", lit.encode().decode("unicode_escape") if False else lit)
        body = lit
        for ch in want_chars:
            if ch in body:
                have.add(ch)
    run.ob("C20.6.escaping", "special-chars-literal", lit is not None and want_chars <= have,
           f"SPECIAL_CHARS = {lit} covers every regex metacharacter outside Safari's subset that can occur in a "
           f"pattern or hostname (missing: {sorted(want_chars - have)})", config=cfg)
    # every format! that embeds the hostname / pattern into a url-filter passes it through SPECIAL_CHARS.replace_all
    n = 0
    bad = []
    for b, t in f.calls(r"^core::fmt::rt::Argument::new_display$"):
        e = f.expr_operand(t["args"][0])
        o = f.deep_origins(t["args"][0])
        from_rule = any(x.startswith("arg:v.hostname") or x.startswith("arg:v.filter") for x in o)
        if not from_rule:
            continue
        n += 1
        if not any("call:regex::Regex::replace_all" in x for x in o):
            bad.append(f.loc(b))
    run.ob("C20.6.escaping", "rule-text-escaped", not bad and n >= 2,
           f"every piece of rule text (hostname / pattern) formatted into a url-filter ({n} sites) went through "
           f"Regex::replace_all (SPECIAL_CHARS escaping); unescaped at: {bad[:3]}", config=cfg)


def _raw_text_sinks(F, f):
    out = []
    for b, t in f.calls():
        for a in t["args"]:
            o = f.origins_operand(a)
            if any(re.search(r"arg:v\.(hostname|filter)", x) for x in o):
                out.append((b, strip_generics(t["callee"])))
    return out


def rule_escape_sinks(run, F, cfg):
    f = F.fn(NET)
    allowed = (r"^regex::Regex::replace_all$", r"Deref>::deref$", r"::as_str$", r"::as_ref$", r"::is_ascii$", r"::len$",
               r"::is_empty$", r"Clone>::clone$", r"::string_view$", r"::iter$")
    sinks = _raw_text_sinks(F, f)
    bad = [(f.loc(b), c) for b, c in sinks if not any(re.search(a, c) for a in allowed)]
    run.ob("C20.6.escaping", "raw-rule-text-sinks", not bad and len(sinks) >= 4,
           f"the raw hostname / pattern text of the rule is handed only to Regex::replace_all (escaping) or to "
           f"views of itself ({len(sinks)} uses); other consumers: {bad[:3]}", site=f.loc(0), config=cfg,
           detail="rule text that reaches a url-filter without SPECIAL_CHARS escaping can contain $ | { [ ( etc. "
                  "and produce a pattern outside Safari's regex subset")


def _template_has_literal(tpl):
    """rustc's compact format template: a length byte (1..0x7f) introduces a literal piece, 0xc0.. an
    argument, 0x00 ends. `tpl` is the python-repr style b"..." text exported by the driver."""
    try:
        raw = eval(tpl)
    except Exception:
        return None
    i = 0
    while i < len(raw):
        c = raw[i]
        if c == 0:
            return False
        if c < 0x80:
            return True
        if c == 0xc0:
            i += 1
            continue
        return None   # argument with a format spec etc.: not decoded
    return False


def rule_nonempty(run, F, cfg):
    f = F.fn(NET)
    run.touched(f)
    aggs = []
    for b, i, st in f.statements():
        if st["k"] == "assign" and st["rv"]["k"] == "agg" and st["rv"].get("adt") == "content_blocking::CbTrigger":
            for fname, op in zip(st["rv"]["fields"], st["rv"]["ops"]):
                if fname == "url_filter":
                    aggs.append((b, f.expr_operand(op)))
    run.floor("C20.7.url-filter-nonempty", f"CbTrigger constructions in the network conversion [{cfg}]", len(aggs), 1)
    # leaves of the value: string literals and format! calls
    fmt_sites = {}
    for b, t in f.calls(r"^std::fmt::Arguments::new$"):
        tpl = f.expr_operand(t["args"][0])
        fmt_sites.setdefault(tpl, []).append(b)
    checks = [(b, t, f.expr_operand(t["args"][0])) for b, t in f.calls(r"^std::string::String::is_empty$|^core::str::is_empty$|^std::str::is_empty$")]
    fixers = [(b, f.expr_operand(t["args"][0]), f.expr_operand(t["args"][1]))
              for b, t in f.calls(r"^std::string::String::push_str$|^<std::string::String as std::ops::AddAssign<&str>>::add_assign$")]
    n_leaves = 0
    res = {}

    def ob(rule, inst, ok, text, **kw):
        prev = res.get(inst)
        if prev is None or (prev[0] and not ok):
            res[inst] = (ok, text, kw)

    for ab, e in aggs:
        lits = set(re.findall(r'(?<![\w)])"((?:[^"\\]|\\.)*)"', re.sub(r'b"(?:[^"\\]|\\.)*"', "", e)))
        for lit in sorted(lits):
            ob("C20.7.url-filter-nonempty", f"literal:{lit}", len(lit) > 0,
                   f"url-filter literal \"{lit}\" is non-empty", site=f.loc(ab), config=cfg)
        for tpl in sorted(set(re.findall(r'Arguments::new\((b"(?:[^"\\]|\\.)*")', e))):
            has = _template_has_literal(tpl)
            if has:
                ob("C20.7.url-filter-nonempty", f"format:{tpl}", True,
                       f"format template {tpl} has a non-empty literal piece", site=f.loc(ab), config=cfg)
                continue
            # possibly empty: every path from the format! to the CbTrigger passes an is_empty() test of this
            # value whose `true` side cannot reach the CbTrigger without appending a non-empty literal
            defs = fmt_sites.get(tpl, [])
            good_checks = []
            for cb, ct, ce in checks:
                if tpl not in ce:
                    continue
                nxt = f.blocks[ct["t"]]["t"] if ct.get("t") is not None else None
                if not nxt or nxt["k"] != "switch":
                    continue
                true_tgts = [tb for v, tb in nxt["targets"] if v != 0]
                if nxt.get("otherwise") is not None:
                    true_tgts.append(nxt["otherwise"])
                fx = {b for b, fe, fl in fixers if fe == ce and re.match(r'^"(?:[^"\\]|\\.)+"$', fl)}
                if true_tgts and all(ab not in f.reachable_from(tt, avoid=fx) and tt != ab for tt in true_tgts):
                    good_checks.append(cb)
            ok = bool(defs) and all(ab not in f.reachable_from(d, avoid=set(good_checks)) for d in defs)
            ob("C20.7.url-filter-nonempty", f"format:{tpl}", ok,
                   f"format template {tpl} has no literal piece, so the url-filter is empty when its arguments "
                   f"are (e.g. rule `^$script`: pattern `^` with the trailing separator removed, both schemes); "
                   f"it must pass an is_empty() test that appends a non-empty literal or rejects the rule before "
                   f"CbTrigger is built (WebKit refuses a list with an empty url-filter)",
                   site=f.loc(defs[0]) if defs else f.loc(ab), config=cfg,
                   detail=f"format! at blocks {defs}; accepted is_empty checks at blocks {good_checks}")
    for inst, (ok, text, kw) in sorted(res.items()):
        run.ob("C20.7.url-filter-nonempty", inst, ok, text, **kw)
    run.floor("C20.7.url-filter-nonempty", f"url-filter leaves [{cfg}]", len(res), 7)


def rule_exclusive_cosmetic(run, F, cfg):
    """cosmetic conversion: the two location lists that end up as if-domain / unless-domain are never both Some"""
    from analysis.pathinterp import enumerate_paths
    f = F.fn(COS)
    run.touched(f)
    ag = [(b, i, st) for b, i, st in f.statements()
          if st["k"] == "assign" and st["rv"]["k"] == "agg" and st["rv"].get("adt") == "content_blocking::CbTrigger"]
    if len(ag) != 1:
        run.ob("C20.3.if-unless-exclusive", "cosmetic:trigger", False, f"{len(ag)} CbTrigger constructions in the cosmetic conversion",
               status="UNDISCHARGED", config=cfg)
        return
    b, i, st = ag[0]
    ops = dict(zip(st["rv"]["fields"], st["rv"]["ops"]))
    # the lists placed in the trigger are the two components of a (hostnames, not_hostnames) pair, swapped for exceptions
    tuples = sorted(tuple(f.vexpr_operand(o) for o in s2["rv"]["ops"]) for b2, i2, s2 in f.statements()
                    if s2["k"] == "assign" and s2["rv"]["k"] == "agg" and s2["rv"].get("agg") == "tuple" and len(s2["rv"]["ops"]) == 2
                    and all(re.match(r"^\$\w+$", f.vexpr_operand(o)) for o in s2["rv"]["ops"]))
    tested = sorted(x for x in (f.vexpr_operand(t["args"][0]) for tb, t in f.calls(r"^std::option::Option::is_some$"))
                    if re.match(r"^\$\w+$", x))
    from analysis.names import renaming as _ren
    ok_src = _ren({"pairs": frozenset(tuples), "tested": frozenset(tested)},
                  {"pairs": frozenset({("$hostnames_vec", "$not_hostnames_vec"), ("$not_hostnames_vec", "$hostnames_vec")}),
                   "tested": frozenset({"$hostnames_vec", "$not_hostnames_vec"})}, fixed=()) is not None and \
        "if_domain" in ops and "unless_domain" in ops
    n = both = undecided = 0
    for p in enumerate_paths(f, stop_blocks=[b], budget=200000):
        if p.end != f"stop:{b}":
            continue
        n += 1
        vals = [v for e, v in p.conds if re.match(r"^std::option::Option::is_some\(content_blocking::non_empty\(", e)]
        if vals and all(v == 1 for v in vals) and len(vals) >= 2:
            both += 1
        if not any(v == 0 for v in vals):
            undecided += 1
    run.ob("C20.3.if-unless-exclusive", "cosmetic:trigger-lists", ok_src and n > 0 and both == 0 and undecided == 0,
           "the cosmetic CbTrigger takes (if_domain, unless_domain) from the pair (hostnames, not_hostnames) — swapped for "
           "exceptions — and is built only on paths where is_some() failed for at least one of the two "
           f"({n} paths, {both} with both present, {undecided} without a failed test; tested {tested}; pairs {tuples})",
           site=f.loc(b, i), config=cfg)


def rule_domain_section_guard(run, F, cfg):
    """the re-parse of the raw line's `domain=` option (with its unwraps and slices) runs only for rules that have
    a positive or a negated domain list, i.e. that do have a `$...domain=` section"""
    from analysis.guards import guarded_by_disjunction
    f = F.fn(NET)
    sites = [(b, t) for b, t in f.calls(r"^std::option::Option::unwrap$|^memchr::memchr$|^core::str::find$|str::find$")
             if "raw_line" in f.vexpr_call(t) or "$opts" in f.vexpr_call(t)]
    bad = []
    for b, t in sites:
        if not guarded_by_disjunction(f, b, r"Option::is_some\((arg:)?v\.opt_domains\)$", 1, r"Option::is_some\((arg:)?v\.opt_not_domains\)$", 1):
            bad.append(f.loc(b))
    run.ob("C20.1.totality", "domain-section-guard", bool(sites) and not bad,
           f"the {len(sites)} raw-line lookups of the `domain=` section are reached only when opt_domains or "
           f"opt_not_domains is Some (a rule without options has no `$` to find); unguarded: {bad[:2]}",
           site=f.loc(sites[0][0]) if sites else f.loc(0), config=cfg)
