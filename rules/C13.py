"""C13 — redirect result is the best permitted matching redirect resource (structural gates)."""
import re

from analysis.facts import strip_generics
from analysis.guards import dominating_conditions, conditional_defs, has_cond
from analysis.pathinterp import enumerate_paths, path_value
from . import routing as R
from . import C05 as _C05, C06 as _C06

EXPLANATION = (
    "Decided gates: (1) every Some(..) produced by ResourceStorage::get_redirect_resource is "
    "dominated by permission.is_default() == true, kind.supports_redirect() == true and the Mime "
    "arm; supports_redirect's extracted variant table excludes exactly Template and "
    "Mime(FnJavascript); (2) the redirect lookup in Blocker::check_parameterised depends only on "
    "request.is_supported, not on whether the request is blocked or excepted; (3) exception "
    "provenance: the cancellation list is filled only from modifier_option of filters with "
    "is_exception(), candidates come only from filters with !is_exception() and every candidate "
    "update is dominated by !exceptions.contains(..); (4) `redirect=` also blocks and "
    "`redirect-rule=` does not (parse sets ALSO_BLOCK_REDIRECT in the Redirect arm only; routing "
    "table sends a redirect rule to a blocking list iff that bit is set); (5) resources are looked "
    "up by name then alias, and only get_redirect_resource / get_permissioned_resource may call the "
    "raw lookup."
    ' Later additions: a redirect rule, important or not, is filed under a blocking list iff ALSO_BLOCK_REDIRECT; equal priorities are resolved by a strict comparison of the resource names (truth table over the update decision); the JSON keys of Resource / ResourceType and the media-type strings of MimeType are the established ones, writer and reader agree; add_resource writes nothing before its last rejection; use_resources replaces the storage.'
    ' Round 8: every redirect rule and redirect exception reaches the redirects list as a function of the rule alone (C04.1 routing borrowed).'
)
NOT_DECIDED = "Selection of the maximum over runtime priorities, priority parsing and tie behaviour."


def check(run):
    for cfg in run.cfgs("A", "B"):
        F = run.facts(cfg)
        run.guard("C13.1.permission-kind-gate", cfg, lambda: rule_gate(run, F, cfg))
        run.guard("C13.2.independent-of-blocking", cfg, lambda: rule_independent(run, F, cfg))
        run.guard("C13.3.exception-provenance", cfg, lambda: rule_exceptions(run, F, cfg))
        run.guard("C13.4.redirect-vs-redirect-rule", cfg, lambda: rule_block(run, F, cfg))
        from . import C04 as _C04r
        b4r = run.borrow("C04", only=r"function-of-modelled-predicates|routing", why="every redirect rule and every redirect exception has to reach the redirects list, whatever else is loaded with it: the list a rule is filed in depends on the rule alone")
        run.guard("C13.via.C04.1.routing", cfg, lambda: _C04r.rule_routing(b4r, F, cfg))
        run.guard("C13.5.lookup", cfg, lambda: rule_lookup(run, F, cfg))
        run.guard("C13.6.priority-suffix", cfg, lambda: rule_priority(run, F, cfg))
        run.guard("C13.6.priority-suffix", cfg + "/slices", lambda: rule_priority_slices(run, F, cfg))
        run.guard("C13.6.priority-suffix", cfg + "/ties", lambda: rule_tie_break(run, F, cfg))
        run.guard("C13.5.lookup", cfg + "/registration", lambda: rule_registration_atomic(run, F, cfg))
        run.guard("C13.5.lookup", cfg + "/use_resources", lambda: rule_use_resources(run, F, cfg))
        from . import wire_keys as _wk
        run.guard("C13.7.resource-wire-keys", cfg + "/mime", lambda: run.floor(
            "C13.7.resource-wire-keys", f"media types compared [{cfg}]", _wk.rule_mime(run, "C13.7.resource-wire-keys", F, cfg), 22))
        run.guard("C13.7.resource-wire-keys", cfg, lambda: run.floor(
            "C13.7.resource-wire-keys", f"resource keys / variants compared [{cfg}]",
            _wk.rule_keys(run, "C13.7.resource-wire-keys", F, cfg, _wk.RESOURCE, _wk.RESOURCE_VARIANTS,
                          "A resource list that spells the key as before would otherwise load with the field defaulted: "
                          "a resource that requires a permission would become redirectable, an alias or kind would be lost"), 14))
        b = run.borrow("C06", why="redirect rules added one by one must reach the same lists as in a batch build")
        run.guard("C13.via.C06.4.batch-incremental", cfg, lambda: _C06.rule_routing(b, F, cfg))
        b2 = run.borrow("C05", only=r"field:(modifier_option|mask)\b", why="redirect rules with different targets must not be fused")
        run.guard("C13.via.C05.1.fusion-key", cfg, lambda: _C05.rule_key(b2, F, cfg))
        from . import C03 as _C03
        b3 = run.borrow("C03", only=r"flags-set-true|name:redirect|bit:redirect|string-payloads-verbatim", why="$redirect / $redirect-rule must set IS_REDIRECT (and ALSO_BLOCK_REDIRECT)")
        run.guard("C13.via.C03.1.option-chain", cfg, lambda: (_C03.rule_chain(b3, F, cfg), _C03.rule_polarity(b3, F, cfg), _C03.rule_payloads(b3, F, cfg)))
        b32 = run.borrow("C03", why="IS_REDIRECT / ALSO_BLOCK_REDIRECT are bits of the same mask as the request-type bits: a type bit that "
                                    "coincides with one of them makes every redirect rule pass the type test of that request type")
        run.guard("C13.via.C03.2.bit-layout", cfg, lambda: _C03.rule_bits(b32, F, cfg))
        from . import C07 as _C07g
        bg = run.borrow("C07", only=r"check_all", why="every matching rule of the list is collected by check_all")
        run.guard("C13.via.C07.2.gate-shape", cfg, lambda: _C07g.rule_gate_shape(bg, F, cfg))


def rule_gate(run, F, cfg):
    g = F.fn("resources::resource_storage::ResourceStorage::get_redirect_resource")
    cl = F.closures_of(g.name)
    run.touched(g, *cl)
    # the raw lookup result flows into and_then(closure)
    n = 0
    RES = r"(arg:resource|.*ResourceStorage::get_internal_resource\(.*\)(@Continue\.0|@Some\.0))"
    # the gate may sit in the closure of `lookup.and_then(|resource| ..)` or, after `let resource = lookup?;`, in the
    # function itself: every data-URL is produced under the three tests of the looked-up resource
    for c in list(cl) + [g]:
        for kind, b, val, conds, _ in conditional_defs(c, 0):
            if "Option::Some" not in val or "format" not in val and "String" not in val and "Some{0:" not in val:
                continue
            if c is g and "and_then" in val:
                continue        # the closure form: its Some results are examined in the closure
            n += 1
            ok_p = has_cond(conds, r"PermissionMask::is_default\(" + RES + r"\.permission\)$", 1)
            ok_k = has_cond(conds, r"ResourceType::supports_redirect\(" + RES + r"\.kind\)$", 1)
            ok_m = any(re.search(r"^discr\(" + RES + r"\.kind\)$", e) and v == 0 for e, v in conds.items())
            run.ob("C13.1.permission-kind-gate", f"some#{n}", ok_p and ok_k and ok_m,
                   f"a redirect data-URL is produced only under permission.is_default() [{ok_p}], "
                   f"kind.supports_redirect() [{ok_k}] and kind == Mime(..) [{ok_m}]",
                   site=c.loc(b), config=cfg,
                   detail="a resource that requires permission bits must never be served as a redirect")
    run.floor("C13.1.permission-kind-gate", f"Some(..) results in get_redirect_resource [{cfg}]", n, 1)
    raw = g.calls(r"^resources::resource_storage::ResourceStorage::get_internal_resource$")
    at = g.calls(r"^std::option::Option::and_then$")
    ok = len(raw) == 1 and ((len(at) == 1 and "get_internal_resource" in g.expr_operand(at[0][1]["args"][0]) and "and_then" in g.expr_local(0))
                            or (not at and n >= 1))
    run.ob("C13.1.permission-kind-gate", "result-through-gate", ok,
           "get_redirect_resource has one raw lookup, whose result reaches the caller only through the gate "
           "(`.and_then(<gate closure>)`, or `let resource = lookup?;` followed by the gate)", site=g.loc(0), config=cfg)
    # supports_redirect table
    s = F.fn("resources::ResourceType::supports_redirect")
    run.touched(s)
    rt = [v["name"] for v in F.adt("resources::ResourceType")["variants"]]
    mt = [v["name"] for v in F.adt("resources::MimeType")["variants"]]
    table = {}
    for p in enumerate_paths(s):
        if p.end != "return":
            continue
        val = path_value(s, p, 0)
        kind = None
        mime = None
        for e, v in p.conds:
            if e == "discr(arg:self)":
                kind = v
            elif e.startswith("discr(arg:self@Mime"):
                mime = v
        table[(str(kind), str(mime))] = val
    # evaluate: for each (ResourceType variant, MimeType variant) find the matching row
    def lookup(ki, mi):
        for (k, m), val in table.items():
            kk = _match(k, ki)
            mm = True if m == "None" else _match(m, mi)
            if kk and mm:
                return val
        return None
    bad = []
    n = 0
    for ki, kn in enumerate(rt):
        for mi, mn in (enumerate(mt) if kn == "Mime" else [(None, None)]):
            val = lookup(ki, mi)
            n += 1
            refused = kn == "Template" or (kn == "Mime" and mn == "FnJavascript")
            got_false = val is not None and (val in ("false", "Not(true)") or val.startswith("Not(true"))
            got_true = val is not None and (val in ("true", "Not(false)"))
            if refused != got_false or (not refused and not got_true):
                bad.append((kn, mn, val))
    run.ob("C13.1.permission-kind-gate", "supports_redirect-table", not bad and n >= 4,
           f"ResourceType::supports_redirect is false exactly for Template and Mime(FnJavascript) over "
           f"{n} (kind, mime) combinations; mismatches: {bad[:3]}", site=s.loc(0), config=cfg)


def _match(cond, idx):
    if cond == "None":
        return True
    if idx is None:
        return False
    if cond.startswith("('not'"):
        nums = [int(x) for x in re.findall(r"\d+", cond)]
        return idx not in nums
    try:
        return int(cond) == idx
    except ValueError:
        return False


def rule_independent(run, F, cfg):
    f = F.fn("blocker::Blocker::check_parameterised")
    run.touched(f)
    ps = [(b, t) for b, t in f.calls(r"^network_filter_list::NetworkFilterList::check_all$")
          if f.expr_operand(t["args"][0]).endswith(".redirects")]
    ok = len(ps) == 1
    detail = ""
    if ok:
        c = dominating_conditions(f, ps[0][0])
        detail = "; ".join(f"{e[-60:]}={v}" for e, v in c.items())
        ok = all(re.search(r"arg:request\.is_supported$", e) for e in c) and len(c) == 1
    run.ob("C13.2.independent-of-blocking", "redirects-probe", ok,
           "redirects.check_all is control-dependent only on request.is_supported (the redirect does "
           "not depend on whether the request ends up blocked or excepted)",
           site=f.loc(ps[0][0]) if ps else "", config=cfg, detail=detail)
    # the redirect field of the result comes from get_redirect_resource only
    cl = F.closures_of(f.name)
    callers = [c.name for c in cl if c.calls(r"ResourceStorage::get_redirect_resource$")]
    run.ob("C13.2.independent-of-blocking", "redirect-from-storage", bool(callers),
           "BlockerResult.redirect is produced by ResourceStorage::get_redirect_resource", config=cfg)


def _call_parts(e):
    """("callee", [top-level argument strings]) of a rendered call expression `callee(a, b, ..)`, else None"""
    i = e.find("(")
    if i < 0 or not e.endswith(")"):
        return None
    depth, args, cur = 0, [], ""
    for ch in e[i + 1:-1]:
        if ch in "([{<":
            depth += 1
        elif ch in ")]}>":
            depth -= 1
        if ch == "," and depth == 0:
            args.append(cur.strip())
            cur = ""
        else:
            cur += ch
    if cur.strip():
        args.append(cur.strip())
    return e[:i], args


def _exception_chain(F, e):
    """`e` renders collect(<adapters over the redirects probe>): only predicate / mapping adapters, one predicate
    is exactly is_exception(<element>), the collected value is the element's modifier_option"""
    parts = _call_parts(re.sub(r"@bb\d+", "", e))
    if not parts or parts[0] != "std::iter::Iterator::collect" or len(parts[1]) != 1:
        return False
    cur = parts[1][0]
    saw_exc = saw_value = False
    outermost = True
    while True:
        parts = _call_parts(cur)
        if not parts:
            return False
        callee, args = parts
        if callee in ("core::slice::iter", "std::iter::IntoIterator::into_iter"):
            return saw_exc and saw_value and "NetworkFilterList::check_all(arg:self.redirects" in args[0]
        m = re.match(r"^std::iter::Iterator::(filter|filter_map|map)$", callee)
        mc = re.match(r"^closure\[([^\]]+)\]\(\)$", args[1]) if m and len(args) == 2 else None
        c = F.fns.get(mc.group(1)) if mc else None
        if c is None:
            return False
        ret = c.expr_local(0)
        if m.group(1) == "filter":
            if re.match(r"^filters::network::NetworkFilterMaskHelper::is_exception\(arg:\w+\)$", ret):
                saw_exc = True
            else:
                return False        # any other predicate narrows the cancellation list
        else:
            if outermost and re.search(r"arg:\w+\.modifier_option", ret) and "Not(" not in ret:
                saw_value = True
            elif not outermost:
                return False
        if m.group(1) != "filter":
            outermost = False
        cur = args[0]


def rule_exceptions(run, F, cfg):
    f = F.fn("blocker::Blocker::check_parameterised")
    with f.sites():
        pushes = []
        for b, t in f.calls(r"^std::vec::Vec::push$"):
            tgt = f.expr_operand(t["args"][0])
            val = f.expr_operand(t["args"][1])
            m = re.search(r"std::vec::Vec::new@(bb\d+)", tgt)
            pushes.append((b, m.group(1) if m else tgt[:40], val))
        contains = []
        for b, t in f.calls(r"^core::slice::contains$|^std::vec::Vec::contains$|::contains$"):
            tgt = f.expr_operand(t["args"][0])
            m = re.search(r"std::vec::Vec::new@(bb\d+)", tgt)
            if m:
                contains.append((b, m.group(1), f.expr_operand(t["args"][1])))
    exc_site = None
    ok_push = bool(pushes)
    for b, site, val in pushes:
        c = dominating_conditions(f, b)
        if not (has_cond(c, r"::is_exception\(", 1) and "modifier_option" in val):
            ok_push = False
        exc_site = site
    if not pushes:
        # the same list written as an iterator chain:
        #   redirect_filters.iter().filter(|f| f.is_exception()).filter_map(|f| f.modifier_option.as_ref()).collect()
        with f.sites():
            for b, t in f.calls(r"::contains$"):
                tgt = re.sub(r"@bb\d+", "", f.expr_operand(t["args"][0]))
                if tgt.startswith("std::iter::Iterator::collect("):
                    ok_push = _exception_chain(F, tgt)
                    exc_site = "chain"
                    contains.append((b, "chain", f.expr_operand(t["args"][1])))
    run.ob("C13.3.exception-provenance", "exceptions-filled-from-exceptions", ok_push,
           "the cancellation list is filled only with modifier_option of redirect filters with "
           "is_exception()", site=f.loc(pushes[0][0]) if pushes else "", config=cfg)
    ok_c = bool(contains) and all(s == exc_site and "modifier_option" in v for _, s, v in contains)
    run.ob("C13.3.exception-provenance", "contains-on-exception-list", ok_c,
           "candidates are tested with exceptions.contains(<candidate's modifier_option>)", config=cfg)
    # candidate updates: assignments of Some((resource, priority)) to the accumulator
    n = 0
    ok_u = True
    for b, i, s in f.statements():
        if s["k"] == "assign" and s["rv"]["k"] == "agg" and s["rv"].get("variant") == "Some":
            e = f.expr_rvalue(s["rv"], depth=2)
            if not re.search(r"Some\{0: \(", e):
                continue
            c = dominating_conditions(f, b)
            if not any("is_exception" in k for k in c):
                continue
            n += 1
            if not (has_cond(c, r"::is_exception\(", 0) and has_cond(c, r"::contains\(", 0)):
                ok_u = False
    run.ob("C13.3.exception-provenance", "candidate-updates-guarded", ok_u and n >= 2,
           f"every update of the best (resource, priority) candidate ({n} sites) is dominated by "
           f"!is_exception() and !exceptions.contains(..)", config=cfg)
    # the priority comparison keeps the strictly greater
    gt = [1 for b, i, s in f.statements() if s["k"] == "assign" and s["rv"]["k"] == "binop" and s["rv"]["op"] == "Gt"]
    run.ob("C13.3.exception-provenance", "max-by-priority", bool(gt),
           "a later candidate replaces the current one only if its priority is greater (Gt comparison present)",
           config=cfg)


def rule_block(run, F, cfg):
    p = F.fn("filters::network::NetworkFilter::parse")
    arms = {}
    for c in F.closures_of(p.name):
        for b, t in c.calls(r"::set$"):
            e = c.expr_operand(t["args"][1])
            m = re.search(r"NetworkFilterMask::(ALSO_BLOCK_REDIRECT|IS_REDIRECT)=", e)
            if m:
                cond = dominating_conditions(c, b)
                var = [v for k, v in cond.items() if k == "discr(arg:option)"]
                arms.setdefault(m.group(1), set()).update(var)
    opt = [v["name"] for v in F.adt("filters::abstract_network::NetworkFilterOption")["variants"]]
    also = {opt[i] for i in arms.get("ALSO_BLOCK_REDIRECT", set()) if isinstance(i, int) and i < len(opt)}
    isr = {opt[i] for i in arms.get("IS_REDIRECT", set()) if isinstance(i, int) and i < len(opt)}
    run.ob("C13.4.redirect-vs-redirect-rule", "parse-bits", also == {"Redirect"} and isr == {"Redirect", "RedirectRule"},
           f"parse sets IS_REDIRECT in the {sorted(isr)} arms and ALSO_BLOCK_REDIRECT in the {sorted(also)} arm "
           f"(expected Redirect+RedirectRule / Redirect only)", site=p.loc(0), config=cfg)
    tn, _ = R.table_new(F)
    bad = []
    # ($important included: an important redirect-rule still only supplies a replacement)
    for v in R.valuations({"is_badfilter": 0, "bad_id": 0, "exists": 0, "is_redirect": 1, "is_csp": 0,
                           "is_removeparam": 0, "is_generic_hide": 0, "is_exception": 0}):
        d = tn.eval(v) or frozenset()
        blocking = bool(d & {"filters", "tagged_filters_all", "importants"})
        if blocking != bool(v["also_block_redirect"]) or "redirects" not in d:
            bad.append((R.fmt_val(v), sorted(d)))
    run.ob("C13.4.redirect-vs-redirect-rule", "routing", not bad,
           "a (non-exception) redirect rule, important or not, is stored in `redirects` and additionally in "
           f"a blocking list iff ALSO_BLOCK_REDIRECT is set; mismatches: {bad[:2]}", config=cfg)


def rule_lookup(run, F, cfg):
    callers = sorted(set(f.name.split("::{closure")[0] for f, b, t in
                         F.callers_of(r"^resources::resource_storage::ResourceStorage::get_internal_resource$")))
    allowed = {"resources::resource_storage::ResourceStorage::get_redirect_resource",
               "resources::resource_storage::ResourceStorage::get_permissioned_resource"}
    run.ob("C13.5.lookup", "who-may-call-raw-lookup", set(callers) <= allowed and len(callers) == 2,
           f"get_internal_resource (no permission check) is called only by {sorted(allowed)}; callers: {callers}",
           config=cfg)
    g = F.fn("resources::resource_storage::ResourceStorage::get_internal_resource")
    run.touched(g)
    gets = g.calls(r"^std::collections::HashMap::get$")
    fields = [re.search(r"arg:self\.(\w+)", g.expr_operand(t["args"][0])) for b, t in gets]
    fields = [m.group(1) for m in fields if m]
    ok = fields[:1] == ["resources"] and "aliases" in fields
    # alias lookup only when the name lookup missed
    if ok:
        for b, t in gets:
            if "aliases" in g.expr_operand(t["args"][0]):
                c = dominating_conditions(g, b)
                ok = ok and any("self.resources" in e and v in (0, ("not", (1,))) for e, v in c.items())
    if not ok and fields == ["resources"]:
        # `self.resources.get(ident).or_else(|| self.resources.get(self.aliases.get(ident)?))`: the closure of or_else
        # runs exactly when the lookup by name missed
        oe = g.calls(r"^std::option::Option::or_else$")
        if len(oe) == 1 and re.match(r"^std::collections::HashMap::get\(arg:self\.resources, arg:\w+\)$", g.expr_operand(oe[0][1]["args"][0])):
            mcl = re.search(r"closure\[([^\]]+)\]", g.expr_operand(oe[0][1]["args"][1]))
            c_ = F.fns.get(mcl.group(1)) if mcl else None
            if c_ is not None:
                cf = [re.search(r"up:self\.(\w+)", c_.expr_operand(t["args"][0])) for b, t in c_.calls(r"^std::collections::HashMap::get$")]
                cf = [m.group(1) for m in cf if m]
                fields = fields + cf
                ok = sorted(cf) == ["aliases", "resources"] and "or_else" in g.expr_local(0)
    run.ob("C13.5.lookup", "name-then-alias", ok,
           f"get_internal_resource looks the identifier up by name first and by alias only if that "
           f"missed (lookups: {fields})", site=g.loc(0), config=cfg)


def rule_priority(run, F, cfg):
    """(resource, priority) pairs: a resource name that is a PREFIX of the option value (text before
    the last ':') may only be paired with a priority that was successfully parsed from the suffix;
    otherwise the whole option value is the resource name with priority 0 (malformed suffixes)."""
    f = F.fn("blocker::Blocker::check_parameterised")
    n = 0
    bad = []
    for b, i, s in f.statements():
        if s["k"] != "assign" or s["rv"]["k"] != "agg" or s["rv"]["agg"] != "tuple" or len(s["rv"]["ops"]) != 2:
            continue
        name = f.expr_operand(s["rv"]["ops"][0])
        prio = f.expr_operand(s["rv"]["ops"][1])
        if "modifier_option" not in name or name.startswith("φ{") or "φ{" in name.split("(")[0]:
            continue  # a merge of earlier constructions, not a construction itself
        n += 1
        is_prefix = "RangeTo" in name or "split" in name
        parsed = bool(re.search(r"core::str::parse\(.*\)@Ok\.0$", prio))
        if is_prefix and not parsed:
            bad.append((f.loc(b, i), name[-80:], prio[-80:]))
        if not is_prefix and prio != "0":
            bad.append((f.loc(b, i), name[-80:], prio[-80:]))
    run.floor("C13.6.priority-suffix", f"(resource, priority) constructions [{cfg}]", n, 3)
    run.ob("C13.6.priority-suffix", "prefix-only-with-parsed-priority", not bad,
           "the text before the last ':' is used as the resource name only together with a priority "
           "that parsed as an integer; if the suffix is not an integer the WHOLE option value is the "
           f"resource name (priority 0); offending constructions: {bad[:2]}",
           site=bad[0][0] if bad else f.loc(0), config=cfg,
           detail="e.g. `$redirect=abp-resource:blank-js` must look up `abp-resource:blank-js`, not `abp-resource`")


def rule_priority_slices(run, F, cfg):
    """`name:priority`: split at the LAST ':', the priority is everything after it, the resource everything
    before it; a higher priority replaces the current best (compared modulo the names of the locals)"""
    from analysis.names import renaming
    f = F.fn("blocker::Blocker::check_parameterised")
    sp = [f.vexpr_call(t) for b, t in f.calls(r"memchr::memrchr$|find_char_reverse$|str::rfind$")]
    subj = None
    if len(sp) == 1:
        m = re.match(r"^(?:memchr::memrchr|utils::find_char_reverse)\(58, std::string::String::as_bytes\((\$\w+)\)\)$", sp[0])
        subj = m.group(1) if m else None
    idx = sorted(re.sub(r"<std::string::String as std::ops::Index<I>>::index", "index", f.vexpr_call(t))
                 for b, t in f.calls(r"index$") if subj and subj in f.vexpr_call(t))
    cmp_ = []
    for b, i, st in f.statements():
        if st["k"] == "assign" and st["rv"]["k"] == "binop" and st["rv"]["op"] in ("Gt", "Ge", "Lt", "Le"):
            a, b2 = f.vexpr_operand(st["rv"]["a"]), f.vexpr_operand(st["rv"]["b"])
            if re.match(r"^\$\w+$", a) and re.match(r"^\$\w+$", b2):
                # normalise to "greater": (new, best)
                cmp_.append((a, b2) if st["rv"]["op"] in ("Gt", "Ge") else (b2, a))
    # the candidate priority is the one parsed from the suffix
    got = {"split": sp, "slices": idx, "cmp": cmp_}
    want = {"split": ["memchr::memrchr(58, std::string::String::as_bytes($redirect))"],
            "slices": sorted(["index($redirect, std::ops::RangeFrom::RangeFrom{start: ($idx AddWithOverflow 1).0})",
                              "index($redirect, std::ops::RangeTo::RangeTo{end: $idx})",
                              "index($redirect, std::ops::RangeFull::RangeFull{})",
                              "index($redirect, std::ops::RangeFull::RangeFull{})"]),
            "cmp": [("$priority", "$p1")]}
    # sorted lists depend on names only through the common subject prefix: compare as multisets
    from collections import Counter
    got["slices"] = dict(Counter(got["slices"]))
    want["slices"] = dict(Counter(want["slices"]))
    ren = renaming(got, want, fixed=())
    run.ob("C13.6.priority-suffix", "slices", ren is not None,
           "the option is split at the last ':' into resource = redirect[..idx] and priority = redirect[idx+1..] (fallback: "
           "the whole string with priority 0), and the candidate replaces the current best only when its priority is "
           f"greater (ties: either order); found split {sp}, slices {idx}, comparisons {cmp_}", site=f.loc(0), config=cfg)
    # which side of the comparison is the candidate: the variable bound from the parsed suffix
    if ren:
        cand = ren.get("$priority")
        pr = [f.vexpr_call(t) for b, t in f.calls(r"str::parse$|::parse$")]
        run.ob("C13.6.priority-suffix", "higher-priority-wins", len(cmp_) == 1 and cand is not None,
               f"the compared candidate `{cand}` is the priority of the rule at hand and the other operand the best so far",
               config=cfg)


def rule_tie_break(run, F, cfg):
    """Among matching redirect rules the best one is chosen by (priority, resource name): a candidate replaces the best
    so far iff its priority is greater, or equal with a name that compares strictly before / after the current one.
    A total order on the candidates makes the choice independent of the order in which the matching rules are
    visited, which differs between an optimised and an unoptimised engine and between batch and incremental loading."""
    import itertools
    f = F.fn("blocker::Blocker::check_parameterised")
    best = [l for l, nme in f.varnames.items() if nme == "resource_and_priority"]
    upd = [b for b, i, st in f.statements() if st["k"] == "assign" and st["pl"]["l"] in best and not st["pl"]["p"]
           and f.vexpr_rvalue(st["rv"]).startswith("std::option::Option::Some{")]
    sw = [b for b in sorted(f.normal_blocks()) if f.blocks[b]["t"]["k"] == "switch"
          and f.vexpr_operand(f.blocks[b]["t"]["discr"]) == "discr($resource_and_priority)"] if best else []
    ok_shape = len(best) == 1 and len(sw) == 1 and len(upd) == 2
    rows = []
    if ok_shape:
        t = f.blocks[sw[0]]["t"]
        some_arm = [tg for v, tg in t["targets"] if v == 1]
        in_some = [b for b in upd if some_arm and b in f.reachable_from(some_arm[0], avoid={sw[0]}) and f.dominates(some_arm[0], b)]
        ok_shape = len(in_some) == 1 and bool(some_arm)
    if ok_shape:
        target = in_some[0]
        join = f.blocks[target]["t"].get("t")

        def walk(b, conds, seen):
            if b == target:
                rows.append((dict(conds), "update"))
            elif b == join:
                rows.append((dict(conds), "keep"))
            elif b not in seen and len(seen) < 40:
                t2 = f.blocks[b]["t"]
                if t2["k"] == "switch":
                    d = f.vexpr_operand(t2["discr"])
                    vals = [v for v, _ in t2["targets"]]
                    for v, tg in t2["targets"]:
                        walk(tg, conds + [(d, v)], seen | {b})
                    walk(t2["otherwise"], conds + [(d, 1 if vals == [0] else "else")], seen | {b})
                elif t2["k"] in ("goto", "call", "assert", "drop") and t2.get("t") is not None:
                    walk(t2["t"], conds, seen | {b})
                else:
                    rows.append((dict(conds), "?"))
        walk(some_arm[0], [], frozenset())
    atoms = {}
    unknown = set()
    for conds, out in rows:
        for e in conds:
            m = re.match(r"^\((\$\w+) (Gt|Lt|Eq) (\$\w+)\)$", e)
            m2 = re.match(r"^std::cmp::impls::(lt|gt|le|ge)\((\$\w+), (\$\w+)\)$", e)
            if m:
                atoms[e] = ("P" + m.group(2), m.group(1), m.group(3))
            elif m2:
                atoms[e] = ("N", m2.group(2), m2.group(3))
            else:
                unknown.add(e[:100])
    kinds = sorted(a[0] for a in atoms.values())
    modelled = ok_shape and not unknown and kinds in (["N", "PEq", "PGt"], ["N", "PEq", "PLt"], ["PGt"], ["PLt"]) and all(o != "?" for _, o in rows)
    run.ob("C13.6.priority-suffix", "tie-break:modelled", modelled,
           f"the replacement of the best redirect so far is decided by one priority order comparison, one priority equality "
           f"and one strict comparison of the resource names ({sorted(atoms)}; unmodelled: {sorted(unknown)[:2]}; shape {ok_shape})",
           status=None if modelled else "UNDISCHARGED", site=f.loc(sw[0]) if sw else f.loc(0), config=cfg)
    if not modelled:
        return
    if len(kinds) == 1:
        run.ob("C13.6.priority-suffix", "tie-break:by-name", False,
               "the best redirect so far is replaced on a strictly greater priority only: among matching redirect rules of "
               "equal priority the first one visited wins, and the visiting order is the bucket order, which optimisation and "
               "incremental loading change", site=f.loc(sw[0]), config=cfg)
        return
    # the priority comparisons are between the same two variables, the name comparison between the two names bound
    # together with them
    keys = {a[0]: e for e, a in atoms.items()}
    ord_k = "PGt" if "PGt" in keys else "PLt"
    pa, pb = atoms[keys[ord_k]][1:], atoms[keys["PEq"]][1:]
    same_vars = set(pa) == set(pb)
    bad = []
    for g_, e_, n_ in itertools.product((0, 1), repeat=3):
        if g_ and e_:
            continue
        v = {keys[ord_k]: g_, keys["PEq"]: e_, keys["N"]: n_}
        got = {out for conds, out in rows if all(v[k] == x for k, x in conds.items())}
        want = "update" if (g_ or (e_ and n_)) else "keep"
        if got != {want}:
            bad.append((g_, e_, n_, sorted(got), want))
    run.ob("C13.6.priority-suffix", "tie-break:by-name", same_vars and not bad,
           "a matching redirect replaces the best so far iff its priority is greater, or equal and its resource name compares "
           f"strictly against the current name: the result does not depend on the visiting order (differences: {bad[:2]}; "
           f"priority variables {pa} / {pb})", site=f.loc(sw[0]), config=cfg)


def rule_use_resources(run, F, cfg):
    """`Engine::use_resources` sets the engine's resources to ONLY the ones given: the storage is replaced by a storage
    built from the argument. Adding the new resources to the old storage instead keeps resources that are no longer in
    the bundle (a redirect appears where there must be none; a resource that gained a permission keeps being served
    without it) and rejects changed ones as duplicates."""
    f = F.fn("engine::Engine::use_resources")
    run.touched(f)
    writes = [(f.vexpr_place(st["pl"]), f.expr_rvalue(st["rv"])) for b, i, st in f.statements() if st["k"] == "assign" and st["pl"]["p"]]
    calls = [strip_generics(t["callee"]) for b, t in f.calls()]
    cl = [c for c in F.closures_of(f.name)]
    ok = writes == [("$self.resources", "resources::resource_storage::ResourceStorage::from_resources(arg:resources)")] \
        and not any(c.endswith("::add_resource") for c in calls) \
        and not any(cc.calls(r"add_resource$") for cc in cl)
    run.ob("C13.5.lookup", "use_resources-replaces-the-storage", ok,
           f"Engine::use_resources assigns self.resources = ResourceStorage::from_resources(resources) and nothing else "
           f"(field writes {writes}; calls {calls})", site=f.loc(0), config=cfg)
    fr = F.fn("resources::resource_storage::ResourceStorage::from_resources")
    run.touched(fr)
    fresh = [fr.expr_operand(t["args"][0]) for b, t in fr.calls(r"ResourceStorage::add_resource$")] + \
            [c.expr_operand(t["args"][0]) for c in F.closures_of(fr.name) for b, t in c.calls(r"ResourceStorage::add_resource$")]
    started = [strip_generics(t["callee"]) for b, t in fr.calls(r"Default>::default$|ResourceStorage::default$|::new$")]
    run.ob("C13.5.lookup", "from_resources-starts-empty", bool(fresh) and bool(started),
           f"ResourceStorage::from_resources fills a fresh (default) storage through add_resource ({started}; receivers {fresh})",
           site=fr.loc(0), config=cfg)


def rule_registration_atomic(run, F, cfg):
    """add_resource registers a resource and its aliases all-or-nothing: every check that can reject the resource runs
    before the first write to the name / alias tables, so a rejected resource leaves no alias behind that points at
    nothing (a later resource with that name would be refused, or served under an alias it never declared)"""
    a = F.fn("resources::resource_storage::ResourceStorage::add_resource")
    cl = F.closures_of(a.name)
    run.touched(a, *cl)
    MUT = (r"^std::collections::HashMap::(insert|remove|remove_entry|extend|retain|clear|drain)$|"
           r"^std::collections::hash_map::(VacantEntry::(insert|insert_entry)|OccupiedEntry::(insert|remove|remove_entry)|"
           r"Entry::(or_insert|or_insert_with|or_insert_with_key|or_default|and_modify|insert_entry))$|Extend<.*>>::extend$")
    mut_closures = {c.name for c in cl if c.calls(MUT)}
    writes = [(b, strip_generics(t["callee"]).split("::")[-1]) for b, t in a.calls(MUT)]
    # a call that receives a closure whose body writes (for_each(|alias| self.aliases.insert(..)))
    closure_of_local = {}
    for b, i, st in a.statements():
        if st["k"] == "assign" and st["rv"]["k"] == "agg" and st["rv"].get("agg") == "closure" and st["rv"]["closure"] in mut_closures:
            closure_of_local[st["pl"]["l"]] = st["rv"]["closure"]
    for b, t in a.calls():
        for arg in t["args"]:
            if arg.get("k") in ("move", "copy") and arg["pl"]["l"] in closure_of_local:
                writes.append((b, "via-closure"))
    errs = [b for b, i, st in a.statements()
            if st["k"] == "assign" and st["rv"]["k"] == "agg" and st["rv"].get("adt") == "std::result::Result"
            and st["rv"].get("variant") == "Err"]
    errs += [b for b, t in a.calls(r"FromResidual<.*>>::from_residual$")]
    late = sorted({(w, e) for w, _ in writes for e in errs if e != w and e in a.reachable_from(w)})
    run.ob("C13.5.lookup", "registration-all-or-nothing", len(writes) >= 2 and bool(errs) and not late,
           f"no rejection is reachable once add_resource has written to the resource / alias tables "
           f"({len(writes)} writes {sorted(set(k for _, k in writes))}, {len(errs)} error exits; error exits reachable "
           f"after a write: {[(a.loc(w), a.loc(e)) for w, e in late][:3]})", site=a.loc(late[0][0]) if late else a.loc(0), config=cfg)
