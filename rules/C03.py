"""C03 — rule options restrict matching exactly as the option semantics specify."""
import re

from analysis.facts import strip_generics
from analysis.guards import dominating_conditions, has_cond, conditional_defs
from analysis.pathinterp import enumerate_paths, path_calls, path_value
from . import C05 as _C05, C08 as _C08

EXPLANATION = (
    "Decided: (1) the option-name -> NetworkFilterOption variant -> mask bit -> request-type chain, "
    "extracted from the MIR of parse_filter_options (literal compared / variant built, by path "
    "enumeration), NetworkFilter::parse (mask constant set per variant), From<&RequestType> for "
    "NetworkFilterMask and cpt_match_type, and composed against the reference table below (11 resource "
    "types + document, aliases css / frame / xhr / beacon / doc / ghide / 1p / 3p / from / "
    "object-subrequest; the options whose negation is an error); (2) bit layout — every single-flag "
    "constant is a distinct power of two and FROM_NETWORK_TYPES / FROM_ALL_TYPES / DEFAULT_OPTIONS are "
    "the stated unions (const evaluation); (3) the decision table of check_options: every path that "
    "returns non-false has decided !badfilter, content type allowed, https => for_https, http => "
    "for_http, third-party ? third_party : first_party, and passed the include-list lookup when "
    "opt_domains is Some and the exclude-list lookup when opt_not_domains is Some; check_cpt_allowed's "
    "document arm is FROM_DOCUMENT or exception; (4) unsupported schemes return before any list is "
    "probed; (5) domain-option hashing agreement: rule side fast_hash(domain) sorted before use, request "
    "side fast_hash of the source host and each dot-suffix, looked up with binary search."
    ' Later additions: every regex builder of compile_regex is configured like its siblings ($match-case); no list is probed for a request with an unsupported scheme (also generichide and removeparam); `$domain=` entries are hashed lower-cased; the scheme arms of parse (`|https://` ...) are entered only when the remaining pattern is exactly the scheme; the option / domain loops visit every entry.'
    " Round 6: every way on to the next option in parse_filter_options passes `result.push` (an option the parser does not record rejects the line); non-ASCII `$domain=` entries are hashed in punycode like the request's source hostname."
)
NOT_DECIDED = ("The implicit-type mask arithmetic of NetworkFilter::parse on concrete option sets (value level); "
               "pattern matching (C02).")

# option literal -> (variant, mask constant or None)
OPTION_TABLE = {
    "image": ("Image", "FROM_IMAGE"), "media": ("Media", "FROM_MEDIA"),
    "object": ("Object", "FROM_OBJECT"), "object-subrequest": ("Object", "FROM_OBJECT"),
    "other": ("Other", "FROM_OTHER"), "ping": ("Ping", "FROM_PING"), "beacon": ("Ping", "FROM_PING"),
    "script": ("Script", "FROM_SCRIPT"), "stylesheet": ("Stylesheet", "FROM_STYLESHEET"),
    "css": ("Stylesheet", "FROM_STYLESHEET"), "subdocument": ("Subdocument", "FROM_SUBDOCUMENT"),
    "frame": ("Subdocument", "FROM_SUBDOCUMENT"), "xmlhttprequest": ("XmlHttpRequest", "FROM_XMLHTTPREQUEST"),
    "xhr": ("XmlHttpRequest", "FROM_XMLHTTPREQUEST"), "websocket": ("Websocket", "FROM_WEBSOCKET"),
    "font": ("Font", "FROM_FONT"), "document": ("Document", "FROM_DOCUMENT"), "doc": ("Document", "FROM_DOCUMENT"),
    "third-party": ("ThirdParty", None), "3p": ("ThirdParty", None),
    "first-party": ("FirstParty", None), "1p": ("FirstParty", None),
    "domain": ("Domain", None), "from": ("Domain", None),
    "important": ("Important", "IS_IMPORTANT"), "match-case": ("MatchCase", "MATCH_CASE"),
    "badfilter": ("Badfilter", "BAD_FILTER"), "generichide": ("Generichide", "GENERIC_HIDE"),
    "ghide": ("Generichide", "GENERIC_HIDE"), "tag": ("Tag", None), "csp": ("Csp", "IS_CSP"),
    "redirect": ("Redirect", "IS_REDIRECT"), "redirect-rule": ("RedirectRule", "IS_REDIRECT"),
    "removeparam": ("Removeparam", "IS_REMOVEPARAM"),
}
NON_NEGATABLE = {"badfilter", "important", "match-case", "tag", "redirect", "redirect-rule", "removeparam",
                 "generichide", "ghide", "document", "doc"}
# request type variant -> mask constant (many-to-one rows carry their reason)
REQTYPE_TABLE = {
    "Beacon": "FROM_PING",        # a beacon is a ping
    "Csp": "UNMATCHED",           # csp reports are never matched by type options
    "Document": "FROM_DOCUMENT", "Dtd": "FROM_OTHER", "Fetch": "FROM_OTHER", "Font": "FROM_FONT",
    "Image": "FROM_IMAGE", "Media": "FROM_MEDIA", "Object": "FROM_OBJECT", "Other": "FROM_OTHER",
    "Ping": "FROM_PING", "Script": "FROM_SCRIPT", "Stylesheet": "FROM_STYLESHEET",
    "Subdocument": "FROM_SUBDOCUMENT", "Websocket": "FROM_WEBSOCKET", "Xlst": "FROM_OTHER",
    "Xmlhttprequest": "FROM_XMLHTTPREQUEST",
}
NETWORK_TYPES = ["FROM_FONT", "FROM_IMAGE", "FROM_MEDIA", "FROM_OBJECT", "FROM_OTHER", "FROM_PING", "FROM_SCRIPT",
                 "FROM_STYLESHEET", "FROM_SUBDOCUMENT", "FROM_WEBSOCKET", "FROM_XMLHTTPREQUEST"]
M = "filters::network::NetworkFilterMask::"


def rule_every_option_recorded(run, F, cfg):
    """parse_filter_options: an iteration of the loop over the comma-separated options goes on to the next option
    only after pushing the option it parsed; anything it does not understand rejects the line (return Err)."""
    from analysis.guards import unrecorded_iterations
    f = F.fn("filters::abstract_network::parse_filter_options")
    run.touched(f)

    def records(b, t):
        return strip_generics(t["callee"]) == "std::vec::Vec::push" and f.vexpr_operand(t["args"][0]).endswith("$result")
    p1 = re.escape(f.local_name(1))
    r = unrecorded_iterations(f, r"^<std::str::Split<.*> as std::iter::Iterator>::next$", records,
                              expr_rx=r"::next\(core::str::split\(" + p1 + r", ','\)\)$")
    if r is None:
        run.ob("C03.9.every-entry", "every-option-recorded-or-rejected", False,
               "the loop over raw_options.split(',') was not found", status="UNDISCHARGED", site=f.loc(0), config=cfg)
        return
    n, bad = r
    run.ob("C03.9.every-entry", "every-option-recorded-or-rejected", n >= 1 and not bad,
           f"each of the {n} ways of going on to the next option in parse_filter_options passes `result.push(<option>)`: "
           f"no option text is skipped silently (a line with an option the parser does not record is rejected); "
           f"skipping continue/fall-through edges at: {bad}", site=bad[0] if bad else f.loc(0), config=cfg,
           detail="a skipped option turns lines that used to be rejected (`||x^$script,`, `||x^$`) into live rules and "
                  "drops a restriction the author wrote")


def check(run):
    for cfg in run.cfgs("A", "B"):
        F = run.facts(cfg)
        from analysis.guards import rule_visits_all as _rva
        run.guard("C03.9.every-entry", cfg, lambda: _rva(run, "C03.9.every-entry", F, cfg, ['filters::abstract_network::parse_filter_options', 'filters::network::NetworkFilter::parse'],
                  'Every option of a rule and every entry of its domain= list restricts (or widens) where the rule applies: an entry that is not reached is an option that is not enforced', minimum=3))
        run.guard("C03.9.every-entry", cfg + "/recorded", lambda: rule_every_option_recorded(run, F, cfg))
        run.guard("C03.1.option-chain", cfg, lambda: rule_chain(run, F, cfg))
        run.guard("C03.2.bit-layout", cfg, lambda: rule_bits(run, F, cfg))
        run.guard("C03.3.check_options-table", cfg, lambda: rule_check_options(run, F, cfg))
        run.guard("C03.4.unsupported-schemes", cfg, lambda: rule_unsupported(run, F, cfg))
        run.guard("C03.5.domain-hashing", cfg, lambda: rule_domains(run, F, cfg))
        run.guard("C03.6.scheme-patterns", cfg, lambda: rule_scheme_patterns(run, F, cfg))
        run.guard("C03.7.option-split", cfg, lambda: rule_option_split(run, F, cfg))
        run.guard("C03.8.implicit-types", cfg, lambda: rule_implicit_types(run, F, cfg))
        run.guard("C03.1.option-chain", cfg + "/polarity", lambda: rule_polarity(run, F, cfg))
        run.guard("C03.1.option-chain", cfg + "/payloads", lambda: rule_payloads(run, F, cfg))
        from . import C12 as _C12p, C01 as _C01p
        b124 = run.borrow("C12", only=r"preparsed|single-construction|schema|scheme", why="requests with unsupported schemes are never matched -- also when the "
                                     "request is built from pre-parsed parts: the scheme is what precedes the first `:`")
        run.guard("C03.via.C12.4.single-construction", cfg, lambda: _C12p.rule_single(b124, F, cfg))
        b011 = run.borrow("C01", only=r"add_filter|token-source", why="a rule with a multi-entry `$domain=` list is filed under every one of its domains, "
                                     "also when it is added to a list that already holds rules")
        run.guard("C03.via.C01.1.token-source", cfg, lambda: _C01p.rule_store(b011, F, cfg))
        b = run.borrow("C05", only=r"field:(mask|opt_domains|opt_not_domains)\b|key:",
                       why="rules whose options differ must not be fused into one")
        run.guard("C03.via.C05.1.fusion-key", cfg, lambda: _C05.rule_key(b, F, cfg))
        b2 = run.borrow("C08", only=r"NetworkFilter\.(mask|opt_domains|opt_not_domains|opt_domains_union|opt_not_domains_union)\b",
                        why="the option fields must survive serialize/deserialize unchanged")
        run.guard("C03.via.C08.1.state-coverage", cfg, lambda: _C08.rule_coverage(b2, F, cfg))
        b2p = run.borrow("C08", only=r"NetworkFilterV0", why="the included and the excluded domain sets (and their unions) have the same type: only their position on the wire tells them apart")
        run.guard("C03.via.C08.2.positional", cfg, lambda: _C08.rule_positional(b2p, F, cfg))
        from . import C02 as _C02rc
        brc = run.borrow("C02", only=r"regex-text-case|builders-", why="$match-case and its absence are options: every regex built for a rule (also the fallback set after a member failed to compile) ignores case exactly when the rule does")
        run.guard("C03.via.C02.3.regex-translation", cfg, lambda: (_C02rc.rule_regex_case(brc, F, cfg), _C02rc.rule_regex_builder(brc, F, cfg)))


def option_arms(F):
    """{literal: set((variant | 'Err:<E>', negated_flag))} from parse_filter_options"""
    f = F.fn("filters::abstract_network::parse_filter_options")
    out = {}
    for p in enumerate_paths(f):
        lits = []
        neg = None
        for e, v in p.conds:
            m = re.search(r'::eq\(.*, "([^"]*)"\)$', e)
            if m and v == 1:
                lits.append(m.group(1))
            if re.search(r"starts_with\(.*'~'\)$", e) or e.endswith(".1") and "strip" in e:
                pass
        pushes = path_calls(f, p, r"^std::vec::Vec::push$")
        res = None
        if pushes:
            b, t = pushes[-1]
            op = t["args"][1]
            if op.get("k") in ("copy", "move") and not op["pl"]["p"]:
                res = path_value(f, p, op["pl"]["l"])
            else:
                res = f.expr_operand(op)
        elif p.end == "return":
            res = path_value(f, p, 0)
        if not lits or res is None:
            continue
        mv = re.search(r"NetworkFilterOption::(\w+)\{", res)
        me = re.search(r"NetworkFilterError::(\w+)\{", res)
        val = mv.group(1) if mv else ("Err:" + me.group(1) if me else None)
        if val is None:
            continue
        out.setdefault(lits[-1], set()).add(val)
    return out


def parse_roles(F):
    """names of the mask variable and of the positive / negative request-type accumulators of
    NetworkFilter::parse, found by role (what is stored as NetworkFilter.mask; what is OR-ed into it
    unconditionally; what is AND-NOT-ed out of it), so that renaming them is not a finding"""
    f = F.fn("filters::network::NetworkFilter::parse")
    roles = {"mask": None, "pos": None, "neg": None}
    for b, i, st in f.statements():
        if st["k"] == "assign" and st["rv"]["k"] == "agg" and st["rv"].get("adt") == "filters::network::NetworkFilter":
            d = dict(zip(st["rv"]["fields"], st["rv"]["ops"]))
            if "mask" in d:
                roles["mask"] = f.vexpr_operand(d["mask"]).lstrip("$")
    for b, t in f.calls(r"bitor_assign$"):
        if f.vexpr_operand(t["args"][0]) == "$" + str(roles["mask"]):
            a = f.vexpr_operand(t["args"][1])
            if re.match(r"^\$\w+$", a):
                roles["pos"] = a.lstrip("$")
    for b, t in f.calls(r"bitand_assign$"):
        if f.vexpr_operand(t["args"][0]) == "$" + str(roles["mask"]):
            m = re.match(r"^.*::not\(\$(\w+)\)$", f.vexpr_operand(t["args"][1]))
            if m:
                roles["neg"] = m.group(1)
    return roles


def variant_bits(F):
    """{variant: set(mask const)} set in the per-option closure of NetworkFilter::parse"""
    p = F.fn("filters::network::NetworkFilter::parse")
    variants = [v["name"] for v in F.adt("filters::abstract_network::NetworkFilterOption")["variants"]]
    out = {}
    for c in F.closures_of(p.name):
        for b, t in c.calls(r"::set$"):
            e = c.expr_operand(t["args"][1])
            m = re.search(r"NetworkFilterMask::(\w+)=", e)
            if not m:
                continue
            cond = dominating_conditions(c, b)
            for k, v in cond.items():
                if re.match(r"^discr\(arg:\w+\)$", k) and isinstance(v, int) and v < len(variants):
                    tgt = c.expr_operand(t["args"][0])
                    out.setdefault(variants[v], set()).add((m.group(1), tgt.split(":")[-1], c.expr_operand(t["args"][2])))
    return out


def rule_chain(run, F, cfg):
    arms = option_arms(F)
    bits = variant_bits(F)
    run.touched("filters::abstract_network::parse_filter_options", "filters::network::NetworkFilter::parse")
    n = 0
    for lit, (variant, bit) in sorted(OPTION_TABLE.items()):
        got = arms.get(lit, set())
        n += 1
        oks = variant in got
        negs = {g for g in got if g.startswith("Err:")}
        ok_neg = bool(negs) == (lit in NON_NEGATABLE) or lit in ("domain", "from", "csp")
        run.ob("C03.1.option-chain", f"name:{lit}", oks and ok_neg,
               f"option `{lit}` builds NetworkFilterOption::{variant} (extracted: {sorted(got)}); negation is "
               f"{'an error' if lit in NON_NEGATABLE else 'allowed'}", site="src/filters/abstract_network.rs parse_filter_options",
               config=cfg)
        if bit:
            vb = {x[0] for x in bits.get(variant, set())}
            run.ob("C03.1.option-chain", f"bit:{lit}", bit in vb,
                   f"NetworkFilterOption::{variant} sets NetworkFilterMask::{bit} in parse (sets {sorted(vb)})",
                   site="src/filters/network.rs NetworkFilter::parse", config=cfg)
    extra = sorted(set(arms) - set(OPTION_TABLE))
    run.ob("C03.1.option-chain", "no-unlisted-options", not extra,
           f"parse_filter_options recognises no option name outside the reference table (extra: {extra})", config=cfg,
           status=None if not extra else "UNDISCHARGED")
    run.floor("C03.1.option-chain", f"option names extracted [{cfg}]", len(arms), 30)
    # content-type options: positive -> the positive accumulator, negated -> the negative one
    roles = parse_roles(F)
    for variant, sets in sorted(bits.items()):
        tg = {(b, tgt, val) for b, tgt, val in sets if b.startswith("FROM_") and b != "FROM_DOCUMENT"}
        if not tg:
            continue
        ok = {t[1] for t in tg} == {roles["pos"], roles["neg"]} or {t[1] for t in tg} <= {roles["pos"], roles["neg"], roles["mask"]}
        run.ob("C03.1.option-chain", f"accumulators:{variant}", ok and len({t[0] for t in tg}) == 1,
               f"NetworkFilterOption::{variant} sets exactly one type bit, in the positive or the negative "
               f"accumulator ({sorted(tg)})", config=cfg)
    # request type -> mask
    fr = F.fn("<filters::network::NetworkFilterMask as std::convert::From<&request::RequestType>>::from")
    rtv = [v["name"] for v in F.adt("request::RequestType")["variants"]]
    got = {}
    for p in enumerate_paths(fr):
        if p.end != "return":
            continue
        val = path_value(fr, p, 0) or ""
        m = re.search(r"NetworkFilterMask::(\w+)", val)
        for e, v in p.conds:
            if e.startswith("discr(arg:") and isinstance(v, int) and v < len(rtv) and m:
                got[rtv[v]] = m.group(1)
    run.ob("C03.1.option-chain", "request-type-to-bit", got == REQTYPE_TABLE,
           f"From<&RequestType> for NetworkFilterMask maps {got}; reference {REQTYPE_TABLE}", site=fr.loc(0), config=cfg)
    # cpt_match_type literals
    cm = F.fn("request::cpt_match_type")
    lit2 = {}
    for p in enumerate_paths(cm):
        if p.end != "return":
            continue
        val = path_value(cm, p, 0) or ""
        m = re.search(r"RequestType::(\w+)", val)
        lits = [re.search(r'"([^"]*)"\)$', e).group(1) for e, v in p.conds if v == 1 and re.search(r'::eq\(.*, "([^"]*)"\)$', e)]
        if m and lits:
            lit2[lits[-1]] = m.group(1)
        elif m and not lits:
            lit2["<other>"] = m.group(1)
    want = {"beacon": "Ping", "csp_report": "Csp", "document": "Document", "main_frame": "Document", "font": "Font",
            "image": "Image", "imageset": "Image", "media": "Media", "object": "Object", "object_subrequest": "Object",
            "ping": "Ping", "script": "Script", "stylesheet": "Stylesheet", "sub_frame": "Subdocument",
            "subdocument": "Subdocument", "websocket": "Websocket", "xhr": "Xmlhttprequest",
            "xmlhttprequest": "Xmlhttprequest", "other": "Other", "speculative": "Other", "web_manifest": "Other",
            "xbl": "Other", "xml_dtd": "Other", "xslt": "Other", "<other>": "Other"}
    diff = {k: (lit2.get(k), w) for k, w in want.items() if lit2.get(k) != w}
    run.ob("C03.1.option-chain", "request-type-literals", not diff and set(lit2) <= set(want),
           f"cpt_match_type maps the request-type strings as in the reference table (differences: {diff}; "
           f"extra: {sorted(set(lit2) - set(want))})", site=cm.loc(0), config=cfg)


def rule_bits(run, F, cfg):
    vals = {}
    for k, v in F.consts.items():
        if k.startswith(M) and "val" in v and "int" in v["val"]:
            vals[k[len(M):]] = v["val"]["int"]
    unions = {"FROM_NETWORK_TYPES", "FROM_ALL_TYPES", "DEFAULT_OPTIONS", "NONE"}
    single = {k: v for k, v in vals.items() if k not in unions and v != 0 and (v & (v - 1)) == 0}
    allbits = 0
    for v in single.values():
        allbits |= v
    composite = {k: v for k, v in vals.items() if k not in single}
    bad = [k for k, v in composite.items() if v & ~allbits]
    dup = len(set(single.values())) != len(single)
    run.ob("C03.2.bit-layout", "distinct-powers-of-two", not bad and not dup and len(single) >= 28,
           f"{len(single)} single-flag constants are distinct powers of two; every other constant "
           f"({sorted(composite)}) is a union of single flags (stray bits in: {bad}; duplicate bit values: {dup})",
           config=cfg)
    net = 0
    for k in NETWORK_TYPES:
        net |= vals.get(k, 0)
    run.ob("C03.2.bit-layout", "FROM_NETWORK_TYPES", vals.get("FROM_NETWORK_TYPES") == net and all(k in vals for k in NETWORK_TYPES),
           f"FROM_NETWORK_TYPES = {vals.get('FROM_NETWORK_TYPES')} is the union of the 11 network types ({net})", config=cfg)
    run.ob("C03.2.bit-layout", "FROM_ALL_TYPES", vals.get("FROM_ALL_TYPES") == net | vals.get("FROM_DOCUMENT", 0),
           "FROM_ALL_TYPES = FROM_NETWORK_TYPES | FROM_DOCUMENT", config=cfg)
    want = net | vals.get("FROM_HTTP", 0) | vals.get("FROM_HTTPS", 0) | vals.get("THIRD_PARTY", 0) | vals.get("FIRST_PARTY", 0)
    run.ob("C03.2.bit-layout", "DEFAULT_OPTIONS", vals.get("DEFAULT_OPTIONS") == want,
           f"DEFAULT_OPTIONS = network types | http | https | first-party | third-party ({vals.get('DEFAULT_OPTIONS')} vs {want})",
           config=cfg)
    run.ob("C03.2.bit-layout", "UNMATCHED", "UNMATCHED" in vals and vals.get("UNMATCHED", 0) & vals.get("FROM_ALL_TYPES", 0) == 0,
           "UNMATCHED (request types no option can select) shares no bit with any type option", config=cfg)


def rule_check_options(run, F, cfg):
    f = F.fn("filters::network_matchers::check_options")
    run.touched(f)
    n = 0
    bad = []
    bad_ws = []
    bad_src = []
    H = "filters::network::NetworkFilterMaskHelper::"
    for p in enumerate_paths(f):
        if p.end != "return":
            continue
        val = path_value(f, p, 0)
        if val == "false":
            continue
        n += 1
        d = {}
        for e, v in p.conds:
            d[e] = v
        def g(k):
            return d.get(k)
        problems = []
        if g(H + "is_badfilter(arg:mask)") != 0:
            problems.append("badfilter not excluded")
        if g(H + "check_cpt_allowed(arg:mask, arg:request.request_type)") != 1:
            problems.append("content type not checked")
        if g("arg:request.is_https") == 1 and g(H + "for_https(arg:mask)") != 1:
            problems.append("https without for_https")
        if g("arg:request.is_https") is None:
            problems.append("is_https undecided")
        if g("arg:request.is_http") == 1 and g(H + "for_http(arg:mask)") != 1:
            problems.append("http without for_http")
        if g("arg:request.is_http") is None:
            problems.append("is_http undecided")
        # ws / wss URL (neither http nor https): a rule restricted to exactly one of http / https (`|http://`,
        # `|https://`) names a different scheme and must not apply; unrestricted rules and `|ws://` rules may
        if g("arg:request.is_http") == 0 and g("arg:request.is_https") == 0:
            ne = g("(" + H + "for_http(arg:mask) Ne " + H + "for_https(arg:mask))")
            eq = g("(" + H + "for_http(arg:mask) Eq " + H + "for_https(arg:mask))")
            both = (g(H + "for_http(arg:mask)"), g(H + "for_https(arg:mask)"))
            if not (ne == 0 or eq == 1 or (both[0] is not None and both[0] == both[1])):
                bad_ws.append(val)
        tp = g("arg:request.is_third_party")
        fp_ok = g(H + "first_party(arg:mask)")
        tp_ok = g(H + "third_party(arg:mask)")
        if tp == 1 and tp_ok != 1:
            problems.append("third-party request without third_party")
        if tp == 0 and fp_ok != 1:
            problems.append("first-party request without first_party")
        if tp is None and not (fp_ok == 1 and tp_ok == 1):
            problems.append("party undecided although the rule restricts it")
        inc = g("discr(arg:opt_domains)")
        if inc is None:
            problems.append("include list not inspected")
        elif inc == 1 and g("discr(arg:request.source_hostname_hashes)") != 1:
            bad_src.append(val)
        elif inc == 1 and g("discr(arg:request.source_hostname_hashes)") == 1:
            # Some(domains) and a source host: the `all(|h| !bin_lookup(included, h))` test must have failed
            looked = [(e, v) for e, v in d.items() if re.search(r"Iterator>::all\(core::slice::iter\(arg:request\.source_hostname_hashes", e)]
            if not any(v == 0 for e, v in looked):
                problems.append("include list present but no successful lookup")
        exc = g("discr(arg:opt_not_domains)")
        if exc is None:
            problems.append("exclude list not inspected")
        # polarity on a path that returns true: no `all(..)` over the source hashes may have held (that is
        # "no source hash is included") and no `any(..)` may have held ("some source hash is excluded")
        for e, v in d.items():
            if re.search(r"Iterator>::all\(core::slice::iter\(arg:request\.source_hostname_hashes", e) and v != 0:
                problems.append("returns true although no source hash passed an include test")
            if re.search(r"Iterator>::any\(core::slice::iter\(arg:request\.source_hostname_hashes", e) and v != 0:
                problems.append("returns true although a source hash hit the exclude list")
        if exc == 1 and g("discr(arg:request.source_hostname_hashes)") == 1 and \
                not any(re.search(r"Iterator>::any\(core::slice::iter\(arg:request\.source_hostname_hashes", e) for e in d):
            problems.append("exclude list present but never consulted")
        if problems:
            bad.append((val, problems))
    run.floor("C03.3.check_options-table", f"non-false return paths of check_options [{cfg}]", n, 4)
    run.ob("C03.3.check_options-table", "conjuncts", not bad,
           f"every path of check_options that can return true ({n} paths) has decided: !badfilter, "
           f"check_cpt_allowed, https => for_https, http => for_http, third-party ? third_party : first_party, and "
           f"inspected both domain lists; problems: {bad[:2]}", site=f.loc(0), config=cfg)
    run.ob("C03.3.check_options-table", "websocket-scheme", not bad_ws,
           "on every path that can return true for a ws / wss request (neither is_http nor is_https) the rule is not "
           "restricted to exactly one of http / https: for_http() == for_https() has been established "
           f"({len(bad_ws)} offending paths). `|https://$websocket` must not match wss:// — the index files it under the "
           "token `https`, so the engine and the rule would also disagree (C01)", site=f.loc(0), config=cfg)
    run.ob("C03.3.check_options-table", "initiator-required", not bad_src,
           "a rule with a positive `$domain=` list returns true only for a request whose initiator is known "
           f"(source_hostname_hashes is Some): {len(bad_src)} offending paths. Such a rule may be indexed under its "
           "domain's hash only (C01.1 single-domain / per-domain dispatch), so the engine never finds it for a "
           "source-less request; evaluated alone it used to match", site=f.loc(0), config=cfg)
    # the domain lookups: include uses bin_lookup on opt_domains, exclude on opt_not_domains; exclusion => false
    cl = F.closures_of(f.name)
    look = []
    for c in cl:
        for b, t in c.calls(r"^utils::bin_lookup$"):
            look.append(c.expr_operand(t["args"][0]))
    ok = any(re.search(r"included_domains|opt_domains", x) and "not" not in x and "excluded" not in x for x in look) \
        and any(re.search(r"excluded_domains|opt_not_domains", x) for x in look)
    run.ob("C03.3.check_options-table", "lookups", ok,
           f"the include test looks the source hashes up in opt_domains and the exclude test in opt_not_domains "
           f"with bin_lookup ({sorted(set(look))})", config=cfg)
    # exclusion hit => false: the `any` over opt_not_domains returning true leads to `false`
    ok_ex = False
    for kind, b, val, conds, _ in conditional_defs(f, 0):
        if val == "false":
            for e, v in conds.items():
                if re.search(r"Iterator>::any\(", e) and v == 1:
                    ok_ex = True
    run.ob("C03.3.check_options-table", "exclusion-wins", ok_ex,
           "a hit in the exclude list returns false (exclusions win)", config=cfg)
    # the four closures: union pre-filters are `h & union` compared with h; the list tests are bin_lookup
    def _canon(e):
        e = re.sub(r"<&?u64 as std::ops::BitAnd<&?u64>>::bitand", "bitand", e)
        e = re.sub(r"\(([\w:.]+) BitAnd ([\w:.]+)\)", r"bitand(\1, \2)", e)
        e = re.sub(r"bitand\(([^(),]+), ([^(),]+)\)", lambda m: "bitand(" + ", ".join(sorted(m.groups())) + ")", e)
        m = re.match(r"^\((.*) (Ne|Eq) ([^()]+)\)$", e)
        if m:
            a, b = sorted([m.group(1), m.group(3)])
            e = f"({a} {m.group(2)} {b})"
        return e

    shapes = sorted(_canon(c.expr_local(0)) for c in cl)
    want = sorted([
        _canon("(bitand(arg:h, up:included_domains_union) Ne arg:h)"),
        "Not(utils::bin_lookup(up:included_domains, arg:h))",
        "φ{false | utils::bin_lookup(up:excluded_domains, arg:h)}",
        "utils::bin_lookup(up:excluded_domains, arg:h)",
    ])
    okc = shapes == want
    # the guarded exclude closure: bin_lookup only under (h & union) == h
    for c in cl:
        if c.expr_local(0).startswith("φ{false | utils::bin_lookup(up:excluded_domains"):
            for b, t in c.calls(r"^utils::bin_lookup$"):
                cc = dominating_conditions(c, b)
                okc = okc and any(re.search(r"bitand\(arg:h, up:excluded_domains_union\) Eq arg:h\)$", k) and v == 1
                                  for k, v in cc.items())
    run.ob("C03.3.check_options-table", "closure-shapes", okc,
           "the per-hash tests are: `h & included_union != h` (pre-filter, inside all), `!bin_lookup(included, h)` "
           "(inside all), `h & excluded_union == h && bin_lookup(excluded, h)` and `bin_lookup(excluded, h)` "
           f"(inside any); found {shapes}", config=cfg)
    # check_cpt_allowed: document arm
    h = [g for n2, g in F.fns.items() if n2.endswith("NetworkFilterMaskHelper::check_cpt_allowed")]
    okd = False
    if h:
        e = " ".join(h[0].expr_call(t) for b, t in h[0].calls())
        okd = "FROM_DOCUMENT" in e and "is_exception" in e
    run.ob("C03.3.check_options-table", "document-arm", okd,
           "check_cpt_allowed allows a document request only with FROM_DOCUMENT or for exception rules", config=cfg)
    # ... and the whole function as a table: the request's type bit is tested as it is (not masked, complemented
    # or widened -- `csp_report` maps to a bit no rule carries and must stay unmatched), the only special case is
    # the document bit
    if h:
        g = h[0]
        pc = g.local_name(2)
        DOC = "filters::network::NetworkFilterMask::FROM_DOCUMENT=536870912"
        got = set()
        for kind, b, val, conds, _ in conditional_defs(g, 0):
            cs = []
            for e, v in sorted(conds.items()):
                if e.startswith(pc):
                    cs.append("type==DOCUMENT" if v == 536870912 else ("type!=DOCUMENT" if v == ("not", (536870912,)) else f"type?{v}"))
                elif e == f"filters::network::NetworkFilterMaskHelper::has_flag(arg:self, {DOC})":
                    cs.append(f"has(DOCUMENT)=={v}")
                else:
                    cs.append(f"{e[:60]}=={v}")
            got.add((val.replace(pc, "<type bit>").replace(DOC, "DOCUMENT"), tuple(cs)))
        H_ = "filters::network::NetworkFilterMaskHelper::"
        want = {(H_ + "has_flag(arg:self, <type bit>)", ("type!=DOCUMENT",)),
                ("true", ("type==DOCUMENT", "has(DOCUMENT)==1")),
                (H_ + "is_exception(arg:self)", ("type==DOCUMENT", "has(DOCUMENT)==0"))}
        other_calls = [strip_generics(t["callee"]) for b, t in g.calls()
                       if not re.search(r"NetworkFilterMaskHelper::(has_flag|is_exception)$|as std::convert::From<.*>>::from$", strip_generics(t["callee"]))]
        run.ob("C03.3.check_options-table", "cpt-table", got == want and not other_calls,
               f"check_cpt_allowed(rule, type) = has_flag(<the request's type bit, as converted>) for every type but document, and "
               f"has_flag(DOCUMENT) || is_exception() for a document request; extracted {sorted(got)}; other calls {other_calls}",
               site=g.loc(0), config=cfg,
               detail="masking the type bit (e.g. `& FROM_ALL_TYPES`) turns the bit of csp_report requests into the empty "
                      "mask, which every rule `has`")


def rule_unsupported(run, F, cfg):
    f = F.fn("blocker::Blocker::check_parameterised")
    probes = f.calls(r"^network_filter_list::NetworkFilterList::check(_all)?$")
    ok = bool(probes) and all(has_cond(dominating_conditions(f, b), r"arg:request\.is_supported$", 1) for b, _ in probes)
    run.ob("C03.4.unsupported-schemes", "no-probe-when-unsupported", ok,
           "check_parameterised probes no list unless request.is_supported (scheme table: C12.2)", site=f.loc(0), config=cfg)
    g2 = F.fn("blocker::Blocker::get_csp_directives")
    probes2 = g2.calls(r"^network_filter_list::NetworkFilterList::check(_all)?$")
    ok2 = bool(probes2) and all(has_cond(dominating_conditions(g2, b), r"arg:request\.is_supported$", 1) for b, _ in probes2)
    run.ob("C03.4.unsupported-schemes", "no-csp-probe-when-unsupported", ok2,
           "get_csp_directives probes the csp list only when request.is_supported (an ftp:// document gets no policy)",
           site=g2.loc(0), config=cfg)
    # every other probe of a rule list: guarded in the function itself, or in every caller of that function
    n_sites = 0
    for name, g in sorted(F.fns.items()):
        if name in (f.name, g2.name) or name.startswith("network_filter_list::") or "{closure" in name:
            continue
        pr = g.calls(r"^network_filter_list::NetworkFilterList::check(_all)?$")
        if not pr:
            continue
        n_sites += len(pr)
        own = all(has_cond(dominating_conditions(g, b), r"^arg:\w+\.is_supported$", 1) for b, _ in pr)
        callers = [(c, cb) for c, cb, ct in F.callers_of("^" + re.escape(name) + "$")]
        via = bool(callers) and all(has_cond(dominating_conditions(c, cb), r"^arg:\w+\.is_supported$", 1) for c, cb in callers)
        run.ob("C03.4.unsupported-schemes", f"no-probe-when-unsupported:{name.split('::')[-1]}", own or via,
               f"{name} probes a rule list ({len(pr)} site(s)) only for a request with a supported scheme: guarded in "
               f"the function ({own}) or at every one of its {len(callers)} call site(s) ({via})", site=g.loc(0), config=cfg)
    run.floor("C03.4.unsupported-schemes", f"further list probes outside check_parameterised / get_csp_directives [{cfg}]", n_sites, 2)


def rule_domains(run, F, cfg):
    p = F.fn("filters::network::NetworkFilter::parse")
    n = 0
    for c in F.closures_of(p.name):
        hs = [(b, t) for b, t in c.calls(r"^utils::fast_hash$")]
        if not hs:
            continue
        sorts = [(b, c.expr_operand(t["args"][0])) for b, t in c.calls(r"::sort_unstable$")]
        for b, i, s in c.statements():
            if s["k"] != "assign":
                continue
            tgt = c.expr_place(s["pl"])
            if tgt not in ("up:opt_domains", "up:opt_not_domains") or not s["pl"]["p"]:
                continue
            rv = s["rv"]
            agg = None
            if rv["k"] == "agg" and rv.get("variant") == "Some":
                agg = rv
            elif rv["k"] == "use" and rv["op"].get("k") in ("copy", "move") and not rv["op"]["pl"]["p"]:
                ds = c.defs().get(rv["op"]["pl"]["l"], [])
                if len(ds) == 1 and ds[0][0] == "assign" and ds[0][3]["rv"]["k"] == "agg" and ds[0][3]["rv"].get("variant") == "Some":
                    agg = ds[0][3]["rv"]
            if agg is None:
                continue
            n += 1
            arr = c.expr_operand(agg["ops"][0])
            ok = any(c.dominates(sb, b) and se == arr for sb, se in sorts)
            run.ob("C03.5.domain-hashing", f"sorted:{tgt}", ok,
                   f"`{tgt} = Some(array)` is dominated by array.sort_unstable() on the same vector (bin_lookup is a "
                   f"binary search: an unsorted list silently misses domains)", site=c.loc(b, i), config=cfg)
        src = c.expr_operand(hs[0][1]["args"][0])
        run.ob("C03.5.domain-hashing", "rule-side-hash", "Iterator>::next(" in src or ".1" in src,
               f"domain options are hashed with utils::fast_hash (argument `{src[:80]}`)", config=cfg)
    run.floor("C03.5.domain-hashing", f"domain-list assignments [{cfg}]", n, 2)
    r = F.fn("request::Request::from_detailed_parameters")
    hs = r.calls(r"^utils::fast_hash$")
    ok = len(hs) >= 2 and all("arg:source_hostname" in r.expr_operand(t["args"][0]) for b, t in hs)
    run.ob("C03.5.domain-hashing", "request-side-hash", ok,
           "the request hashes the source hostname and each dot-suffix with the same utils::fast_hash", site=r.loc(0), config=cfg)
    bl = F.fn("utils::bin_lookup")
    run.ob("C03.5.domain-hashing", "bin_lookup-is-binary-search", bool(bl.calls(r"binary_search")),
           "utils::bin_lookup is a binary search", config=cfg)


def rule_scheme_patterns(run, F, cfg):
    """`|http://`, `|https://`, `|ws://`, `|http*://` as the whole pattern select the scheme bits"""
    p = F.fn("filters::network::NetworkFilter::parse")
    got = {}
    for b, t in p.calls(r"::set$"):
        e = p.expr_operand(t["args"][1])
        v = p.expr_operand(t["args"][2])
        m = re.search(r"NetworkFilterMask::(\w+)=", e)
        if not m:
            continue
        c = dominating_conditions(p, b)
        for k, val in c.items():
            mm = re.search(r'starts_with\(.*, "([^"]*)"\)$', k)
            if mm and val == 1 and mm.group(1).endswith("://"):
                got.setdefault(mm.group(1), {})[m.group(1)] = v
    want = {
        "ws://": {"FROM_WEBSOCKET": "true", "FROM_HTTP": "false", "FROM_HTTPS": "false", "IS_LEFT_ANCHOR": "false"},
        "http://": {"FROM_HTTP": "true", "FROM_HTTPS": "false", "IS_LEFT_ANCHOR": "false"},
        "https://": {"FROM_HTTPS": "true", "FROM_HTTP": "false", "IS_LEFT_ANCHOR": "false"},
        "http*://": {"FROM_HTTPS": "true", "FROM_HTTP": "true", "IS_LEFT_ANCHOR": "false"},
    }
    # ... and only when the text IS the scheme: the arm is entered under `end == start + len(literal)` as well, so
    # `|https://example.com/ads` keeps its text (an arm taken for a longer pattern would erase it: the rule would
    # then apply to every request of that scheme)
    exact = {}
    for b, t in p.calls(r"::set$"):
        c = dominating_conditions(p, b, render=p.vexpr_operand)
        lits = [re.search(r'starts_with\(.*\{start: (\$\w+)\}\), "([^"]*://)"\)$', k) for k, val in c.items() if val == 1]
        lits = [m_ for m_ in lits if m_]
        for m_ in lits:
            start, lit = m_.group(1), m_.group(2)
            ok_len = any(re.match(r"^\((\$\w+) Eq \(" + re.escape(start) + r" AddWithOverflow " + str(len(lit)) + r"\)\.0\)$", k) and val == 1
                         for k, val in c.items())
            exact[lit] = exact.get(lit, True) and ok_len
    for lit in want:
        run.ob("C03.6.scheme-patterns", f"pattern:|{lit}:whole-pattern", exact.get(lit) is True,
               f"the scheme arm for `{lit}` is entered only when the remaining pattern is exactly {len(lit)} bytes long "
               f"(`filter_index_end == filter_index_start + {len(lit)}`)", site=p.loc(0), config=cfg)
    for lit, w in want.items():
        run.ob("C03.6.scheme-patterns", f"pattern:|{lit}", got.get(lit) == w,
               f"a rule whose whole pattern is `|{lit}` sets the scheme bits {got.get(lit)} (expected {w}): the rule "
               f"then applies exactly to requests of that scheme", site=p.loc(0), config=cfg)


def rule_option_split(run, F, cfg):
    """`name=value`: the value is everything after the FIRST '=' (csp directives, removeparam regexes and
    redirect names may contain '=' themselves); options are separated by ',' and domain values by '|'."""
    f = F.fn("filters::abstract_network::parse_filter_options")
    run.touched(f)
    seps = {}
    for g in [f] + F.closures_of(f.name):
        for b, t in g.calls(r"^core::str::<impl str>::(split|splitn|rsplit|rsplitn|split_once|rsplit_once|split_terminator)$"):
            kind = t["callee"].rsplit("::", 1)[1]
            args = [g.expr_operand(a) for a in t["args"]]
            seps.setdefault(args[-1], []).append((kind, args, g.loc(b)))
    eq = seps.get("'='", [])
    ok = len(eq) == 1 and ((eq[0][0] == "splitn" and eq[0][1][1] == "2") or eq[0][0] == "split_once")
    run.ob("C03.7.option-split", "value-after-first-equals", ok,
           "parse_filter_options splits `name=value` once, at the first '=' (splitn(2, '=') / split_once('=')): "
           f"found {[(k, a[1:]) for k, a, l in eq]}", site=eq[0][2] if eq else f.loc(0), config=cfg)
    if ok and eq[0][0] == "splitn":
        # name = first next(), value = second next() of that iterator (unwrap_or_default)
        nx = [f.expr_call(t) for b, t in f.calls(r"SplitN<.*Iterator>::next$|SplitN.*::next$")]
        run.ob("C03.7.option-split", "name-then-value", len(nx) == 2,
               f"the SplitN iterator is advanced exactly twice (name, then the rest as value): {len(nx)} next() calls",
               config=cfg)
    comma = seps.get("','", [])
    run.ob("C03.7.option-split", "options-by-comma", len(comma) == 1 and comma[0][0] == "split",
           f"the option list is split at every ',' ({[(k) for k, a, l in comma]})", config=cfg)
    bar = seps.get("'|'", [])
    run.ob("C03.7.option-split", "domains-by-bar", len(bar) >= 1 and all(k == "split" for k, a, l in bar),
           f"domain / method values are split at every '|' ({[(k) for k, a, l in bar]})", config=cfg)


# The request-type arithmetic at the end of NetworkFilter::parse, as (operator, operand, conditions). The
# table is the specification (uBO semantics as implemented by the reference tree, confirmed by reading):
#   - positive types are added as given;
#   - a negated network type implies "all network types" first (not for removeparam rules);
#   - no positive type at all means all network types; for removeparam rules: document, subdocument, xhr;
#   - a bare `||hostname^` rule without any type option also covers documents (implicit document rule);
#   - finally the negated types are removed, after everything that adds types.
_POS_EMPTY = ("is_empty(bitand($cpt_mask_positive, FROM_ALL_TYPES))", 1)
_NEG_EMPTY = ("is_empty(bitand($cpt_mask_negative, FROM_ALL_TYPES))", 1)
IMPLICIT_TYPES = [
    ("|=", "$cpt_mask_positive", frozenset()),
    ("|=", "FROM_NETWORK_TYPES", frozenset({("contains($mask, IS_REMOVEPARAM)", 0),
                                            ("ne(bitand($cpt_mask_negative, FROM_NETWORK_TYPES), NONE)", 1)})),
    ("|=", "FROM_DOCUMENT|FROM_SUBDOCUMENT|FROM_XMLHTTPREQUEST",
     frozenset({_POS_EMPTY, ("contains($mask, IS_REMOVEPARAM)", 1)})),
    ("|=", "FROM_NETWORK_TYPES", frozenset({_POS_EMPTY, ("contains($mask, IS_REMOVEPARAM)", 0)})),
    ("|=", "FROM_ALL_TYPES", frozenset({_POS_EMPTY, _NEG_EMPTY, ("contains($mask, IS_HOSTNAME_ANCHOR)", 1),
                                        ("contains($mask, IS_RIGHT_ANCHOR)", 1), ("$end_url_anchor", 0),
                                        ("contains($mask, IS_REMOVEPARAM)", 0)})),
    ("&=", "not($cpt_mask_negative)", frozenset()),
]


def _short_mask_expr(e):
    e = re.sub(r"filters::network::NetworkFilterMask::", "", e)
    e = re.sub(r"filters::network::_::", "", e)
    e = re.sub(r"std::cmp::PartialEq::", "", e)
    return e


def _flatten_or(e):
    """bitor(bitor(A, B), C) -> A|B|C (sorted)"""
    m = re.match(r"^bitor\((.*)\)$", e)
    if not m:
        return e
    depth = 0
    inner = m.group(1)
    for i, ch in enumerate(inner):
        if ch == "(":
            depth += 1
        elif ch == ")":
            depth -= 1
        elif ch == "," and depth == 0:
            a, b = inner[:i], inner[i + 1:].strip()
            parts = _flatten_or(a).split("|") + _flatten_or(b).split("|")
            return "|".join(sorted(parts))
    return e


def rule_implicit_types(run, F, cfg):
    f = F.fn(NF + "parse") if "NF" in globals() else F.fn("filters::network::NetworkFilter::parse")
    run.touched(f)
    rows = []
    sites = {}
    # the variable that becomes NetworkFilter.mask (whatever it is called)
    mask_var = None
    for b, i, st in f.statements():
        if st["k"] == "assign" and st["rv"]["k"] == "agg" and st["rv"].get("adt") == "filters::network::NetworkFilter":
            d = dict(zip(st["rv"]["fields"], st["rv"]["ops"]))
            if "mask" in d:
                mask_var = f.vexpr_operand(d["mask"])
    if not mask_var or not mask_var.startswith("$"):
        run.ob("C03.8.implicit-types", "mask-variable", False, f"the variable stored as NetworkFilter.mask was not found ({mask_var})",
               status="UNDISCHARGED", config=cfg)
        return
    # type accumulators: mask-typed user variables other than the mask itself
    accs = {"$" + n for l, n in f.varnames.items() if str(f.locals[l].get("ty") if isinstance(f.locals[l], dict) else f.locals[l]).endswith("NetworkFilterMask")}
    for b, t in f.calls(r"bitor_assign$|bitand_assign$|bitxor_assign$|sub_assign$|::(remove|insert|toggle)$"):
        if f.vexpr_operand(t["args"][0]) != mask_var:
            continue
        arg = _flatten_or(_short_mask_expr(f.vexpr_operand(t["args"][1])))
        if not (re.search(r"FROM_", arg) or any(a in arg for a in accs - {mask_var})):
            continue
        op = {"bitor_assign": "|=", "bitand_assign": "&=", "insert": "|="}.get(t["callee"].rsplit("::", 1)[-1],
                                                                              t["callee"].rsplit("::", 1)[-1])
        conds = set()
        for k, v in dominating_conditions(f, b, render=f.vexpr_operand).items():
            if k.startswith("discr("):
                continue   # `?` exits and matches on the option variant
            ks = _short_mask_expr(k)
            # validation guards whose other branch is an error return (e.g. `$match-case` without a regex, which
            # dominates the rest of parse only in builds without full-regex-handling) say nothing about types
            if not (re.match(r"^\$\w+$", ks) or any(a in ks for a in accs - {mask_var}) or re.search(r"IS_REMOVEPARAM|IS_HOSTNAME_ANCHOR|IS_RIGHT_ANCHOR|FROM_", ks)):
                continue
            conds.add((ks, v))
        row = (op, arg, frozenset(conds))
        rows.append(row)
        sites[row] = (b, f.loc(b))
    run.floor("C03.8.implicit-types", f"type-mask updates after the option loop [{cfg}]", len(rows), 6)
    # whole-table comparison modulo the names of the local variables (a rename is not a finding; using the
    # wrong accumulator is): one consistent renaming must map the specification onto the extracted table
    from collections import Counter
    from analysis.names import renaming
    ren = renaming(dict(Counter(rows)), dict(Counter(IMPLICIT_TYPES)))
    inv = {g: w for w, g in (ren or {}).items()}

    def spec_names(row):
        from analysis.names import _subst
        return _subst(row, inv) if ren else row

    want = list(IMPLICIT_TYPES)
    for row in rows:
        srow = spec_names(row)
        ok = srow in want
        if ok:
            want.remove(srow)
        run.ob("C03.8.implicit-types", f"{srow[0]} {srow[1]} if {sorted(srow[2])}", ok,
               f"NetworkFilter::parse: `mask {row[0]} {row[1]}` under {sorted(row[2]) or 'no condition'} "
               + ("is a row of the implicit-type table" if ok else "is NOT a row of the implicit-type table (see "
                  "IMPLICIT_TYPES in rules/C03.py: wrong operand, wrong polarity or a missing / extra guard)"),
               site=sites[row][1], config=cfg)
    for row in want:
        run.ob("C03.8.implicit-types", f"missing: {row[0]} {row[1]} if {sorted(row[2])}", False,
               f"NetworkFilter::parse no longer performs `mask {row[0]} {row[1]}` under {sorted(row[2]) or 'no condition'}",
               site=f.loc(0), config=cfg)
    v_pos = (ren or {}).get("$cpt_mask_positive", "$cpt_mask_positive")
    v_neg = (ren or {}).get("$cpt_mask_negative", "$cpt_mask_negative")
    v_mask = (ren or {}).get("$mask", "$mask")
    # negated types are removed last: no type-adding update is reachable from the `&= !negative`
    last = [sites[r][0] for r in rows if r[0] == "&="]
    adders = [sites[r][0] for r in rows if r[0] == "|="]
    ok_last = len(last) == 1 and not (set(adders) & set(f.reachable_from(last[0])) - {last[0]})
    run.ob("C03.8.implicit-types", "negated-types-removed-last", ok_last,
           "`mask &= !cpt_mask_negative` is executed after every update that adds request types (exclusions win)",
           site=f.loc(last[0]) if last else f.loc(0), config=cfg)
    # the conditions read the final option state: no option-loop write of the flags they test is reachable
    # from the first implicit update
    first = min(adders) if adders else None
    late = []
    if first is not None:
        after = set(f.reachable_from(first))
        for b, t in f.calls(r"::set$|bitor_assign$"):
            if b in after and b not in set(sites[r][0] for r in rows):
                tgt = f.vexpr_operand(t["args"][0])
                arg = _short_mask_expr(f.vexpr_operand(t["args"][1]))
                if tgt in (v_pos, v_neg) or (tgt == v_mask and "IS_REMOVEPARAM" in arg):
                    late.append((tgt, arg, f.loc(b)))
    run.ob("C03.8.implicit-types", "conditions-read-final-option-state", not late,
           f"the positive / negative type masks and IS_REMOVEPARAM are not written after the implicit-type "
           f"arithmetic has started ({late[:2]})", config=cfg)


def rule_polarity(run, F, cfg):
    """`~opt` negates: the boolean payload of every negatable option is !negation, the type bit goes to the
    positive accumulator iff the payload is true, every plain flag is set to true, and the party options clear
    the OTHER party's bit."""
    f = F.fn("filters::abstract_network::parse_filter_options")
    adt = F.adt("filters::abstract_network::NetworkFilterOption")
    variants = [v["name"] for v in adt["variants"]]
    boolean = {v["name"] for v in adt["variants"] if [fl["ty"] for fl in v.get("fields", [])] == ["bool"]}
    # (1) payload polarity in parse_filter_options
    payloads = {}
    for p in enumerate_paths(f):
        pushes = path_calls(f, p, r"^std::vec::Vec::push$")
        if not pushes:
            continue
        b, t = pushes[-1]
        op = t["args"][1]
        res = path_value(f, p, op["pl"]["l"]) if op.get("k") in ("copy", "move") and not op["pl"]["p"] else f.expr_operand(op)
        m = re.search(r"NetworkFilterOption::(\w+)\{(.*)\}$", res or "")
        if m and m.group(1) in boolean:
            payloads.setdefault(m.group(1), set()).add(m.group(2))
    bad = {v: sorted(ps) for v, ps in payloads.items() if not all(re.match(r"^0: Not\((…)?var:\w+\)$", x) for x in ps)}
    run.ob("C03.1.option-chain", "payload-is-not-negated", not bad and len(payloads) >= 13,
           f"every negatable option carries `!negated` as its payload ({len(payloads)} boolean options; offending: {bad})",
           site=f.loc(0), config=cfg)
    neg = [f.vexpr_rvalue(st["rv"]) if False else None for _ in ()]
    negdefs = [f.vexpr_call(t) for b, t in f.calls(r"^core::str::starts_with$") if f.vexpr_operand(t["args"][1]) == "'~'"]
    run.ob("C03.1.option-chain", "negation-is-tilde-prefix", len(negdefs) == 1,
           f"the negation flag is <raw option>.starts_with('~') ({negdefs})", config=cfg)
    # (2) accumulators / flag values in NetworkFilter::parse
    p = F.fn("filters::network::NetworkFilter::parse")
    cl = [c for c in F.closures_of(p.name) if len(c.calls(r"::set$")) > 10]
    if len(cl) != 1:
        run.ob("C03.1.option-chain", "option-closure", False, "per-option closure of NetworkFilter::parse not found",
               status="UNDISCHARGED", config=cfg)
        return
    c = cl[0]
    rows = []
    for b, t in c.calls(r"::set$"):
        cond = dominating_conditions(c, b, render=c.vexpr_operand)
        var = [variants[v] for k, v in cond.items() if re.match(r"^discr\((\$|arg:)\w+\)$", k) and isinstance(v, int) and v < len(variants)]
        en = next((v for k, v in cond.items() if re.match(r"^\$\w+$", k)), None)   # the option's boolean payload
        rows.append((b, c.vexpr_operand(t["args"][0]).split(":")[-1], re.sub(r".*NetworkFilterMask::", "", c.vexpr_operand(t["args"][1])),
                     c.vexpr_operand(t["args"][2]), var[0] if var else None, en))
    roles = parse_roles(F)
    bad_t = []
    n_t = 0
    by_var = {}
    for b, tgt, bit, val, var, en in rows:
        if var in boolean and bit.startswith("FROM_"):
            by_var.setdefault(var, set()).add((tgt, val, en))
    for var, got in sorted(by_var.items()):
        n_t += 1
        if got != {(roles["pos"], "true", 1), (roles["neg"], "true", 0)}:
            bad_t.append((var, sorted(got, key=str)))
    run.ob("C03.1.option-chain", "type-bit-polarity", not bad_t and n_t >= 11,
           f"for each of the {n_t} negatable type options: enabled => positive accumulator, !enabled => negative "
           f"accumulator, always `true` (offending: {bad_t})", site=c.loc(0), config=cfg)
    bad_v = [(bit, val, var) for b, tgt, bit, val, var, en in rows
             if bit not in ("FIRST_PARTY", "THIRD_PARTY") and val != "true"]
    run.ob("C03.1.option-chain", "flags-set-true", not bad_v,
           f"every option flag is SET (value true) by its option arm (offending: {bad_v})", config=cfg)
    # (3) party options: which (variant, payload) reaches which clear
    clears = {bit: b for b, tgt, bit, val, var, en in rows if bit in ("FIRST_PARTY", "THIRD_PARTY") and val == "false" and tgt == "mask"}
    reach = {"FIRST_PARTY": set(), "THIRD_PARTY": set()}
    for pth in enumerate_paths(c):
        combo = None
        var = None
        for e, v in pth.conds:
            if re.match(r"^discr\(arg:\w+\)$", e) and isinstance(v, int) and v < len(variants):
                var = variants[v]
            m = re.match(r"^arg:\w+@(ThirdParty|FirstParty)\.0$", e)
            if m and v in (0, 1):
                combo = (m.group(1), v)
        for bit, blk in clears.items():
            if blk in pth.blocks and combo:
                reach[bit].add(combo)
    want = {"THIRD_PARTY": {("ThirdParty", 0), ("FirstParty", 1)}, "FIRST_PARTY": {("ThirdParty", 1), ("FirstParty", 0)}}
    run.ob("C03.1.option-chain", "party-polarity", reach == want and len(clears) == 2,
           f"$third-party / $~first-party clear FIRST_PARTY; $first-party / $~third-party clear THIRD_PARTY "
           f"(extracted {dict((k, sorted(v)) for k, v in reach.items())})", site=c.loc(0), config=cfg)
    # (4) domain option: `~d` is an exclusion, the unions are OR-folds, lists are sorted
    # wherever the entry is built (a closure of the iterator chain or a plain loop in the function itself): the pair
    # (enabled, domain) is (false, ..) exactly under strip_prefix('~') == Some
    dom = [g for g in [f] + F.closures_of(f.name) if g.calls(r"strip_prefix$")]
    okd = False
    if len(dom) == 1:
        g = dom[0]
        pr = {}
        for b, i, st in g.statements():
            if st["k"] == "assign" and st["rv"]["k"] == "agg" and st["rv"].get("agg") == "tuple" and len(st["rv"]["ops"]) == 2:
                first = g.expr_operand(st["rv"]["ops"][0])
                if first not in ("true", "false"):
                    continue
                stripped = [v for e, v in dominating_conditions(g, b).items() if e.startswith("discr(") and "strip_prefix(" in e]
                if stripped and stripped[0] in (0, 1, ("not", (1,)), ("not", (0,))):
                    pr.setdefault(1 if stripped[0] in (1, ("not", (0,))) else 0, set()).add(first)
        okd = pr == {1: {"false"}, 0: {"true"}}
    run.ob("C03.1.option-chain", "domain-tilde-is-exclusion", okd,
           "in `domain=`, an entry with the `~` prefix is parsed as (false, name) and any other entry as (true, name)",
           config=cfg)
    folds = []
    for g in {g.name: g for g in F.closures_of(c.name) + F.closures_of(p.name)}.values():
        e = g.expr_local(0)
        if re.match(r"^\(arg:acc BitOr |^<.*BitOr.*>::bitor\(arg:acc", e) or " BitOr " in e and "arg:acc" in e:
            folds.append("or")
        elif "arg:acc" in e:
            folds.append(e[:60])
    run.ob("C03.1.option-chain", "domain-unions-are-or-folds", folds == ["or", "or"],
           f"opt_domains_union / opt_not_domains_union are bitwise-OR folds of the hashes ({folds})", config=cfg)


def rule_payloads(run, F, cfg):
    """String-valued options keep their value as written: `$tag=`, `$csp=`, `$redirect=`, `$redirect-rule=`,
    `$removeparam=` and the entries of `$domain=` are compared verbatim elsewhere (enabled tags, CSP text, resource
    names, parameter names, hashed initiator hostnames), so normalising them on the rule side only (lower-casing,
    trimming `www.`, ...) makes the two sides disagree."""
    f = F.fn("filters::abstract_network::parse_filter_options")
    DENY = r"to_ascii_lowercase|to_lowercase|to_ascii_uppercase|to_uppercase|core::str::trim\(|str::replace|strip_prefix\(.*\"www|trim_start_matches\([^()]*\"www"
    bad = []
    seen = set()
    for b, i, st in f.statements():
        if st["k"] == "assign" and st["rv"]["k"] == "agg" and st["rv"].get("variant") in ("Tag", "Csp", "Redirect", "RedirectRule", "Removeparam") \
                and str(st["rv"].get("adt", "")).endswith("NetworkFilterOption"):
            seen.add(st["rv"]["variant"])
            for o in st["rv"]["ops"]:
                e = f.expr_operand(o) + " " + " ".join(sorted(f.deep_origins(o)))
                if re.search(DENY, e):
                    bad.append((st["rv"]["variant"], re.search(DENY, e).group(0)))
    run.ob("C03.1.option-chain", "string-payloads-verbatim:parse_filter_options", not bad and len(seen) == 5,
           f"the value of tag / csp / redirect / redirect-rule / removeparam is stored as written ({sorted(seen)}; transformed: {bad})",
           site=f.loc(0), config=cfg)
    p = F.fn("filters::network::NetworkFilter::parse")
    cl = [c for c in F.closures_of(p.name) if len(c.calls(r"::set$")) > 10]
    if len(cl) != 1:
        return
    c = cl[0]
    stores = {}
    for b, i, st in c.statements():
        if st["k"] == "assign":
            m = re.search(r"up:(tag|modifier_option)$", c.vexpr_place(st["pl"]))
            if m:
                v = c.expr_rvalue(st["rv"])
                if v != "up:" + m.group(1):
                    stores.setdefault(m.group(1), set()).add(v)
    want = {"tag": {"std::option::Option::Some{0: arg:option@Tag.0}"},
            "modifier_option": {"std::option::Option::Some{0: arg:option@Redirect.0}", "std::option::Option::Some{0: arg:option@RedirectRule.0}",
                                "std::option::Option::Some{0: arg:option@Removeparam.0}", "arg:option@Csp.0"}}
    norm = {k: {re.sub(r"arg:\w+@", "arg:option@", x) for x in v} for k, v in stores.items()}
    run.ob("C03.1.option-chain", "string-payloads-verbatim:parse", norm == want,
           f"NetworkFilter::parse stores the option payloads themselves in tag / modifier_option ({norm})", site=c.loc(0), config=cfg)
    hashed = [re.sub(r"arg:\w+@", "arg:option@", c.expr_call(t)) for b, t in c.calls(r"^utils::fast_hash$")]
    ENTRY = r"<std::vec::IntoIter<T, A> as std::iter::Iterator>::next\((arg:option@Domain\.0|…var:iter|…_\d+)\)@Some\.0\.1"
    ok_h = False
    forms = []
    if len(hashed) == 1:
        m = re.match(r"^utils::fast_hash\((.*)\)$", hashed[0])
        arg = m.group(1) if m else ""
        alts = [a.strip() for a in arg[2:-1].split(" | ")] if arg.startswith("φ{") else [arg]
        for a in alts:
            if re.match(r"^std::str::to_ascii_lowercase\(" + ENTRY + r"\)$", a):
                forms.append("ascii-lowercase")
            elif re.match(r"^std::result::Result::unwrap_or_else\(idna::domain_to_ascii\(" + ENTRY + r"\), closure\[[^\]]+\]\(" + ENTRY + r"\)\)$", a):
                fb = re.search(r"closure\[([^\]]+)\]", a).group(1)
                fbv = F.fns[fb].expr_local(0) if fb in F.fns else ""
                forms.append("idna" if re.match(r"^std::str::to_(ascii_)?lowercase\(up:\w+\)$", fbv) else f"idna-with-fallback:{fbv[:40]}")
            elif re.match(r"^idna::domain_to_ascii\(" + ENTRY + r"\)", a):
                forms.append("idna")
            else:
                forms.append("other:" + a[:60])
        # the ASCII shortcut is taken only for ASCII entries
        from analysis.guards import conditional_defs as _cdd
        guarded = True
        if "ascii-lowercase" in forms and "idna" in forms:
            asc = [(b, t) for b, t in c.calls(r"^std::str::to_ascii_lowercase$") if re.search(ENTRY, re.sub(r"arg:\w+@", "arg:option@", c.expr_operand(t["args"][0])))]
            guarded = bool(asc) and all(has_cond(dominating_conditions(c, b), r"^core::str::is_ascii\(", 1) for b, t in asc)
        ok_h = sorted(set(forms)) in (["ascii-lowercase", "idna"], ["idna"]) and guarded
    run.ob("C03.1.option-chain", "domain-entries-hashed-verbatim", ok_h,
           "each `$domain=` entry is hashed in the spelling the request side uses for the initiator's hostname -- lower-case, "
           "and punycode (idna::domain_to_ascii) when it is not ASCII -- and is otherwise taken as written: "
           f"forms {forms}, {hashed}", site=c.loc(0), config=cfg)
