"""C18 — scriptlet injection respects permissions and encodes arguments safely."""
import re

from analysis.facts import strip_generics
from analysis.guards import dominating_conditions, has_cond
from analysis.pathinterp import enumerate_paths
from . import C16 as _C16

EXPLANATION = (
    "Decided: (1) the permission formula — the MIR expression of PermissionMask::is_injectable_by is "
    "extracted as an expression tree over two u8 values and the TREE is evaluated on all 65 536 "
    "pairs against `resource & !filter == 0` (table comparison on an extracted constant-size "
    "expression, not execution of the program); (2) gate provenance — every &Resource pushed to a "
    "dependency list or decoded as the scriptlet template in get_scriptlet_resource / "
    "recursive_dependencies is the result of get_permissioned_resource(_, filter_permission) with the "
    "function's own filter_permission parameter, the recursion passes the same parameter on, and the "
    "raw lookup is callable only from the two gated accessors; the mask handed over by the cosmetic "
    "cache is the one stored with the rule; (3) the escape table ESCAPED[256] read as a constant is "
    "non-zero exactly for 0x00-0x1F, '\"' and '\\\\' with short escapes b,t,n,f,r at 8,9,10,12,13; "
    "function-style invocation quotes every argument (stringify_arg::<true> mapped over all args, "
    "joined with \", \"), the template path uses stringify_arg::<false> and doubles '$'; in "
    "write_string_complex the copy cursor is advanced past every escaped byte on every path."
    " Later additions: the JSON keys of Resource (incl. `permission`) are the established ones and PermissionMask / Resource / ResourceType decode through serde's derived code (errors are not swallowed into the default mask); the exception bin is keyed by the script text alone (C16.2); use_resources replaces the storage (C13.5); neither legacy conversion filters entries (the empty string is the blanket exception)."
    " Round 6: recursive_dependencies reports Ok only after the gate accepted this rule's permission, and tests `already present` on the resolved resource's name; a scriptlet exception removes exactly the identical injection (C16.6 borrowed)."
    ' Round 8: PermissionMask::from_bits / default / | / |= as expressions; the dependency walk is cut short only at resources the SAME walk has checked (its `seen` list is created empty for every rule), F-C18-3 repaired.'
)
NOT_DECIDED = ("That the emitted literal round-trips for every string (value level); +js argument-list "
               "unescaping semantics; identical-injection exception matching is checked in C16.")

RS = "resources::resource_storage::"


def check(run):
    for cfg in run.cfgs("A", "B"):
        F = run.facts(cfg)
        run.guard("C18.1.permission-formula", cfg, lambda: rule_formula(run, F, cfg))
        run.guard("C18.2.gate-provenance", cfg, lambda: rule_gate(run, F, cfg))
        run.guard("C18.2.gate-provenance", cfg + "/merge", lambda: rule_mask_merge(run, F, cfg))
        run.guard("C18.4.escape-table", cfg, lambda: rule_escape(run, F, cfg))
        run.guard("C18.5.invocation", cfg, lambda: rule_invocation(run, F, cfg))
        from . import wire_keys as _wk
        run.guard("C18.7.resource-wire-keys", cfg + "/derived", lambda: run.floor(
            "C18.7.resource-wire-keys", f"derived decoders [{cfg}]", _wk.rule_derived(run, "C18.7.resource-wire-keys", F, cfg), 6))
        run.guard("C18.7.resource-wire-keys", cfg, lambda: run.floor(
            "C18.7.resource-wire-keys", f"resource keys / variants compared [{cfg}]",
            _wk.rule_keys(run, "C18.7.resource-wire-keys", F, cfg, _wk.RESOURCE, _wk.RESOURCE_VARIANTS,
                          "A resource list that spells the key as before would otherwise load with the field defaulted: "
                          "`permission` 0 means the scriptlet needs no permission at all"), 14))
        from analysis import a7 as _a7
        from . import a7_common as _a7c
        run.guard("C18.6.argument-splitting", cfg, lambda: _a7.check_cone(
            run, "C18.6.argument-splitting", F, cfg, ["resources::resource_storage::parse_scriptlet_args"], _a7c.rows(),
            _a7c.ALL_BASES if hasattr(_a7c, "ALL_BASES") else _a7c.NO_PARSE_INVARIANT, floor=8,
            label="+js(...) argument splitting (every slice offset is a reviewed one)"))
        b = run.borrow("C16", only=r"inject_script", why="scriptlet exceptions are applied after all injections are collected")
        run.guard("C18.via.C16.3.populate-before-prune", cfg, lambda: _C16.rule_order(b, F, cfg))
        b166 = run.borrow("C16", why="a scriptlet exception removes exactly the identical injection, a blanket one removes all")
        run.guard("C18.via.C16.6.blanket-script-exception", cfg, lambda: _C16.rule_blanket_flag(b166, F, cfg))
        run.guard("C18.via.C16.8.independent-injections", cfg, lambda: _C16.rule_independent_injections(run.borrow("C16", why="a scriptlet another list may not use must not suppress the others"), F, cfg))
        from . import C08 as _C08
        b8 = run.borrow("C08", only=r"stores-unconditional|restores-unconditional|accumulating|visits-every-element", why="the blanket scriptlet exception must survive serialization")
        run.guard("C18.via.C08.3.legacy-bijection", cfg, lambda: _C08.rule_legacy(b8, F, cfg))
        b162 = run.borrow("C16", only=r"\|(inject|uninject)$", why="a scriptlet exception removes exactly the identical injection: the exception bin is keyed by the script text alone")
        run.guard("C18.via.C16.2.bin-pairing", cfg, lambda: _C16.rule_pairing(b162, F, cfg))
        from . import C13 as _C13u
        b13 = run.borrow("C13", why="after use_resources a scriptlet is gated by the permission of the resource in the NEW bundle, not by an older definition that was kept")
        run.guard("C18.via.C13.5.lookup", cfg, lambda: _C13u.rule_use_resources(b13, F, cfg))


# ------------------------------------------------------------------ tiny expression evaluator
def _tokenize(s):
    return re.findall(r"\(|\)|[A-Za-z_:.][\w:.]*|\d+", s)


def _parse(tokens, pos=0):
    """grammar:  E := '(' E OP E ')' | NAME '(' E ')' | atom"""
    t = tokens[pos]
    if t == "(":
        a, pos = _parse(tokens, pos + 1)
        op = tokens[pos]
        b, pos = _parse(tokens, pos + 1)
        assert tokens[pos] == ")"
        return ("bin", op, a, b), pos + 1
    if pos + 1 < len(tokens) and tokens[pos + 1] == "(" and re.match(r"^[A-Za-z]", t) and not t.startswith("arg:"):
        a, pos2 = _parse(tokens, pos + 2)
        assert tokens[pos2] == ")"
        return ("un", t, a), pos2 + 1
    return ("atom", t), pos + 1


def _eval(tree, env):
    k = tree[0]
    if k == "atom":
        a = tree[1]
        if a.isdigit():
            return int(a)
        if a in env:
            return env[a]
        raise ValueError(f"unknown atom {a}")
    if k == "un":
        v = _eval(tree[2], env)
        if tree[1] == "Not":
            return (~v) & 0xFF
        raise ValueError(f"unknown unary {tree[1]}")
    op, a, b = tree[1], _eval(tree[2], env), _eval(tree[3], env)
    if op == "BitAnd":
        return a & b
    if op == "BitOr":
        return a | b
    if op == "BitXor":
        return a ^ b
    if op == "Eq":
        return int(a == b)
    if op == "Ne":
        return int(a != b)
    raise ValueError(f"unknown operator {op}")


def rule_formula(run, F, cfg):
    f = F.fn("resources::PermissionMask::is_injectable_by")
    run.touched(f)
    e = f.expr_local(0)
    ok = False
    detail = e
    n = 0
    try:
        tree, pos = _parse(_tokenize(e))
        bad = None
        for r in range(256):
            for flt in range(256):
                n += 1
                got = _eval(tree, {"arg:self.0": r, "arg:filter_mask.0": flt})
                want = int((r & (~flt & 0xFF)) == 0)
                if got != want:
                    bad = (r, flt, got, want)
                    break
            if bad:
                break
        ok = bad is None
        if bad:
            detail = f"{e}: resource={bad[0]:#04x} filter={bad[1]:#04x} -> {bad[2]}, expected {bad[3]}"
    except Exception as ex:  # unknown shape: cannot decide
        run.ob("C18.1.permission-formula", "is_injectable_by", False,
               f"cannot evaluate the extracted expression `{e}` ({ex}); the formula is no longer a "
               f"bit-operation tree over the two masks", status="UNDISCHARGED", site=f.loc(0), config=cfg)
        return
    run.ob("C18.1.permission-formula", "is_injectable_by", ok,
           f"extracted expression `{e}` equals (resource & !filter) == 0 on all {n} (resource, filter) pairs",
           site=f.loc(0), config=cfg, detail=detail)
    run.extra["permission_pairs_evaluated"] = 65536
    d = F.fn("resources::PermissionMask::is_default")
    run.ob("C18.1.permission-formula", "is_default", d.expr_local(0) == "(arg:self.0 Eq 0)",
           f"PermissionMask::is_default is `{d.expr_local(0)}` (== 0)", config=cfg)
    # the other ways a mask value comes into being: from_bits is the identity on the caller's bits, the default grants
    # nothing, `|` / `|=` are the bitwise OR of the two masks (a constructor that masked bits away or an OR that was an
    # AND would change what a list is allowed to inject without touching is_injectable_by)
    PM = "resources::PermissionMask::PermissionMask"
    ops = {
        "from_bits": (F.fn("resources::PermissionMask::from_bits").expr_local(0), PM + "{0: arg:bits}"),
        "default": (F.fn("<resources::PermissionMask as std::default::Default>::default").expr_local(0),
                    (PM + "{0: <u8 as std::default::Default>::default()}", PM + "{0: 0}")),
        "bitor": (F.fn("<resources::PermissionMask as std::ops::BitOr>::bitor").expr_local(0),
                  (PM + "{0: (arg:self.0 BitOr arg:rhs.0)}", PM + "{0: (arg:rhs.0 BitOr arg:self.0)}")),
    }
    ba = F.fn("<resources::PermissionMask as std::ops::BitOrAssign>::bitor_assign")
    w = [ba.expr_rvalue(st["rv"]) for b, i, st in ba.statements() if st["k"] == "assign" and st["pl"]["l"] == 1 and st["pl"]["p"]]
    ops["bitor_assign"] = (w[0] if len(w) == 1 else str(w), ("(arg:self.0 BitOr arg:rhs.0)", "(arg:rhs.0 BitOr arg:self.0)"))
    for nme, (got, want) in ops.items():
        run.ob("C18.1.permission-formula", f"mask-constructors:{nme}", got == want or (isinstance(want, tuple) and got in want),
               f"PermissionMask::{nme} is `{got}` (expected {want if isinstance(want, str) else want[0]})", config=cfg)
    u8 = [fl["ty"] for fl in F.fields("resources::PermissionMask")]
    run.ob("C18.1.permission-formula", "mask-is-u8", u8 == ["u8"], f"PermissionMask wraps a single u8 ({u8})", config=cfg)


def rule_gate(run, F, cfg):
    S = RS + "ResourceStorage::"
    n = 0
    # the function that walks the dependency graph: recursive_dependencies itself, or the private helper it delegates to
    # (the one that calls itself and the permission gate)
    walker = S + "recursive_dependencies"
    for nme_, f_ in F.fns.items():
        if nme_.startswith(S) and "::{" not in nme_ and f_.calls(r"ResourceStorage::get_permissioned_resource$") \
                and any(strip_generics(t["callee"]) == nme_ for b, t in f_.calls()):
            walker = nme_
    names = [S + "get_scriptlet_resource", S + "recursive_dependencies"] + ([walker] if walker != S + "recursive_dependencies" else [])

    def perm_param(fn):
        for i in range(1, fn.argc + 1):
            if "PermissionMask" in str(fn.locals[i]):
                return i
        return fn.argc
    for name in names:
        f = F.fn(name)
        run.touched(f)
        # every get_permissioned_resource call passes the function's own filter_permission
        gp = f.calls(r"ResourceStorage::get_permissioned_resource$")
        # the rule's permission is the parameter of type PermissionMask (by position: 3 in get_scriptlet_resource,
        # 4 in recursive_dependencies -- counted with self)
        perm = f.local_name(perm_param(f))
        if name == S + "recursive_dependencies" and walker != name:
            # a pure wrapper: it hands its own name, list and permission on to the walker
            wc = f.calls("^" + re.escape(walker) + "$")
            okw = len(wc) == 1 and [f.expr_operand(a) for a in wc[0][1]["args"]][:3] == [f.local_name(1), f.local_name(2), f.local_name(3)] \
                and f.expr_operand(wc[0][1]["args"][-1]) == perm
            run.ob("C18.2.gate-provenance", "recursive_dependencies:delegates-unchanged", okw,
                   f"recursive_dependencies passes its own arguments (name, list, permission) on to {walker.split('::')[-1]}", config=cfg)
            continue
        okp = bool(gp) and all(f.expr_operand(t["args"][2]) == perm for b, t in gp)
        run.ob("C18.2.gate-provenance", f"{name.split('::')[-1]}:passes-own-permission", okp,
               f"{name} calls get_permissioned_resource with its own `filter_permission` parameter",
               site=f.loc(gp[0][0]) if gp else f.loc(0), config=cfg)
        # pushes into the dependency list
        for b, t in f.calls(r"^std::vec::Vec::push$"):
            val = f.expr_operand(t["args"][1])
            n += 1
            ok = bool(re.search(r"^resources::resource_storage::ResourceStorage::get_permissioned_resource\(arg:self, .*, " + re.escape(perm) + r"\)@Continue\.0$", val))
            run.ob("C18.2.gate-provenance", f"{name.split('::')[-1]}:push#{n}", ok,
                   f"the resource pushed to the dependency list is a get_permissioned_resource(.., "
                   f"filter_permission) result (value `{val[:110]}`)", site=f.loc(b), config=cfg,
                   detail="a dependency resolved without the permission gate would be injected regardless of "
                          "the list's permissions")
        # recursion passes the same permission
        rc = f.calls(r"ResourceStorage::(recursive_dependencies|" + re.escape(walker.split("::")[-1]) + r")$")
        okr = bool(rc) and all(f.expr_operand(t["args"][-1]) == perm for b, t in rc)
        run.ob("C18.2.gate-provenance", f"{name.split('::')[-1]}:recursion-same-permission", okr,
               f"{name} passes `filter_permission` unchanged to recursive_dependencies", config=cfg)
        # no raw lookup here
        raw = f.calls(r"ResourceStorage::get_internal_resource$|HashMap::get$")
        raw = [(b, t) for b, t in raw if "resources" in f.expr_operand(t["args"][0]) or "get_internal" in t["callee"]]
        run.ob("C18.2.gate-provenance", f"{name.split('::')[-1]}:no-raw-lookup", not raw,
               f"{name} performs no ungated resource lookup", config=cfg)
    run.floor("C18.2.gate-provenance", f"dependency pushes [{cfg}]", n, 2)
    # a dependency that is already in the list may have been put there for a rule with more permissions:
    # recursive_dependencies may report success only after the gate accepted THIS rule's permission ...
    from analysis.guards import conditional_defs as _cd
    rd = F.fn(walker)
    oks = [conds for kind, b, val, conds, _ in _cd(rd, 0) if "Result::Ok" in val]
    pa = [re.escape(rd.local_name(i)) for i in (1, 2, perm_param(rd))]      # self, the requested name, the rule's permission
    gate_rx = (r"^discr\(resources::resource_storage::ResourceStorage::get_permissioned_resource\("
               + pa[0] + ", " + pa[1] + ", " + pa[2] + r"\)\)$")
    ok = bool(oks) and all(has_cond(c, gate_rx, 0) for c in oks)
    run.ob("C18.2.gate-provenance", "recursive_dependencies:ok-only-after-gate", ok,
           f"every `Ok(())` of recursive_dependencies ({len(oks)} sites) is reached only after "
           "get_permissioned_resource(new_dep, filter_permission) succeeded -- also when the dependency is "
           "already in the list", site=rd.loc(0), config=cfg,
           detail="otherwise a scriptlet of an unprivileged list is injected whenever a privileged rule on the "
                  "same page happened to pull the shared dependency in first (hash-map order)")
    # ... and `already present` is decided on the resolved resource's name, not on the requested name, which may
    # be an alias (an alias cycle would otherwise recurse without bound)
    cmp_ = [c.expr_local(0) for c in F.closures_of(rd.name)]
    ok = bool(cmp_) and all(re.match(r"^<std::string::String as std::cmp::PartialEq(<[^>]*>)?>::eq\(arg:\w+\.name, "
                                     r"up:\w+\.name\)$", e) or re.match(
                                     r"^<std::string::String as std::cmp::PartialEq(<[^>]*>)?>::eq\(up:\w+\.name, "
                                     r"arg:\w+\.name\)$", e) for e in cmp_)
    run.ob("C18.2.gate-provenance", "recursive_dependencies:present-by-resolved-name", ok,
           f"the `already in the list` test compares resource names with the resolved resource's name ({cmp_})",
           site=rd.loc(0), config=cfg,
           detail="comparing with the requested name misses a resource requested through an alias: duplicates, "
                  "and unbounded recursion on a dependency cycle that goes through aliases")
    # ... and the walk is cut short only at a resource THIS walk has already checked: the list the `already seen` test
    # looks into starts empty for every rule. The shared output list also holds what other rules on the page pulled in,
    # perhaps with more permissions; stopping there leaves that resource's own dependencies unchecked for this rule
    # (F-C18-3: an unprivileged scriptlet injected when a privileged rule shared an intermediate dependency with it)
    early = []
    for kind, b, val, conds, _ in _cd(rd, 0):
        if "Result::Ok" in val:
            for e, v in conds.items():
                m_ = re.search(r"Iterator>::(?:any|find|position)\(core::slice::iter\((arg:\w+)\), closure\[", e)
                if m_ and v == 1:
                    early.append(m_.group(1))
    seen_param = early[0] if len(set(early)) == 1 else None
    fresh = []
    if seen_param:
        idx = [i for i in range(1, rd.argc + 1) if rd.local_name(i) == seen_param][0]
        for caller, b, t in F.callers_of("^" + re.escape(walker) + "$"):
            a = caller.expr_operand(t["args"][idx - 1])
            if caller.name == walker:
                fresh.append((caller.name.split("::")[-1], a == seen_param, a[:60]))
            else:
                fresh.append((caller.name.split("::")[-1], bool(re.match(r"^std::vec::Vec::new\(\)$", a)), a[:60]))
    run.ob("C18.2.gate-provenance", "walk-stops-only-at-what-it-checked-itself", bool(seen_param) and bool(fresh) and all(x[1] for x in fresh),
           f"the `already seen` test of {walker.split('::')[-1]} reads `{seen_param}`, which every caller creates empty for the rule at hand "
           f"and the recursion passes on unchanged (call sites: {fresh})", site=rd.loc(0), config=cfg)
    g = F.fn(S + "get_scriptlet_resource")
    dec = g.calls(r"Engine>::decode$|::decode$")
    okd = bool(dec) and all("get_permissioned_resource(" in g.expr_operand(t["args"][-1]) for b, t in dec)
    run.ob("C18.2.gate-provenance", "template-from-gated-resource", okd,
           "the scriptlet template is decoded from the content of the gated resource", config=cfg)
    callers = sorted(set(f.name.split("::{closure")[0] for f, b, t in
                         F.callers_of(r"^resources::resource_storage::ResourceStorage::get_internal_resource$")))
    allowed = {S + "get_redirect_resource", S + "get_permissioned_resource"}
    run.ob("C18.2.gate-provenance", "who-may-call-raw-lookup", set(callers) <= allowed,
           f"only the gated accessors call get_internal_resource ({callers})", config=cfg)
    gp = F.fn(S + "get_permissioned_resource")
    rets = [(b, t) for b, t in gp.calls(r"PermissionMask::is_injectable_by$")]
    ok = len(rets) == 1 and gp.expr_operand(rets[0][1]["args"][1]) == gp.local_name(3) \
        and "get_internal_resource" in gp.expr_operand(rets[0][1]["args"][0])
    run.ob("C18.2.gate-provenance", "gate-formula-operands", ok,
           "get_permissioned_resource tests resource.permission.is_injectable_by(filter_permission)",
           site=gp.loc(rets[0][0]) if rets else "", config=cfg)
    # Ok(resource) only if injectable
    from analysis.guards import conditional_defs
    okk = True
    for kind, b, val, conds, _ in conditional_defs(gp, 0):
        if "Result::Ok" in val and not has_cond(conds, r"PermissionMask::is_injectable_by\(", 1):
            okk = False
    run.ob("C18.2.gate-provenance", "ok-only-if-injectable", okk,
           "get_permissioned_resource returns Ok(resource) only under is_injectable_by(..) == true", config=cfg)
    # storage: get_scriptlet_resources passes the permission paired with each script
    gs = F.fn(S + "get_scriptlet_resources")
    cs = [(c, b, t) for c in [gs] + F.closures_of(gs.name) for b, t in c.calls(r"ResourceStorage::get_scriptlet_resource$")]
    ok = bool(cs)
    for c, b, t in cs:
        a1 = c.expr_operand(t["args"][1])
        a2 = c.expr_operand(t["args"][2])
        if not (a1.endswith(".0") and a2.endswith(".1") and a1[:-2] == a2[:-2]):
            ok = False
    run.ob("C18.2.gate-provenance", "pairwise-permission", ok,
           "get_scriptlet_resources assembles each (script, permission) pair with that pair's own permission",
           site=gs.loc(0), config=cfg)
    # parse stores opts.permissions
    pf = F.fn("lists::parse_filter")
    cp = pf.calls(r"^filters::cosmetic::CosmeticFilter::parse$")
    ok = bool(cp) and all(pf.expr_operand(t["args"][-1]) == "arg:opts.permissions" for b, t in cp)
    run.ob("C18.2.gate-provenance", "list-permission-stored", ok,
           "parse_filter hands opts.permissions to CosmeticFilter::parse (the mask stored with the rule is "
           "the list's)", config=cfg)


def rule_escape(run, F, cfg):
    st = F.statics.get(RS + "stringify_arg::ESCAPED")
    raw = (st or {}).get("val", {}).get("raw")
    if not raw:
        run.ob("C18.4.escape-table", "constant", False, "ESCAPED table constant not found",
               status="UNDISCHARGED", config=cfg)
        return
    tbl = bytes.fromhex(raw)
    bad = []
    short = {8: "b", 9: "t", 10: "n", 12: "f", 13: "r"}
    for i in range(256):
        v = tbl[i]
        if i < 0x20:
            want = ord(short.get(i, "u"))
        elif i == 0x22:
            want = ord('"')
        elif i == 0x5C:
            want = ord("\\")
        else:
            want = 0
        if v != want:
            bad.append((i, v, want))
    run.ob("C18.4.escape-table", "ESCAPED[256]", len(tbl) == 256 and not bad,
           f"ESCAPED is non-zero exactly for 0x00-0x1F, '\"' and '\\'; short escapes b,t,n,f,r at 8,9,10,12,13, "
           f"'u' for the other control characters; mismatches: {bad[:3]}", config=cfg)
    # write_string_complex: cursor advanced past every escaped byte
    w = F.fn(RS + "stringify_arg::write_string_complex")
    run.touched(w)
    esc_calls = []
    for b, t in w.calls(r"Vec::extend_from_slice$"):
        e = w.expr_operand(t["args"][1])
        if e.startswith("[92, "):
            esc_calls.append(b)
    start_local = [l for l, nme in w.varnames.items() if nme == "start"]
    ok = bool(esc_calls) and bool(start_local)
    for eb in esc_calls:
        for p in enumerate_paths(w, start=eb):
            if not p.end.startswith("backedge") and p.end != "return":
                continue
            upd = False
            for b in p.blocks:
                for s in w.blocks[b]["s"]:
                    if s["k"] == "assign" and not s["pl"]["p"] and s["pl"]["l"] in start_local:
                        ev = w.expr_rvalue(s["rv"], 2)
                        if "AddWithOverflow 1" in ev:
                            upd = True
            if not upd:
                ok = False
    run.ob("C18.4.escape-table", "cursor-advanced-after-escape", ok,
           "in write_string_complex every path from the emission of an escape sequence to the next loop "
           "iteration sets start = index + 1 (otherwise the raw byte is copied again after its escape)",
           site=w.loc(esc_calls[0]) if esc_calls else w.loc(0), config=cfg)
    # \uXXXX digits: exactly under `escape == b'u'`, format!("{:04x}", ch) of the byte being escaped
    HEX4 = 'b"\\xc3 \\x00\\x00i\\x04\\x00\\x00"'   # rustc's encoding of the template `{:04x}` (this toolchain)
    ufmt = []
    for b, t in w.calls(r"^std::vec::Vec::extend_from_slice$"):
        c = dominating_conditions(w, b)
        if any(re.search(r"ESCAPED\[\(.*Iterator>::next\(.*\)@Some\.0\.1 as usize\)\] Eq 117\)$", k) and v == 1 for k, v in c.items()):
            ufmt.append((b, w.expr_operand(t["args"][1])))
    oku = len(ufmt) == 1
    if oku:
        e = ufmt[0][1]
        oku = (HEX4 in e and "Argument::new_lower_hex(" in e and "Arguments::new(" in e
               and e.count("Argument::new_") == 1)
        # the formatted value is the loop's current byte (the same one that indexes ESCAPED)
        hexarg = [w.expr_operand(t["args"][0]) for b, t in w.calls(r"Argument::new_lower_hex$")]
        oku = oku and len(hexarg) == 1 and bool(re.search(r"Iterator>::next\(.*\)@Some\.0\.1\)?(\.0)?$", hexarg[0]))
    run.ob("C18.4.escape-table", "unicode-escape-digits", oku,
           "after `\\u` (emitted exactly when ESCAPED[ch] == b'u') write_string_complex appends "
           "format!(\"{:04x}\", ch) of the byte being escaped: four lower-case hex digits, most significant "
           "first, so the JS literal decodes to the original control character",
           site=w.loc(ufmt[0][0]) if ufmt else w.loc(0), config=cfg,
           detail=str([u[1][:200] for u in ufmt]))
    # the escape byte emitted comes from the table for this byte
    tbl_idx = [b for b, t in w.calls(r"") if False]
    sa = [g for n, g in F.fns.items() if n == RS + "stringify_arg"]
    if sa:
        run.touched(sa[0])
        fu = sa[0].calls(r"^std::string::String::from_utf8$")
        pushes = [sa[0].expr_operand(t["args"][1]) for b, t in sa[0].calls(r"^std::vec::Vec::push$")]
        run.ob("C18.4.escape-table", "quotes", pushes.count("34") == 2 and bool(fu),
               f"stringify_arg wraps the output in double quotes when QUOTED (pushes: {pushes})", config=cfg)


def rule_invocation(run, F, cfg):
    g = F.fn(RS + "ResourceStorage::get_scriptlet_resource")
    cl = F.closures_of(g.name)
    quoted = {}
    for c in cl:
        for b, t in c.calls(r"resource_storage::stringify_arg$"):
            quoted[c.name] = t.get("gen", [])
    vals = sorted(str(v) for v in quoted.values())
    run.ob("C18.5.invocation", "quoted-and-unquoted-paths", vals == ["['false']", "['true']"],
           f"get_scriptlet_resource maps stringify_arg::<true> (function call) and stringify_arg::<false> "
           f"(template) over the arguments ({vals})", site=g.loc(0), config=cfg)
    jn = g.calls(r"Itertools::join$")
    okj = bool(jn) and g.expr_operand(jn[0][1]["args"][1]) == '", "'
    # the joined iterator is a plain map over all args (no filter/skip/take)
    chain = g.expr_operand(jn[0][1]["args"][0]) if jn else ""
    plain = chain.startswith("std::iter::Iterator::map(core::slice::iter(") and "filter" not in chain and "skip" not in chain and "take" not in chain
    run.ob("C18.5.invocation", "every-arg-quoted-joined", okj and plain,
           f"function-style invocation joins map(stringify_arg::<true>) over ALL arguments with \", \"",
           site=g.loc(jn[0][0]) if jn else "", config=cfg, detail=chain[:200])
    # function-call template "{}({})"
    tm = [g.expr_operand(t["args"][0]) for b, t in g.calls(r"^std::fmt::Arguments::new$")]
    run.ob("C18.5.invocation", "call-template", 'b"\\xc0\\x01(\\xc0\\x01)\\x00"' in tm,
           f"the invocation is format!(\"{{}}({{}})\", function_name, args) (templates {tm})", config=cfg)
    p = F.fn(RS + "patch_template_scriptlet")
    rep = []
    for c in [p] + F.closures_of(p.name):
        for b, t in c.calls(r"^std::str::replace$|^core::str::replace$|str::replace$"):
            rep.append((c.expr_operand(t["args"][1]), c.expr_operand(t["args"][2])))
    run.ob("C18.5.invocation", "template-dollar-doubled", ("'$'", '"$$"') in rep,
           f"patch_template_scriptlet doubles '$' in each argument before Regex::replace ({rep})", config=cfg)


def rule_mask_merge(run, F, cfg):
    """the permission handed to the scriptlet gate for an injection is the mask of ONE rule list: combining the
    masks of several lists (OR) can grant bits that no single list was given"""
    f = F.fn("cosmetic_filter_cache::CosmeticFilterCache::hostname_cosmetic_resources")
    merges = []
    for g in [f] + [c for n, c in F.fns.items() if n.startswith(f.name + "::")]:
        for b, t in g.calls(r"^<resources::PermissionMask as std::ops::(BitOr|BitOrAssign)"):
            merges.append((g.name.split("::")[-1], g.loc(b)))
    run.ob("C18.2.gate-provenance", "injection-mask-of-one-list", not merges,
           "hostname_cosmetic_resources never combines the PermissionMasks of different rules for the same `+js(...)` "
           f"text (found {merges}): with `|=`, lists granted 0b01 and 0b10 together inject a scriptlet that requires 0b11",
           site=merges[0][1] if merges else f.loc(0), config=cfg)
