"""C02 — a rule's pattern matches a URL exactly when ABP pattern semantics say so (structure)."""
import itertools
import re

from analysis.facts import strip_generics
from analysis.guards import dominating_conditions, conditional_defs, has_cond
from analysis.pathinterp import enumerate_paths, path_calls, path_value
from . import C05
from . import C06 as _C06

EXPLANATION = (
    "String semantics over all (pattern, URL) pairs is a value-level question and is NOT decided. Decided "
    "clauses: (1) dispatch-table agreement — the decision table of check_pattern over {is_hostname_anchor, "
    "is_regex, is_complete_regex, is_left_anchor, is_right_anchor}, extracted by path enumeration on all 32 "
    "valuations, equals the reference (un-anchored -> substring leaf, |p -> prefix, p| -> suffix, |p| -> "
    "equality, ||h.. -> the five hostname leaves, regex flags -> regex leaf); each leaf applies the "
    "expected primitive (memmem::find / starts_with / ends_with / ==) to the URL selected by match_case; the "
    "hostname leaves enumerate EVERY label-aligned occurrence of the rule's hostname in the request's hostname "
    "(anchored_hostname_ends: truth table of one step against the label-boundary specification, the search "
    "resumes one byte after an occurrence) and apply the remainder primitive to the URL cut directly after that "
    "occurrence, at the hostname's own position in the URL (after `://` and any userinfo, not wherever the same "
    "text occurs first); every leaf consumes the WHOLE pattern iterator (Iterator::any or "
    "hand-off to the regex manager) — needed for fused rules; (2) flag-name agreement — make_regexp passes "
    "is_right_anchor / is_left_anchor / is_complete_regex predicates to the parameters of compile_regex of "
    "the same names; (3) regex translation constants — '*' -> '.*', '^' -> the separator class "
    "[^\\w\\d\\._%-] (or end of input when last), metacharacters escaped, `^` / `$` emitted exactly under "
    "the anchor flags, per pattern, all patterns handed to the RegexSet; the regex leaf returns only what "
    "RegexManager::matches returns (no shortcut path)."
    ' Round 6: the host of a `||host...` pattern ends at the first `/`, `*` or `^` (first `/` without wildcards): the `end` of every prefix slice that becomes the hostname comes from exactly these delimiter searches, and the separator class is compared with [/^*] as an automaton.'
)
NOT_DECIDED = ("What the library primitives (memmem::find, str::starts_with, the regex crate) answer on concrete "
               "strings; that `www.` is stripped from a rule's hostname (reported as a known finding, see C02.7).")

NM = "filters::network_matchers::"
H = "filters::network::NetworkFilterMaskHelper::"
PREDS = ["is_hostname_anchor", "is_regex", "is_complete_regex", "is_left_anchor", "is_right_anchor"]


def reference_leaf(v):
    if v["is_hostname_anchor"]:
        if v["is_regex"]:
            return "check_pattern_hostname_anchor_regex_filter"
        if v["is_right_anchor"] and v["is_left_anchor"]:
            return "check_pattern_hostname_left_right_anchor_filter"
        if v["is_right_anchor"]:
            return "check_pattern_hostname_right_anchor_filter"
        if v["is_left_anchor"]:
            return "check_pattern_hostname_left_anchor_filter"
        return "check_pattern_hostname_anchor_filter"
    if v["is_regex"] or v["is_complete_regex"]:
        return "check_pattern_regex_filter"
    if v["is_left_anchor"] and v["is_right_anchor"]:
        return "check_pattern_left_right_anchor_filter"
    if v["is_left_anchor"]:
        return "check_pattern_left_anchor_filter"
    if v["is_right_anchor"]:
        return "check_pattern_right_anchor_filter"
    return "check_pattern_plain_filter_filter"


def check(run):
    for cfg in run.cfgs("A", "D"):
        F = run.facts(cfg)
        run.guard("C02.1.dispatch", cfg, lambda: rule_dispatch(run, F, cfg))
        run.guard("C02.1.leaves", cfg, lambda: rule_leaves(run, F, cfg))
        run.guard("C02.1.leaves", cfg + "/table", lambda: rule_leaf_tables(run, F, cfg))
        run.guard("C02.4.label-boundary", cfg + "/table", lambda: rule_anchoring_table(run, F, cfg))
        from . import C03 as _C03
        b3 = run.borrow("C03", why="`|http://`-style patterns are turned into scheme restrictions, not matched as text")
        run.guard("C02.via.C03.6.scheme-patterns", cfg, lambda: _C03.rule_scheme_patterns(b3, F, cfg))
        run.guard("C02.3.regex-translation", cfg + "/builder", lambda: rule_regex_builder(run, F, cfg))
        run.guard("C02.3.regex-translation", cfg + "/case", lambda: rule_regex_case(run, F, cfg))
        run.guard("C02.3.regex-translation", cfg + "/collected", lambda: rule_patterns_collected(run, F, cfg))
        run.guard("C02.5.pattern-split", cfg, lambda: rule_pattern_split(run, F, cfg))
        from . import C12 as _C12
        b12 = run.borrow("C12", why="patterns (and `|` right anchors) are evaluated on the complete URL, fragment included")
        run.guard("C02.via.C12.7.whole-url", cfg, lambda: _C12.rule_whole_url(b12, F, cfg))
        b126 = run.borrow("C12", only=r"host-start|host-span|hostname", why="`||host` is compared with the request's hostname: that has to be the host "
                                    "component of the URL, not the host preceded by its credentials")
        run.guard("C02.via.C12.6.host-span", cfg, lambda: _C12.rule_host_span(b126, F, cfg))
        run.guard("C02.2.flag-names", cfg, lambda: rule_flags(run, F, cfg))
        run.guard("C02.3.regex-translation", cfg, lambda: rule_translation(run, F, cfg))
        run.guard("C05.4.disjunction", cfg, lambda: C05.rule_disjunction(run, F, cfg))
        run.guard("C05.5.part-iterator", cfg, lambda: C05.rule_part_iterator(run, F, cfg))
        b = run.borrow("C06", why="a regex rebuilt after a discard must be the regex compiled the first time")
        run.guard("C02.via.C06.2.pure-cache", cfg, lambda: _C06.rule_pure_cache(b, F, cfg))
        from . import C01 as _C01
        b1 = run.borrow("C01", only=r"token-limit", why="a pattern can only be compared with the URLs whose tokens reach its bucket: the URL's first 127 tokens must all be looked up")
        run.guard("C02.via.C01.4.token-boundary", cfg, lambda: _C01.rule_boundary(b1, F, cfg))
    run.guard("C02.6.regex-literal-classification", "A/D", lambda: rule_regex_literal_agreement(run))
    for cfg in run.cfgs("A", "D"):
        F = run.facts(cfg)
        run.guard("C02.7.host-verbatim", cfg, lambda: rule_host_verbatim(run, F, cfg))
        run.guard("C02.7.host-verbatim", cfg + "/host-part", lambda: rule_host_part(run, F, cfg))
        run.guard("C02.7.host-verbatim", cfg + "/ascii-host", lambda: rule_ascii_host_verbatim(run, F, cfg))
    for cfg in run.cfgs("A", "D"):
        F = run.facts(cfg)
        b63 = run.borrow("C06", why="a pattern is matched with the regex compiled for ITS OWN text: the cache key has to identify the rule (and be dropped when rules are re-allocated or fused)")
        run.guard("C02.via.C06.3.cache-key-validity", cfg, lambda: _C06.rule_cache_key(b63, F, cfg))


def rule_host_part(run, F, cfg):
    """Where the host of a `||host...` pattern ends: at the first `/`, `*`, `^` or `:` (a port belongs to the
    pattern: `||example.com:8080^` is the host example.com followed by `:8080^`) when the pattern has wildcards or
    separators, at the first `/` or `:` otherwise -- a DELIMITER search, so that every other character the author
    wrote (`_`, `%`, non-ASCII letters, ..) stays part of the host --, and the search starts behind a leading
    bracketed IPv6 literal, whose colons are part of the host. Decided on the prefix slices `pattern[..end]` that
    become the hostname: their `end` must come from exactly these two searches; the separator class is compared with
    `[/^*:]` as an automaton, the non-wildcard search must be a character predicate accepting exactly {/ :}."""
    from analysis.a7 import regex_equivalent
    from analysis.guards import char_predicate_set, conditional_defs as _cd
    p = F.fn("filters::network::NetworkFilter::parse")
    bodies = [p] + F.closures_of(p.name)
    ends = []
    for g in bodies:
        for b, t in g.calls(r"String as std::convert::From<&str>>::from$"):
            e = g.expr_call(t)
            m = re.match(r"^<std::string::String as std::ops::Index<I>>::index\((.*), std::ops::RangeTo::RangeTo\{end: (.*)\}\)$", e)
            if m and (m.group(1).endswith(".pattern.pattern") or m.group(1) == "up:pattern"):
                ends.append((g, m.group(2), g.loc(b)))
    ISPAT = r"(\.pattern\.pattern|^up:pattern)$"
    FROM = r"^filters::network::ipv6_literal_end\(.*pattern\.pattern\)$"
    # wildcard branch: SEPARATOR.find_at(pattern, ipv6_literal_end(pattern)) -- checked at the call site (deep
    # renderings elide their leaves); the slice end only has to be that match's start
    fa = [(b, t) for b, t in p.calls(r"^regex::Regex::find_at$")]
    fa_ok = len(fa) == 1 and p.expr_operand(fa[0][1]["args"][0]) == "static:filters::network::NetworkFilter::parse::SEPARATOR" \
        and bool(re.search(ISPAT, p.expr_operand(fa[0][1]["args"][1]))) and bool(re.match(FROM, p.expr_operand(fa[0][1]["args"][2])))
    sep_ok = [x for g, x, l in ends if fa_ok and "closure[" not in x and re.match(
        r"^regex::Match::start\(regex::Regex::find_at\(static:filters::network::NetworkFilter::parse::SEPARATOR, .*\)@Some\.0\)$", x)]
    # the wildcard-free branch: pattern[from..].find(<char predicate>).map(|i| i + from).map(|i| hostname = pattern[..i] ..)
    clo = [(g, x) for g, x, l in ends if re.match(r"^arg:\w+$", x)]
    slash_ok = []
    pred = shift = None
    fd = [(b, t) for b, t in p.calls(r"^core::str::find$")]
    if len(fd) == 1:
        b0, t0 = fd[0]
        mh = re.match(r"^<std::string::String as std::ops::Index<I>>::index\((.*), std::ops::RangeFrom::RangeFrom\{start: (.*)\}\)$",
                      p.expr_operand(t0["args"][0]))
        mc = re.match(r"^closure\[([^\]]+)\]\(\)$", p.expr_operand(t0["args"][1]))
        hay_ok = bool(mh) and bool(re.search(ISPAT, mh.group(1))) and bool(re.match(FROM, mh.group(2)))
        pred = char_predicate_set(F.fns[mc.group(1)]) if mc and mc.group(1) in F.fns else None
        # follow the position through the two Option::map calls: |i| i + from, then the closure that cuts the host
        from .C04 import _root_local
        cur = t0["dest"]["l"]
        hops = []
        for _ in range(2):
            nxt = [(b, t) for b, t in p.calls(r"^std::option::Option::map$") if _root_local(p, t["args"][0]) == cur]
            if len(nxt) != 1:
                break
            mm = re.match(r"^closure\[([^\]]+)\]\((.*)\)$", p.expr_operand(nxt[0][1]["args"][1]))
            hops.append((mm.group(1) if mm else None, mm.group(2) if mm else ""))
            cur = nxt[0][1]["dest"]["l"]
        if hay_ok and pred == {"/", ":"} and len(hops) == 2 and hops[0][0] in F.fns:
            shift = F.fns[hops[0][0]].expr_local(0)
            if re.match(r"^\(arg:\w+ AddWithOverflow up:\w+\)\.0$", shift) and re.match(FROM, hops[0][1]):
                slash_ok = [g for g, x in clo if g.name == hops[1][0]]
    other = [(x[:100], l) for g, x, l in ends if x not in sep_ok and not any(g is g2 for g2 in slash_ok)]
    lit = None
    for n2, c in F.fns.items():
        if n2.startswith("filters::network::NetworkFilter::parse::SEPARATOR::{closure"):
            for b, t in c.calls(r"^regex::Regex::new$"):
                lit = c.expr_operand(t["args"][0])
    okx, why = regex_equivalent(lit or '""', '"[/^*:]"')
    run.ob("C02.7.host-verbatim", "host-part-ends-at-first-delimiter", len(sep_ok) == 1 and len(slash_ok) == 1 and not other and okx,
           f"the hostname of a `||` rule is pattern[..end] with end = start of the first match of SEPARATOR ~ [/^*:] "
           f"(literal {lit}; {why}) in the wildcard branch and end = position of the first character in {{/ :}} otherwise "
           f"(predicate accepts {sorted(pred) if pred else pred}, offset {shift}), both searched from ipv6_literal_end(pattern); "
           f"other ends: {other[:2]}", site=other[0][1] if other else p.loc(0), config=cfg,
           detail="an allow-list of host characters instead of the delimiter search cuts `||ad_server.example.com^` at the "
                  "underscore; a class without `:` folds the port of `||example.com:8080^` into the host, which no request "
                  "hostname contains")
    # ipv6_literal_end: 0 unless the pattern starts with `[`, then one past the first `]`
    h = F.fns.get("filters::network::ipv6_literal_end")
    okv = False
    vals = []
    if h is not None:
        run.touched(h)
        for kind, b, val, conds, _ in _cd(h, 0):
            br = [v for e, v in conds.items() if re.match(r"^core::str::starts_with\(arg:\w+, '\['\)$", e)]
            vals.append((val[:90], br[0] if br else None))
        nz = [(v, c) for v, c in vals if v != "0"]
        okv = bool(vals) and all(c == 1 for v, c in nz) and all(re.match(
            r"^std::option::Option::map_or\(memchr::memchr\(93, arg:\w+\), 0, closure\[", v) for v, c in nz) and \
            any(v == "0" and c == 0 for v, c in vals)
        inc = [c.expr_local(0) for c in F.closures_of(h.name)]
        okv = okv and inc == [c_ for c_ in inc if re.match(r"^\(arg:\w+ AddWithOverflow 1\)\.0$", c_)] and len(inc) == 1
    run.ob("C02.7.host-verbatim", "search-starts-behind-an-ipv6-literal", okv,
           f"ipv6_literal_end(pattern) is 0 unless the pattern starts with `[`, and then one past its first `]` (or 0 "
           f"when there is none): {vals}", site=h.loc(0) if h is not None else "", config=cfg)


def rule_ascii_host_verbatim(run, F, cfg):
    """An ASCII hostname of a `||host` rule is kept as written (lower-cased): idna::domain_to_ascii is applied only to
    hostnames that are not ASCII. (For ASCII input the conversion is the identity EXCEPT that it validates every
    `xn--` label, so it would reject rules for hosts such as `xn--paypal-login.example`, which the request side
    accepts as plain ASCII.) Decided on every idna::domain_to_ascii call of NetworkFilter::parse and its closures:
    it sits on the false side of an is_ascii() test of its own argument."""
    p = F.fn("filters::network::NetworkFilter::parse")
    n = 0
    bad = []
    for g in [p] + F.closures_of(p.name):
        for b, t in g.calls(r"^idna::domain_to_ascii$"):
            n += 1
            arg = g.expr_operand(t["args"][0])
            conds = dominating_conditions(g, b)
            if not any(e == f"core::str::is_ascii({arg})" and v == 0 for e, v in conds.items()):
                bad.append((arg[:80], g.loc(b)))
    run.ob("C02.7.host-verbatim", "ascii-host-not-idna-validated", n >= 1 and not bad,
           f"each of the {n} idna::domain_to_ascii calls in NetworkFilter::parse converts a value only where is_ascii(<that value>) "
           f"is false; unguarded: {bad}", site=bad[0][1] if bad else p.loc(0), config=cfg)


def rule_host_verbatim(run, F, cfg):
    """`||host` pins the pattern to `host` or one of its subdomains: the hostname kept for matching is the rule's own
    (lower-cased, punycoded). Two places give up on that, both reported as known findings:
      * a leading `www.` is cut off, so `||www.example.com^` also matches example.com and all its other subdomains;
      * `|ws://` is turned into the websocket bit, which wss:// requests satisfy as well (there is no separate bit), and
        the pattern text is dropped."""
    p = F.fn("filters::network::NetworkFilter::parse")
    bodies = [p] + F.closures_of(p.name)
    run.touched(*bodies)
    strip = [(g.loc(b), g.expr_operand(t["args"][1])) for g in bodies for b, t in g.calls(r"str::trim_start_matches$|str::strip_prefix$")
             if "www" in g.expr_operand(t["args"][1])]
    run.ob("C02.7.host-verbatim", "www-prefix-stripped", not strip,
           f"NetworkFilter::parse removes a `www.` prefix from the hostname of `||host` rules ({strip[:1]}): `||www.example.com^` "
           "matches https://example.com/ and https://cdn.example.com/, which are neither www.example.com nor subdomains of it",
           site=strip[0][0] if strip else p.loc(0), config=cfg)
    ws = [(b, t) for b, t in p.calls(r"str::starts_with$") if p.expr_operand(t["args"][1]) == '"ws://"']
    wss_bit = [n for n in F.consts if re.search(r"NetworkFilterMask::.*WSS", n)]
    erased = False
    for b, t in ws:
        # the arm taken when the pattern is exactly `ws://`: is the pattern text dropped there?
        for b2 in p.reachable_from(b):
            for st in p.blocks[b2]["s"]:
                if st["k"] == "assign" and p.varnames.get(st["pl"]["l"]) == "filter_index_start" and not st["pl"]["p"] \
                        and p.expr_rvalue(st["rv"], 1).endswith("filter_index_end") and p.dominates(b, b2) \
                        and any(k.endswith('"ws://")') and v == 1 for k, v in dominating_conditions(p, b2).items()):
                    erased = True
    run.ob("C02.7.host-verbatim", "ws-pattern-also-covers-wss", not (ws and erased and not wss_bit),
           "the left-anchored pattern `|ws://` is replaced by the FROM_WEBSOCKET bit and its text dropped; the bit is satisfied "
           "by wss:// requests too, so `|ws://` matches wss://example.com/ although that URL does not start with `ws://`",
           site=p.loc(ws[0][0]) if ws else p.loc(0), config=cfg)


def _classification_sites(F):
    """(conditions, loc) of every place where NetworkFilter::parse classifies a rule as a complete regex (sets
    IS_COMPLETE_REGEX) or rejects it for lack of regex support (FullRegexUnsupported)"""
    from analysis.guards import dominating_conditions
    p = F.fn("filters::network::NetworkFilter::parse")
    sets, errs = [], []
    for b, t in p.calls(r"::set$"):
        if "IS_COMPLETE_REGEX" in p.vexpr_call(t):
            sets.append((dict(dominating_conditions(p, b, render=p.vexpr_operand)), p.loc(b)))
    for b, i, st in p.statements():
        if st["k"] == "assign" and st["rv"]["k"] == "agg" and st["rv"].get("variant") == "FullRegexUnsupported":
            errs.append((dict(dominating_conditions(p, b, render=p.vexpr_operand)), p.loc(b)))
    return p, sets, errs


def rule_regex_literal_agreement(run):
    """Sibling agreement across build configurations: the lines a build without `full-regex-handling` rejects as
    unsupported regular expressions are exactly the lines the default build treats as complete regexes. A build
    that rejects more drops ordinary patterns (`||example.com/ads/`); one that rejects less matches a `/re/` rule as
    if it were a literal."""
    from analysis.names import eq_mod_names
    rid = "C02.6.regex-literal-classification"
    if "A" not in run.cfgs("A", "D") or "D" not in run.cfgs("A", "D"):
        return
    FA, FD = run.facts("A"), run.facts("D")
    pa, sets_a, errs_a = _classification_sites(FA)
    pd, sets_d, errs_d = _classification_sites(FD)
    run.touched(pa, pd)
    run.ob(rid, "default-build:one-classification-site", len(sets_a) == 1 and not errs_a,
           f"configuration A sets IS_COMPLETE_REGEX at exactly one place and never returns FullRegexUnsupported "
           f"({len(sets_a)} / {len(errs_a)})", site=pa.loc(0), config="A")
    run.ob(rid, "no-regex-build:one-rejection-site", len(errs_d) == 1 and not sets_d,
           f"configuration D returns FullRegexUnsupported at exactly one place and never sets IS_COMPLETE_REGEX "
           f"({len(errs_d)} / {len(sets_d)})", site=pd.loc(0), config="D")
    if len(sets_a) == 1 and len(errs_d) == 1:
        ca, cd = sets_a[0][0], errs_d[0][0]
        same = ca == cd or eq_mod_names(sorted(cd.items()), sorted(ca.items()))
        run.ob(rid, "same-lines-in-both-builds", same,
               "the rejection in configuration D is reached under the same conditions as the complete-regex "
               f"classification in configuration A.  A: {sorted(ca.items())}  D: {sorted(cd.items())}",
               site=errs_d[0][1], config="D")


def rule_dispatch(run, F, cfg):
    f = F.fn(NM + "check_pattern")
    run.touched(f)
    rows = []
    for p in enumerate_paths(f):
        if p.end != "return":
            continue
        d = {}
        for e, v in p.conds:
            m = re.match(r"^" + re.escape(H) + r"(\w+)\(arg:mask\)$", e)
            if m:
                d[m.group(1)] = v
        leaf = [strip_generics(t["callee"]).split("::")[-1] for b, t in path_calls(f, p, r"^filters::network_matchers::check_pattern_")]
        rows.append((d, leaf))
    bad = []
    n = 0
    for bits in itertools.product((0, 1), repeat=len(PREDS)):
        v = dict(zip(PREDS, bits))
        n += 1
        hit = set()
        for d, leaf in rows:
            if all(v.get(k) == val for k, val in d.items()):
                hit.add(tuple(leaf))
        want = (reference_leaf(v),)
        if hit != {want}:
            bad.append(({k for k, x in v.items() if x}, sorted(hit), want))
    run.ob("C02.1.dispatch", "table", not bad,
           f"check_pattern dispatches each of the {n} flag valuations to the leaf the pattern semantics require"
           + (f"; first mismatch {bad[0][0]}: got {bad[0][1]}, expected {bad[0][2]}" if bad else ""),
           site=f.loc(0), config=cfg, detail="\n".join(str(b) for b in bad[:6]))
    unknown = set()
    for d, leaf in rows:
        unknown |= set(d) - set(PREDS)
    run.ob("C02.1.dispatch", "only-modelled-predicates", not unknown,
           f"the dispatch depends only on {PREDS} (also on: {sorted(unknown)})", config=cfg,
           status=None if not unknown else "UNDISCHARGED")


LEAVES = {
    "check_pattern_plain_filter_filter": ("substring", r"memchr::memmem::find$|str::contains$", False),
    "check_pattern_left_anchor_filter": ("prefix", r"str::starts_with$", False),
    "check_pattern_right_anchor_filter": ("suffix", r"str::ends_with$", False),
    "check_pattern_left_right_anchor_filter": ("equality", r"::eq$", False),
    "check_pattern_hostname_anchor_filter": ("substring after host", r"memchr::memmem::find$|str::contains$", True),
    "check_pattern_hostname_left_anchor_filter": ("prefix after host", r"str::starts_with$", True),
    "check_pattern_hostname_right_anchor_filter": ("suffix", r"str::ends_with$|::eq$", True),
    "check_pattern_hostname_left_right_anchor_filter": ("equality after host", r"::eq$", True),
}


def _resolved(F, g, op, depth=0):
    """provenance rendering of an operand, with captured variables of nested closures traced to the enclosing body"""
    e = g.expr_operand(op)
    m = re.match(r"^up:(\w+)$", e)
    while m and "::{closure" in g.name and depth < 4:
        parent = F.fns.get(g.name.rsplit("::{closure", 1)[0])
        if parent is None:
            break
        ls = [l for l, nme in parent.varnames.items() if nme == m.group(1)]
        if not ls:
            break
        e2 = parent.expr_local(ls[0])
        if e2 == e:
            break
        g, e, depth = parent, e2, depth + 1
        m = re.match(r"^up:(\w+)$", e)
    return re.sub(r"^<std::string::String as std::ops::Deref>::deref\((.*)\)$", r"\1)", e) if e.startswith("<std::string::String as std::ops::Deref>") else e


def rule_leaves(run, F, cfg):
    for leaf, (what, prim, hosted) in LEAVES.items():
        f = F.fn(NM + leaf)
        cone = [F.fns[n] for n in F.cone([f.name]) if F.fns[n].file.endswith("network_matchers.rs") and n != f.name
                and (n.startswith(f.name + "::") or not re.search(r"::check_pattern_(plain|left|right|left_right)\w*_filter", n))
                and not re.search(r"::(is_anchored_by_hostname|get_url_after_hostname|anchored_hostname_ends|offsets_after_hostname|hostname_offset)(::|$)", n)]
        cl = cone
        run.touched(f, *cl)
        prims = [strip_generics(t["callee"]) for c in cl for b, t in c.calls(prim)]
        whole = any(c.calls(r"Iterator::any$") for c in [f] + cl)
        deleg = [strip_generics(t["callee"]).split("::")[-1] for c in [f] + cl
                 for b, t in c.calls(r"^filters::network_matchers::check_pattern_\w+_filter$")
                 if any("filters" in c.expr_operand(a) for a in t["args"])]
        if deleg and all(d in LEAVES for d in deleg):
            whole = True
            prims = prims or ["(delegates to " + ", ".join(deleg) + ")"]
        ok = bool(prims) and whole
        # the primitive must be applied with the pattern `f` as needle and a URL-derived haystack
        run.ob("C02.1.leaves", f"{leaf}:primitive", ok,
               f"{leaf} ({what}) tests each pattern with {sorted(set(prims)) or 'NO expected primitive'} inside "
               f"Iterator::any over the whole pattern iterator [{whole}]", site=f.loc(0), config=cfg)
        nxt = [1 for c in [f] + cl for b, t in c.calls(r"Iterator::next$") if "arg:filters" in c.expr_operand(t["args"][0])]
        run.ob("C02.1.leaves", f"{leaf}:whole-iterator", not nxt,
               f"{leaf} never looks at only the first pattern (no bare filters.next())", config=cfg)
    # every hostname-anchoring call passes the rule's own hostname, the request hostname and the wildcard flag of
    # the mask (a `||host*rest` rule must be allowed to continue inside a label)
    n_a = 0
    for g in F.fns.values():
        if not g.file.endswith("network_matchers.rs") or not g.name.startswith(NM + "check_pattern_"):
            continue
        for b, t in g.calls(r"^filters::network_matchers::(is_anchored_by_hostname|anchored_hostname_ends|offsets_after_hostname)$"):
            n_a += 1
            callee = t["callee"].split("::")[-1]
            a = [_resolved(F, g, x) for x in t["args"]]
            if callee == "offsets_after_hostname":
                url_ok = bool(re.search(r"^request::Request::get_url\((arg|up):request, .*match_case\((arg|up):mask\)\)$", a[0]))
                ok = url_ok and a[1] in ("arg:request", "up:request") and a[2] == "arg:hostname" and \
                    bool(re.search(r"::contains\((arg|up):mask, filters::network::NetworkFilterMask::IS_HOSTNAME_REGEX", a[3]))
            else:
                ok = a[0] == "arg:hostname" and bool(re.search(r"(arg|up):request\.hostname\)?$", a[1])) and \
                    bool(re.search(r"::contains\((arg|up):mask, filters::network::NetworkFilterMask::IS_HOSTNAME_REGEX", a[2]))
            run.ob("C02.1.leaves", f"hostname-anchoring-args#{n_a}:{callee}", ok,
                   f"{g.name[len(NM):]} calls {callee} with the rule's hostname, the request (its hostname; the URL selected by "
                   f"match_case) and mask.contains(IS_HOSTNAME_REGEX) — got {[x[-60:] for x in a]}", site=g.loc(b), config=cfg)
    run.floor("C02.1.leaves", f"hostname anchoring call sites in the leaves [{cfg}]", n_a, 8)
    # regex leaf: only RegexManager::matches decides
    for leaf in ("check_pattern_regex_filter", "check_pattern_regex_filter_at"):
        f = F.fn(NM + leaf)
        run.touched(f)
        ret = f.expr_local(0)
        ok = ret.startswith("regex_manager::RegexManager::matches(") or ret.startswith(NM + "check_pattern_regex_filter_at(")
        run.ob("C02.1.leaves", f"{leaf}:only-regex-manager", ok and "φ{" not in ret.split("(")[0],
               f"{leaf} returns exactly what the regex manager returns for all patterns (no shortcut that inspects "
               f"only one occurrence / one pattern): `{ret[:100]}`", site=f.loc(0), config=cfg)
    g = F.fn(NM + "check_pattern_regex_filter_at")
    m = g.calls(r"^regex_manager::RegexManager::matches$")
    ok = len(m) == 1 and g.expr_operand(m[0][1]["args"][2]) == "arg:filters" and g.expr_operand(m[0][1]["args"][1]) == "arg:mask"
    run.ob("C02.1.leaves", "regex-leaf:all-filters", ok, "the regex leaf hands mask and ALL patterns to RegexManager::matches", config=cfg)
    gu = [f2 for n, f2 in F.fns.items() if n.endswith("request::Request::get_url")]
    if gu:
        e = gu[0].expr_local(0)
        run.ob("C02.1.leaves", "get_url:case", "url_lower_cased" in e and "arg:self.url" in e,
               f"Request::get_url selects the original URL under match_case and the lower-cased URL otherwise ({e[:80]})",
               config=cfg)


def rule_flags(run, F, cfg):
    mk = F.fn("regex_manager::make_regexp")
    cr = F.fn("regex_manager::compile_regex")
    run.touched(mk, cr)
    names = {v["arg"]: v["name"] for v in cr.mir.get("vars", []) if v.get("arg")}
    cs = mk.calls(r"^regex_manager::compile_regex$")
    ok = len(cs) == 1
    detail = []
    if ok:
        for k, a in enumerate(cs[0][1]["args"], start=1):
            pname = names.get(k, "?")
            e = mk.expr_operand(a)
            detail.append(f"{pname} <- {e[-60:]}")
            if pname.startswith("is_") or pname == "match_case":
                if not re.search(re.escape(H) + pname + r"\(arg:mask\)$", e):
                    ok = False
    run.ob("C02.2.flag-names", "make_regexp->compile_regex", ok,
           "each boolean parameter is_X of compile_regex is fed by mask.is_X() of the same name "
           "(a swap of left / right compiles and anchors the wrong end)", site=mk.loc(0), config=cfg,
           detail="; ".join(detail))


def _lit(F, name):
    for c in F.fns_matching(r"^regex_manager::compile_regex::" + name + r"::\{closure#0\}$"):
        for b, t in c.calls(r"^regex::Regex::new$"):
            return c.expr_operand(t["args"][0])
    return None


def rule_translation(run, F, cfg):
    cr = F.fn("regex_manager::compile_regex")
    want_lits = {"SPECIAL_RE": '"([\\\\|\\\\.\\\\$\\\\+\\\\?\\\\{\\\\}\\\\(\\\\)\\\\[\\\\]])"', "WILDCARD_RE": '"\\\\*"',
                 "ANCHOR_RE": '"\\\\^(.)"', "ANCHOR_RE_EOL": '"\\\\^$"'}
    for name, want in want_lits.items():
        got = _lit(F, name)
        run.ob("C02.3.regex-translation", f"literal:{name}", got == want,
               f"{name} = {got} (expected {want})", config=cfg)
    reps = {}
    for b, t in cr.calls(r"^regex::Regex::replace_all$"):
        st = re.search(r"static:regex_manager::compile_regex::(\w+)", cr.expr_operand(t["args"][0]))
        if st:
            reps[st.group(1)] = cr.expr_operand(t["args"][2])
    want = {"SPECIAL_RE": '"\\\\$1"', "WILDCARD_RE": '".*"'}
    for k, w in want.items():
        run.ob("C02.3.regex-translation", f"replacement:{k}", reps.get(k) == w,
               f"{k} is replaced by {reps.get(k)} (expected {w}: '*' -> '.*'; metacharacters escaped)", config=cfg)
    # '^': one separator character -- "anything but a letter, a digit, or one of _ - . %", where the bytes of non-ASCII
    # characters count as letters (ABP's own class is ASCII-only; the request tokenizer does not split inside or next to a
    # non-ASCII letter either, so a rule found by `^` next to one would not be found through its token bucket). Decided on
    # the automaton of the replacement text: the set of single bytes it accepts.
    from analysis.a7 import regex_single_bytes
    ABP_SEPARATORS = frozenset(b for b in range(0x80) if not (chr(b).isalnum() or chr(b) in "_-.%"))
    for k, tail, empty in (("ANCHOR_RE", "$1", False), ("ANCHOR_RE_EOL", "", True)):
        lit = reps.get(k) or '""'
        body = lit[1:-1]
        shape = body.endswith(tail) and (not empty or body.endswith("|$)"))
        cls = '"' + (body[:-len(tail)] if tail else body) + '"'
        got, why = regex_single_bytes(cls)
        extra = sorted(got - ABP_SEPARATORS)[:6] if got is not None else None
        missing = sorted(ABP_SEPARATORS - got)[:6] if got is not None else None
        run.ob("C02.3.regex-translation", f"replacement:{k}", shape and got == ABP_SEPARATORS,
               f"{k} is replaced by {lit}: one byte out of the {len(ABP_SEPARATORS)} ASCII separators"
               f"{' or the end of the input' if empty else ' followed by the captured character'} "
               f"(accepted besides: {[hex(x) for x in extra] if extra is not None else why}; not accepted: "
               f"{[hex(x) for x in missing] if missing is not None else ''})", config=cfg,
               detail="a class that accepts bytes >= 0x80 makes `/banner^` match `/bannerñ.gif` when the rule is tested on "
                      "its own, while the engine never reaches it: the URL's token there is `bannerñ`")
    # the replacements are chained in this order on the same string
    order = [re.search(r"compile_regex::(\w+)", cr.expr_operand(t["args"][0])).group(1) for b, t in cr.calls(r"^regex::Regex::replace_all$")
             if re.search(r"compile_regex::(\w+)", cr.expr_operand(t["args"][0]))]
    run.ob("C02.3.regex-translation", "replacement-order", order == ["SPECIAL_RE", "WILDCARD_RE", "ANCHOR_RE", "ANCHOR_RE_EOL"],
           f"escape, then '*', then '^' (order {order})", config=cfg)
    # anchors under the flags
    for flag, sym in (("is_left_anchor", '"^"'), ("is_right_anchor", '"$"')):
        okf = False
        for b, i, s in cr.statements():
            if s["k"] == "assign" and s["rv"]["k"] == "use" and s["rv"]["op"].get("k") == "const" and cr.expr_operand(s["rv"]["op"]) == sym:
                c = dominating_conditions(cr, b)
                okf = any(e == f"arg:{flag}" and v == 1 for e, v in c.items())
        run.ob("C02.3.regex-translation", f"anchor:{flag}", okf,
               f"{sym} is emitted exactly on the branch {flag} == true", config=cfg)
    # complete regex: inner text between the slashes is used verbatim (after unescaping \/ and \:)
    gets = cr.calls(r"str::get$")
    okc = any("Range{start: 1" in cr.expr_operand(t["args"][1]) and has_cond(dominating_conditions(cr, b), r"^arg:is_complete_regex$", 1) for b, t in gets)
    run.ob("C02.3.regex-translation", "complete-regex-strips-slashes", okc,
           "for /re/ rules the text between the first and last character is compiled as the regex", config=cfg)


# per-pattern test of each leaf: (haystack regex, shape regex of the closure's value). `f` is the pattern.
LEAF_TESTS = {
    "check_pattern_plain_filter_filter": r"^std::option::Option::is_some\(memchr::memmem::find\(.*\)\)$|^core::str::contains\(up:request_url, arg:f\)$",
    "check_pattern_left_anchor_filter": r"^core::str::starts_with\((…)?(up:request_url|var:request_url|_\d+), arg:f\)$",
    "check_pattern_right_anchor_filter": r"^core::str::ends_with\((…)?(up:request_url|var:request_url|_\d+), arg:f\)$",
    "check_pattern_left_right_anchor_filter": r"::eq\(.*arg:f\)$|^\(.* Eq .*\)$",
}
# hostname leaves: the test applied to the part of the URL that starts at an anchored offset
HOSTED_TESTS = {
    "check_pattern_hostname_anchor_filter": ("map_or", r"^core::str::contains\(arg:rest, up:f\)$"),
    "check_pattern_hostname_left_anchor_filter": ("map_or", r"^core::str::starts_with\(arg:rest, up:f\)$"),
    "check_pattern_hostname_left_right_anchor_filter": ("eq", None),
}
WILD = r"::contains\((arg|up):mask, filters::network::NetworkFilterMask::IS_HOSTNAME_REGEX"


def _no_negation(*fns):
    return not [1 for c in fns for b, i, st in c.statements() if st["k"] == "assign" and st["rv"]["k"] == "unop" and st["rv"].get("op") == "Not"]


def _paths(g):
    from analysis.pathinterp import enumerate_paths, path_value
    rows = []
    for p in enumerate_paths(g):
        if p.end == "return":
            rows.append((p.conds, path_value(g, p, 0) or ""))
        else:
            rows.append((p.conds, "<" + p.end + ">"))
    return rows


def rule_leaf_tables(run, F, cfg):
    """Each leaf matcher as a decision table. Plain leaves: `any` over ALL patterns of the un-negated per-pattern test
    on the URL. Hostname leaves: no pattern -> whether the rule's hostname is anchored in the request's hostname at
    all; otherwise `any` over ALL patterns of `any` over ALL anchored offsets of the per-pattern test applied to the
    URL from that offset (`||host^`: an anchored occurrence that ends the hostname)."""
    EMPTY = r"^\(std::iter::ExactSizeIterator::len\((arg|up):filters\) Eq 0\)$"
    for leaf, (what, prim, hosted) in LEAVES.items():
        f = F.fn(NM + leaf)
        bad = []
        if not hosted:
            g = f
            rows = _paths(g)
            for conds, val in rows:
                a = {("EMPTY" if re.match(EMPTY, e) else e): v for e, v in conds}
                extra = [k for k in a if k != "EMPTY"]
                if "EMPTY" not in a or extra:
                    bad.append(("decisions", str(extra)[:80]))
                elif a["EMPTY"] == 1:
                    if val != "true":
                        bad.append(("empty pattern must match", val[:60]))
                else:
                    m = re.match(r"^std::iter::Iterator::any\((arg|up):filters, closure\[([^\]]+)\]\(", val)
                    c = F.fns.get(m.group(2)) if m else None
                    test = c.expr_local(0) if c else ""
                    if not c or not re.search(LEAF_TESTS[leaf], test) or not _no_negation(c):
                        bad.append(("per-pattern test", (test or val)[:80]))
            run.ob("C02.1.leaves", f"{leaf}:table", not bad and len(rows) >= 2,
                   f"{leaf} ({what}): true without a pattern, otherwise an un-negated per-pattern test inside `any` "
                   f"({len(rows)} paths; problems: {bad[:2]})", site=g.loc(0), config=cfg)
            continue
        outer = f.expr_local(0)
        run.ob("C02.1.leaves", f"{leaf}:no-hostname-no-match",
               bool(re.match(r"^std::option::Option::unwrap_or\(std::option::Option::map\(arg:hostname, closure\[.*\]\(.*\)\), false\)$", outer)),
               f"{leaf} is hostname.map(<decision closure>).unwrap_or(false) ({outer[-40:]})", config=cfg)
        D = F.fns.get(f.name + "::{closure#0}")
        if D is None:
            run.ob("C02.1.leaves", f"{leaf}:table", False, "decision closure not found", status="UNDISCHARGED", config=cfg)
            continue
        run.touched(D)
        rows = _paths(D)
        for conds, val in rows:
            a, extra = {}, []
            for e, v in conds:
                if re.match(EMPTY, e):
                    a["EMPTY"] = v
                elif re.match(r"^std::option::Option::is_some\(<std::iter::FromFn<F> as std::iter::Iterator>::next\(filters::network_matchers::anchored_hostname_ends\(arg:hostname, up:request\.hostname, .*" + WILD, e):
                    a["ANCH"] = v
                else:
                    extra.append(e[:80])
            if extra or "EMPTY" not in a:
                bad.append(("decisions", str(extra)[:100]))
                continue
            if leaf == "check_pattern_hostname_right_anchor_filter":
                if a["EMPTY"] == 1:
                    # `||host^`: some anchored occurrence ends exactly where the request hostname ends
                    m = re.match(r"^std::iter::Iterator::any\(filters::network_matchers::anchored_hostname_ends\(.*\), closure\[([^\]]+)\]\(", val)
                    c = F.fns.get(m.group(1)) if m else None
                    t_ = c.expr_local(0) if c else ""
                    if not c or not re.match(r"^\(arg:end Eq std::string::String::len\(.*\.hostname\)\)$", t_) or not _no_negation(c):
                        bad.append(("no pattern: an anchored occurrence must end the request hostname", (t_ or val)[:80]))
                elif a.get("ANCH") == 0:
                    if val != "false":
                        bad.append(("not anchored must be false", val[:60]))
                elif a.get("ANCH") == 1:
                    if not re.match(r"^filters::network_matchers::check_pattern_right_anchor_filter\(up:mask, up:filters, up:request\)$", val):
                        bad.append(("must delegate to the right-anchor leaf", val[:60]))
                else:
                    bad.append(("anchoring undecided", val[:60]))
                continue
            if a["EMPTY"] == 1:
                if not re.match(r"^filters::network_matchers::is_anchored_by_hostname\(arg:hostname, ", val):
                    bad.append(("no pattern: the verdict is whether the hostname is anchored", val[:70]))
                continue
            m = re.match(r"^std::iter::Iterator::any\((arg|up):filters, closure\[([^\]]+)\]\(", val)
            P = F.fns.get(m.group(2)) if m else None
            if P is None:
                bad.append(("result must be filters.any(test)", val[:60]))
                continue
            pv = P.expr_local(0)
            m2 = re.match(r"^std::iter::Iterator::any\(filters::network_matchers::offsets_after_hostname\(.*\), closure\[([^\]]+)\]\(", pv)
            Q = F.fns.get(m2.group(1)) if m2 else None
            if Q is None or len(_paths(P)) != 1:
                bad.append(("per-pattern test must be offsets_after_hostname(..).any(test at offset)", pv[:80]))
                continue
            kind, rx = HOSTED_TESTS[leaf]
            qv = Q.expr_local(0)
            sliced = r"core::str::get\((up:request_url|.*request_url.*), std::ops::RangeFrom::RangeFrom\{start: arg:offset\}\)"
            okq = len(_paths(Q)) == 1 and _no_negation(P, Q)
            if kind == "map_or":
                m3 = re.match(r"^std::option::Option::map_or\(" + sliced + r", false, closure\[([^\]]+)\]\(", qv)
                R = F.fns.get(m3.group(2)) if m3 else None
                okq = okq and R is not None and bool(re.match(rx, R.expr_local(0))) and _no_negation(R) and len(_paths(R)) == 1
            else:
                okq = okq and bool(re.match(r"^.*::eq\(" + sliced + r", std::option::Option::Some\{0: up:f\}\)$", qv))
            if not okq:
                bad.append(("test at an anchored offset", qv[:120]))
        run.ob("C02.1.leaves", f"{leaf}:table", not bad and len(rows) >= 2,
               f"{leaf} ({what}): decision table over (no pattern, anchored); with patterns, the un-negated test is applied "
               f"inside `any` over all patterns and `any` over all anchored offsets to the URL cut at that offset "
               f"({len(rows)} paths; problems: {bad[:2]})", site=D.loc(0), config=cfg)
    # regex hostname leaf
    f = F.fn(NM + "check_pattern_hostname_anchor_regex_filter")
    D = F.fns.get(f.name + "::{closure#0}")
    ok = D is not None
    why = ""
    if ok:
        run.touched(D)
        rows = _paths(D)
        m = re.match(r"^std::iter::Iterator::any\(filters::network_matchers::offsets_after_hostname\(.*\), closure\[([^\]]+)\]\(", rows[0][1]) if len(rows) == 1 and not rows[0][0] else None
        Q = F.fns.get(m.group(1)) if m else None
        qv = Q.expr_local(0) if Q else ""
        ok = Q is not None and len(_paths(Q)) == 1 and _no_negation(D, Q) and bool(re.match(
            r"^filters::network_matchers::check_pattern_regex_filter_at\(up:mask, std::clone::Clone::clone\(.*filters.*\), up:key, up:request, arg:start_from, up:regex_manager\)$", qv))
        why = qv[:120] or str(rows)[:120]
    outer = f.expr_local(0)
    ok = ok and bool(re.match(r"^std::option::Option::unwrap_or\(std::option::Option::map\(arg:hostname, closure\[.*\]\(.*\)\), false\)$", outer))
    run.ob("C02.1.leaves", "check_pattern_hostname_anchor_regex_filter:table", ok,
           "hostname + regex leaf: hostname.map(..).unwrap_or(false) of `any` over all anchored offsets of the regex leaf "
           f"applied, with ALL patterns, to the URL from that offset ({why})", site=f.loc(0), config=cfg)
    g = F.fn(NM + "check_pattern_regex_filter_at")
    m = g.calls(r"^regex_manager::RegexManager::matches$")
    hay = g.expr_operand(m[0][1]["args"][4]) if len(m) == 1 and len(m[0][1]["args"]) > 4 else ""
    run.ob("C02.1.leaves", "regex-leaf:url-from-offset",
           bool(re.match(r"^std::option::Option::unwrap_or_default\(core::str::get\(request::Request::get_url\(arg:request, .*match_case\(arg:mask\)\), std::ops::RangeFrom::RangeFrom\{start: arg:start_from\}\)\)$", hay)),
           f"the regex leaf matches against url[start_from..] of the URL selected by match_case ({hay[:140]})", site=g.loc(0), config=cfg)


def rule_anchoring_table(run, F, cfg):
    """anchored_hostname_ends as a truth table over its comparisons, checked against the label-boundary specification
    on all valuations. One step of the iterator, for the occurrence of the rule's hostname found at `start`
    (end = start + its length):
        left  = start == 0 || rule host starts with '.' || the request-host character BEFORE the occurrence is '.'
        right = end == len(request host) || wildcard || rule host ends with '.' || the character AFTER it is '.'
        left && right -> yield end; otherwise look at the next occurrence, which may overlap this one (from = start + 1)
      no (further) occurrence -> the iterator ends; an empty rule host yields the offset 0 exactly once."""
    import itertools
    g = F.fns.get(NM + "anchored_hostname_ends::{closure#0}")
    if g is None:
        run.ob("C02.4.label-boundary", "table:modelled", False, "anchored_hostname_ends::{closure#0} not found", status="UNDISCHARGED", config=cfg)
        return
    run.touched(g, F.fn(NM + "anchored_hostname_ends"))
    # the captured variables by what they were initialised with (their names are free): needle = the rule's hostname,
    # haystack = the request's hostname, from = 0, wildcard = the flag
    outer = F.fn(NM + "anchored_hostname_ends")
    cl = [outer.expr_operand(o) for b, i, st in outer.statements() if st["k"] == "assign" and st["rv"]["k"] == "agg"
          and st["rv"].get("agg") == "closure" for o in st["rv"]["ops"]]
    fh = r"^(core::str::as_bytes\()?(\(arg:filter_hostname, arg:hostname\)\.0|arg:filter_hostname)\)?$"
    hh = r"^(core::str::as_bytes\()?(\(arg:filter_hostname, arg:hostname\)\.1|arg:hostname)\)?$"
    role = {}
    for k, u in enumerate(sorted(g.upvars, key=lambda u: u[1][-1]["f"])):
        init = cl[k] if k < len(cl) else ""
        r_ = "needle" if re.match(fh, init) else "haystack" if re.match(hh, init) else "from" if init == "0" else \
            "wildcard_filter_hostname" if init == "arg:wildcard_filter_hostname" else None
        if r_:
            role[u[2]] = r_

    def canon(e):
        return re.sub(r"up:(\w+)", lambda m: "up:" + role.get(m.group(1), "?" + m.group(1)), e)
    START = r"\(up:from AddWithOverflow memchr::memmem::find\(.*\)@Continue\.0\)\.0"
    START_S = r"\(up:from AddWithOverflow [^()]*@Continue\.0\)\.0"
    ATOM = [
        (r"^core::slice::is_empty\(up:needle\)$", "E"),
        (r"^\(up:from Eq 1\)$", "F1"),
        (r"^\(\(up:from AddWithOverflow core::slice::len\(up:needle\)\)\.0 Le core::slice::len\(up:haystack\)\)$", "FIT"),
        (r"^discr\(memchr::memmem::find\(core::slice::index::index\(up:haystack, std::ops::RangeFrom::RangeFrom\{start: up:from\}\), up:needle\)\)$", "NOTFOUND"),
        (r"^\(" + START + r" Eq 0\)$", "S0"),
        (r"^\(up:needle\[0\] Eq 46\)$", "NS"),
        (r"^(φ\{)?\(up:haystack\[\((" + START + "|" + START_S + r") SubWithOverflow 1\)\.0\] Eq 46\)( \| true\})?$", "HP"),
        (r"^\(\(" + START + r" AddWithOverflow core::slice::len\(up:needle\)\)\.0 Eq core::slice::len\(up:haystack\)\)$", "EEND"),
        (r"^up:wildcard_filter_hostname$", "W"),
        (r"^\(up:needle\[\(core::slice::len\(up:needle\) SubWithOverflow 1\)\.0\] Eq 46\)$", "NE"),
        (r"^(φ\{)?\(up:haystack\[\((" + START + "|" + START_S + r") AddWithOverflow core::slice::len\(up:needle\)\)\.0\] Eq 46\)( \| true\})?$", "HN"),
    ]

    def atom(e):
        e = canon(e)
        for rx, nme in ATOM:
            if re.match(rx, e):
                return nme
        return None

    rows, unknown = [], set()
    for conds, val in _paths(g):
        if val == "<diverge>":
            continue
        a = {}
        for e, v in conds:
            k = atom(e)
            if k is None:
                unknown.add(e[:140])
            elif v in (0, 1):
                a[k] = v
            else:
                unknown.add(f"{e[:100]} = {v}")
        if val == "<backedge:8>" or val.startswith("<backedge"):
            out = "next"
        elif val == "std::option::Option::None{}" or "FromResidual" in val:
            out = "end"
        elif val == "std::option::Option::Some{0: 0}":
            out = "zero"
        elif val.startswith("std::option::Option::Some{0: "):
            out = "yield"
        else:
            unknown.add("value: " + val[:100])
            out = "?"
        rows.append((a, out))
    okp = not unknown and len(rows) >= 12
    run.ob("C02.4.label-boundary", "table:modelled", okp,
           f"every comparison of anchored_hostname_ends is one of the modelled atoms ({len(rows)} paths; unmodelled: "
           f"{sorted(unknown)[:2]})", status=None if okp else "UNDISCHARGED", site=g.loc(0), config=cfg)
    bad, n = [], 0
    if okp:
        names = ["E", "F1", "FIT", "NOTFOUND", "S0", "NS", "HP", "EEND", "W", "NE", "HN"]
        for bits in itertools.product((0, 1), repeat=len(names)):
            v = dict(zip(names, bits))
            n += 1
            if v["E"]:
                want = "zero" if v["F1"] else "end"
            elif not v["FIT"] or v["NOTFOUND"]:
                want = "end"
            else:
                left = v["S0"] or v["NS"] or v["HP"]
                right = v["EEND"] or v["W"] or v["NE"] or v["HN"]
                want = "yield" if (left and right) else "next"
            got = {out for a, out in rows if all(v[k] == x for k, x in a.items())}
            if got != {want}:
                bad.append(({k: x for k, x in v.items() if x}, sorted(got), want))
                if len(bad) > 3:
                    break
    run.ob("C02.4.label-boundary", "table", okp and not bad,
           f"one step of anchored_hostname_ends equals the label-boundary specification on all {n} valuations of its "
           f"comparisons (first difference: {bad[:1]})", site=g.loc(0), config=cfg)
    # what is yielded, and how the search advances
    ys = [canon(g.expr_operand(st["rv"]["ops"][0])) for b, i, st in g.statements()
          if st["k"] == "assign" and st["rv"]["k"] == "agg" and st["rv"].get("variant") == "Some" and st["rv"]["ops"]]
    y_ok = sorted(set(re.sub(START, "START", y) for y in ys)) == ["(START AddWithOverflow core::slice::len(up:needle)).0", "0"]
    run.ob("C02.4.label-boundary", "yields-end-of-occurrence", y_ok,
           f"the offset yielded is the end of the occurrence (start + rule host length), 0 for the empty rule host ({[y[:90] for y in ys]})",
           site=g.loc(0), config=cfg)
    adv = [canon(g.expr_rvalue(st["rv"])) for b, i, st in g.statements()
           if st["k"] == "assign" and st["pl"]["l"] == 1 and st["pl"]["p"] and canon(g.expr_place(st["pl"])) == "up:from"]
    a_ok = sorted(set(re.sub(START, "START", x) for x in adv)) == ["(START AddWithOverflow 1).0", "(up:from AddWithOverflow 1).0"]
    run.ob("C02.4.label-boundary", "advances-by-one", a_ok,
           "after an occurrence at `start` the search resumes at start + 1, so that an overlapping occurrence (`a.a` in "
           f"`ba.a.a`) is not skipped ({[x[:80] for x in adv]})", site=g.loc(0), config=cfg)
    # (str::as_bytes is a transparent cast in MIR; `let (needle, haystack) = (a, b)` renders as the tuple's fields)
    c_ok = len(cl) == 4 and sorted(role.values()) == ["from", "haystack", "needle", "wildcard_filter_hostname"]
    run.ob("C02.4.label-boundary", "captures", c_ok,
           f"the step closure searches the rule's hostname (needle) in the request's hostname (haystack) from offset 0 ({cl})",
           site=outer.loc(0), config=cfg)
    ia = F.fn(NM + "is_anchored_by_hostname")
    e = ia.expr_local(0)
    run.ob("C02.4.label-boundary", "is_anchored:any-occurrence",
           e == "std::option::Option::is_some(<std::iter::FromFn<F> as std::iter::Iterator>::next(filters::network_matchers::anchored_hostname_ends(arg:filter_hostname, arg:hostname, arg:wildcard_filter_hostname)))",
           f"is_anchored_by_hostname is `anchored_hostname_ends(..).next().is_some()` ({e[:120]})", site=ia.loc(0), config=cfg)
    # from hostname offsets to URL offsets
    o = F.fn(NM + "offsets_after_hostname")
    run.touched(o, ia)
    ov = o.expr_local(0)
    from analysis.guards import conditional_defs as _cd
    hs = [l for l, nme in o.varnames.items() if nme == "host_start"]
    defs = sorted((val, tuple(sorted(c.items()))) for kind, b, val, c, _ in _cd(o, hs[0])) if hs else []
    want_defs = sorted([("0", (("core::str::is_empty(arg:filter_hostname)", 1),)),
                        ("filters::network_matchers::hostname_offset(arg:url, arg:request.hostname)", (("core::str::is_empty(arg:filter_hostname)", 0),))])
    m = re.match(r"^std::iter::Iterator::map\(filters::network_matchers::anchored_hostname_ends\(arg:filter_hostname, arg:request\.hostname, arg:wildcard_filter_hostname\), closure\[([^\]]+)\]\(", ov)
    K = F.fns.get(m.group(1)) if m else None
    kv = K.expr_local(0) if K else ""
    run.ob("C02.4.label-boundary", "url-offsets", defs == want_defs and K is not None and kv == "(up:host_start AddWithOverflow arg:end).0",
           "offsets_after_hostname maps every anchored end to host_start + end, where host_start is the offset of the request's "
           f"hostname in the URL (0 for an empty rule hostname: the pattern is then anchored at the start of the URL) ({kv}; {defs})",
           site=o.loc(0), config=cfg)
    h = F.fn(NM + "hostname_offset")
    run.touched(h)
    rets = sorted((val, len(c)) for kind, b, val, c, _ in _cd(h, 0))
    found = [v for v, k in rets if k > 0]
    fallback = [v for v, k in rets if k == 0]
    in_auth = len(found) == 1 and bool(re.match(
        r"^\(std::option::Option::map_or\(memchr::memmem::find\(arg:url, b\"://\"\), 0, closure\[[^\]]+\]\(\)\) AddWithOverflow "
        r"std::option::Option::map_or\(memchr::memrchr\(64, ", found[0]))
    conds_found = [c for kind, b, val, c, _ in _cd(h, 0) if c]
    cmp_ok = len(conds_found) == 1 and any("eq_ignore_ascii_case(" in k and k.endswith(", arg:hostname)") and v == 1 for k, v in conds_found[0].items())
    plus3 = [c.expr_local(0) for c in F.closures_of(h.name)]
    stops = [sorted(v for v, _ in t["targets"]) for c in F.closures_of(h.name) for b2 in sorted(c.normal_blocks())
             for t in [c.blocks[b2]["t"]] if t["k"] == "switch" and t.get("dty") == "u8"]
    run.ob("C02.4.label-boundary", "hostname-position-in-url",
           in_auth and cmp_ok and fallback == ["std::option::Option::unwrap_or(memchr::memmem::find(arg:url, arg:hostname), core::slice::len(arg:url))"]
           and "(arg:i AddWithOverflow 3).0" in plus3 and [35, 47, 63] in stops,
           "hostname_offset looks for the request's hostname where the URL has it: after `://` (+3), after the last `@` of the "
           "authority, which ends at the first `/`, `?` or `#`; it answers authority_start + host_start only if the bytes "
           "there are the hostname (ASCII case-insensitively), and falls back to a text search otherwise "
           f"({[f_[:70] for f_ in found]}; {fallback}; closures {plus3}; stops {stops})", site=h.loc(0), config=cfg)


def rule_regex_builder(run, F, cfg):
    """the compiled regexes are byte-oriented: with Unicode classes `\\w` would cover non-ASCII letters and the
    separator class `[^\\w\\d._%-]` would stop treating them as separators (ABP separators are ASCII-defined)"""
    cr = F.fn("regex_manager::compile_regex")
    flags = {}
    for b, t in cr.calls(r"RegexBuilder::(unicode|case_insensitive|multi_line|dot_matches_new_line)$|RegexSetBuilder::(unicode|case_insensitive)$"):
        flags.setdefault(strip_generics(t["callee"]).rsplit("::", 2)[-2] + "::" + strip_generics(t["callee"]).rsplit("::", 1)[-1], []).append(cr.expr_operand(t["args"][1]))
    # a lone pattern may be compiled as one regex; two or more are compiled TOGETHER (a set over the whole vector):
    # the single-regex builder in compile_regex itself runs only where the vector holds exactly one pattern
    lone = []
    for b, t in cr.calls(r"^regex::bytes::RegexBuilder::new$"):
        c = dominating_conditions(cr, b, render=cr.vexpr_operand)
        lone.append((cr.loc(b), any(re.match(r"^\(std::vec::Vec::len\(\$\w+\) Eq 1\)$", k) and v == 1 for k, v in c.items())))
    sets = [g.vexpr_operand(t["args"][0]) for g in [cr] + F.closures_of(cr.name) for b, t in g.calls(r"^regex::bytes::RegexSetBuilder::new$")]
    run.ob("C02.3.regex-translation", "one-regex-only-for-one-pattern", bool(lone) and all(o for _, o in lone) and len(sets) >= 1,
           f"compile_regex builds a single regex only under `patterns.len() == 1` ({lone}); otherwise a RegexSet over {sets}",
           site=lone[0][0] if lone else cr.loc(0), config=cfg,
           detail="taking patterns[0] for a fused filter silently drops all its other alternatives")
    uni = [v for k, vs in flags.items() if k.endswith("::unicode") for v in vs]
    run.ob("C02.3.regex-translation", "builders-not-unicode", bool(uni) and all(v == "false" for v in uni),
           f"every regex builder in compile_regex has unicode(false) ({flags})", site=cr.loc(0), config=cfg)
    # every builder is configured like its siblings: the regex of a lone pattern, the set of a fused filter and the set
    # rebuilt from the valid members after one failed to compile must match alike. The configuration is read from
    # the receiver chain of each `build()` itself (a sibling's `.size_limit(..)` that merely dominates it does not count)
    chains = []
    for g in [cr] + F.closures_of(cr.name):
        for b, t in g.calls(r"regex::bytes::(RegexBuilder|RegexSetBuilder)::build$"):
            recv = g.expr_operand(t["args"][0])
            kind = "set" if "RegexSetBuilder::build" in t["callee"] else "one"
            cfgd = {}
            for m_ in re.finditer(r"Regex(?:Set)?Builder::(unicode|case_insensitive|size_limit|multi_line|dot_matches_new_line|swap_greed|ignore_whitespace|octal|crlf)\(", recv):
                cfgd[m_.group(1)] = True
            # the argument of each setter: find the call whose result feeds this chain
            args_ = {}
            for b2, t2 in g.calls(r"Regex(Set)?Builder::(unicode|case_insensitive|size_limit)$"):
                if g.dominates(b2, b) and g.expr_call(t2)[:60] in recv:
                    # (a closure sees the enclosing function's variable as a capture: same variable)
                    args_[strip_generics(t2["callee"]).rsplit("::", 1)[-1]] = re.sub(r"^(\$|up:)", "", g.vexpr_operand(t2["args"][1]))
            chains.append((kind, tuple(sorted(cfgd)), tuple(sorted(args_.items())), g.loc(b)))
    want_one = ("case_insensitive", "unicode")
    want_set = ("case_insensitive", "size_limit", "unicode")
    ok_c = {c[0] for c in chains} == {"one", "set"} and all((c[1] == want_one) if c[0] == "one" else (c[1] == want_set) for c in chains)
    ci = {dict(c[2]).get("case_insensitive") for c in chains}
    sl = {dict(c[2]).get("size_limit") for c in chains if c[0] == "set"}
    run.ob("C02.3.regex-translation", "builders-configured-alike", ok_c and len(ci) == 1 and None not in ci and len(sl) == 1 and None not in sl,
           f"every regex builder of compile_regex sets unicode and case_insensitive, every set builder size_limit as well, each "
           f"with the same argument as its siblings ({[(c[0], c[1], c[3]) for c in chains]}; case_insensitive args {ci}; size_limit args {sl})",
           site=cr.loc(0), config=cfg)


def rule_regex_case(run, F, cfg):
    """`/regex/` rules: the source text is never lower-cased (that would turn \\D, \\S, \\W, \\B into their
    opposites); without $match-case they are compiled case-insensitively instead (the URL they see is lower-cased)"""
    p = F.fn("filters::network::NetworkFilter::parse")
    low = []
    for b, t in p.calls(r"^std::str::to_ascii_lowercase$|^std::str::to_lowercase$"):
        arg = p.vexpr_operand(t["args"][0])
        prov = p.expr_operand(t["args"][0])
        if "pattern" not in prov and "filter" not in arg:
            continue
        c = {re.sub(r"filters::network::(_::|NetworkFilterMask::)?", "", k): v
             for k, v in dominating_conditions(p, b, render=p.vexpr_operand).items()}
        mask_conds = {k: v for k, v in c.items() if k.startswith("contains(")}
        low.append((mask_conds, p.loc(b)))
    ok_parse = bool(low) and all(any(re.search(r"IS_COMPLETE_REGEX\)$", k) and v == 0 for k, v in mc.items()) for mc, _ in low)
    cr = F.fn("regex_manager::compile_regex")
    ci = []
    for g in [cr] + F.closures_of(cr.name):
        nb = len(g.calls(r"Regex(Set)?Builder::new$"))
        flags = [g.expr_operand(t["args"][1]) for b, t in g.calls(r"Regex(Set)?Builder::case_insensitive$")]
        ci.append((nb, flags))
    ok_ci = all(nb == len(fl) for nb, fl in ci) and any(nb for nb, _ in ci)
    val = [fl for nb, fl in ci if nb and not any("up:" in x for x in fl)]
    ok_val = bool(val) and all(all(re.match(r"^φ\{(Not\(arg:match_case\) \| false|false \| Not\(arg:match_case\))\}$", x) for x in fl) for fl in val)
    guard_ok = False
    for b, i, st in cr.statements():
        if st["k"] == "assign" and st["rv"]["k"] == "unop" and "match_case" in cr.expr_rvalue(st["rv"]):
            guard_ok = has_cond(dominating_conditions(cr, b), r"^arg:is_complete_regex$", 1)
    run.ob("C02.3.regex-translation", "regex-text-case", ok_parse and ok_ci and ok_val and guard_ok,
           "NetworkFilter::parse lower-cases a pattern only when it is not a complete regex (and not $match-case); "
           "compile_regex builds every regex with case_insensitive(is_complete_regex && !match_case). Lower-casing the "
           f"source of `/ab\\D/` would make it `/ab\\d/` (lower-casing sites: {low}; builder flags: {ci})",
           site=low[0][1] if low else p.loc(0), config=cfg)


def rule_patterns_collected(run, F, cfg):
    """compile_regex compiles every pattern it is given: one push per loop iteration into the vector the builders
    receive, the unescaped source for /regex/ rules and the translated pattern otherwise (a missing push makes the
    vector empty, which compiles to match-all)"""
    cr = F.fn("regex_manager::compile_regex")
    rows = []
    for b, t in cr.calls(r"^std::vec::Vec::push$"):
        c = dominating_conditions(cr, b, render=cr.vexpr_operand)
        rows.append((c.get("$is_complete_regex"), any(k.startswith("discr(") and re.search(r"Iterator>?::next\(", k) and v == 1 for k, v in c.items())))
    run.ob("C02.3.regex-translation", "every-pattern-collected", sorted(rows, key=str) == [(0, True), (1, True)],
           f"inside the loop over the patterns there is exactly one push under is_complete_regex and one under its negation ({rows})",
           site=cr.loc(0), config=cfg)


def rule_pattern_split(run, F, cfg):
    """How a rule line is split: the option list after the last unescaped `$` is parsed and kept, and for `||` rules
    the hostname is the text before the first separator (regex shapes), before the first `/`, or the whole pattern"""
    a = F.fn("filters::abstract_network::AbstractNetworkFilter::parse")
    opts = []
    for b, i, st in a.statements():
        if st["k"] == "assign" and st["rv"]["k"] == "agg" and str(st["rv"].get("adt", "")).endswith("AbstractNetworkFilter"):
            d = dict(zip(st["rv"]["fields"], st["rv"]["ops"]))
            opts.append(a.expr_operand(d["options"]))
    ok_o = len(opts) == 1 and "filters::abstract_network::parse_filter_options(" in opts[0] and opts[0].startswith("φ{std::option::Option::None{} | std::option::Option::Some{")
    run.ob("C02.5.pattern-split", "options-parsed-and-kept", ok_o,
           f"AbstractNetworkFilter.options is None or Some(parse_filter_options(<text after `$`>)) ({[o[:90] for o in opts]})",
           site=a.loc(0), config=cfg)
    p = F.fn("filters::network::NetworkFilter::parse")
    sites = []
    for h in [p] + F.closures_of(p.name):
        for b, i, st in h.statements():
            if st["k"] == "assign" and re.search(r"(\$|up:)hostname$", h.vexpr_place(st["pl"])):
                v = h.expr_rvalue(st["rv"])
                if v.startswith("std::option::Option::Some{0: "):
                    sites.append(re.sub(r"filters::abstract_network::AbstractNetworkFilter::parse\(arg:line\)@Continue\.0\.pattern\.pattern|up:pattern", "PATTERN", v))
    shapes = sorted("slice-to" if re.match(r"^std::option::Option::Some\{0: <std::string::String as std::ops::Index<I>>::index\(PATTERN, std::ops::RangeTo::RangeTo\{end: ", s_)
                    else ("whole" if s_ == "std::option::Option::Some{0: PATTERN}" else "?" + s_[:60]) for s_ in sites)
    run.ob("C02.5.pattern-split", "hostname-of-double-pipe-rules", shapes == ["slice-to", "slice-to", "whole"],
           "`||` rules get their hostname in each of the three shapes: pattern[..first separator] (wildcard / `^` patterns), "
           f"pattern[..first '/'] and the whole pattern ({shapes})", site=p.loc(0), config=cfg)
