"""C02 — a rule's pattern matches a URL exactly when ABP pattern semantics say so (structure)."""
import itertools
import re

from analysis.facts import strip_generics
from analysis.guards import dominating_conditions, conditional_defs, has_cond
from analysis.pathinterp import enumerate_paths, path_calls, path_value
from . import C05
from . import C06 as _C06

EXPLANATION = (
    "String semantics over all (pattern, URL) pairs is a value-level question and is NOT decided. Decided "
    "clauses: (1) dispatch-table agreement — the decision table of check_pattern over {is_hostname_anchor, "
    "is_regex, is_complete_regex, is_left_anchor, is_right_anchor}, extracted by path enumeration on all 32 "
    "valuations, equals the reference (un-anchored -> substring leaf, |p -> prefix, p| -> suffix, |p| -> "
    "equality, ||h.. -> the five hostname leaves, regex flags -> regex leaf); each leaf applies the "
    "expected primitive (memmem::find / starts_with / ends_with / ==) to the URL selected by match_case, the "
    "hostname leaves test is_anchored_by_hostname before anything else and apply the remainder primitive to "
    "get_url_after_hostname(..), and every leaf consumes the WHOLE pattern iterator (Iterator::any or "
    "hand-off to the regex manager) — needed for fused rules; (2) flag-name agreement — make_regexp passes "
    "is_right_anchor / is_left_anchor / is_complete_regex predicates to the parameters of compile_regex of "
    "the same names; (3) regex translation constants — '*' -> '.*', '^' -> the separator class "
    "[^\\w\\d\\._%-] (or end of input when last), metacharacters escaped, `^` / `$` emitted exactly under "
    "the anchor flags, per pattern, all patterns handed to the RegexSet; the regex leaf returns only what "
    "RegexManager::matches returns (no shortcut path)."
)
NOT_DECIDED = ("Where in a string the primitives hit: e.g. the known handling of `||ads.net^` against host "
               "`xads.net.ads.net` (first occurrence only) is value-level and no rule here reports it.")

NM = "filters::network_matchers::"
H = "filters::network::NetworkFilterMaskHelper::"
PREDS = ["is_hostname_anchor", "is_regex", "is_complete_regex", "is_left_anchor", "is_right_anchor"]


def reference_leaf(v):
    if v["is_hostname_anchor"]:
        if v["is_regex"]:
            return "check_pattern_hostname_anchor_regex_filter"
        if v["is_right_anchor"] and v["is_left_anchor"]:
            return "check_pattern_hostname_left_right_anchor_filter"
        if v["is_right_anchor"]:
            return "check_pattern_hostname_right_anchor_filter"
        if v["is_left_anchor"]:
            return "check_pattern_hostname_left_anchor_filter"
        return "check_pattern_hostname_anchor_filter"
    if v["is_regex"] or v["is_complete_regex"]:
        return "check_pattern_regex_filter"
    if v["is_left_anchor"] and v["is_right_anchor"]:
        return "check_pattern_left_right_anchor_filter"
    if v["is_left_anchor"]:
        return "check_pattern_left_anchor_filter"
    if v["is_right_anchor"]:
        return "check_pattern_right_anchor_filter"
    return "check_pattern_plain_filter_filter"


def check(run):
    for cfg in run.cfgs("A", "D"):
        F = run.facts(cfg)
        run.guard("C02.1.dispatch", cfg, lambda: rule_dispatch(run, F, cfg))
        run.guard("C02.1.leaves", cfg, lambda: rule_leaves(run, F, cfg))
        run.guard("C02.1.leaves", cfg + "/table", lambda: rule_leaf_tables(run, F, cfg))
        run.guard("C02.4.label-boundary", cfg + "/table", lambda: rule_anchoring_table(run, F, cfg))
        from . import C03 as _C03
        b3 = run.borrow("C03", why="`|http://`-style patterns are turned into scheme restrictions, not matched as text")
        run.guard("C02.via.C03.6.scheme-patterns", cfg, lambda: _C03.rule_scheme_patterns(b3, F, cfg))
        run.guard("C02.3.regex-translation", cfg + "/builder", lambda: rule_regex_builder(run, F, cfg))
        run.guard("C02.3.regex-translation", cfg + "/case", lambda: rule_regex_case(run, F, cfg))
        run.guard("C02.3.regex-translation", cfg + "/collected", lambda: rule_patterns_collected(run, F, cfg))
        run.guard("C02.5.pattern-split", cfg, lambda: rule_pattern_split(run, F, cfg))
        from . import C12 as _C12
        b12 = run.borrow("C12", why="patterns (and `|` right anchors) are evaluated on the complete URL, fragment included")
        run.guard("C02.via.C12.7.whole-url", cfg, lambda: _C12.rule_whole_url(b12, F, cfg))
        run.guard("C02.2.flag-names", cfg, lambda: rule_flags(run, F, cfg))
        run.guard("C02.3.regex-translation", cfg, lambda: rule_translation(run, F, cfg))
        run.guard("C05.4.disjunction", cfg, lambda: C05.rule_disjunction(run, F, cfg))
        b = run.borrow("C06", why="a regex rebuilt after a discard must be the regex compiled the first time")
        run.guard("C02.via.C06.2.pure-cache", cfg, lambda: _C06.rule_pure_cache(b, F, cfg))
        from . import C01 as _C01
        b1 = run.borrow("C01", only=r"token-limit", why="a pattern can only be compared with the URLs whose tokens reach its bucket: the URL's first 127 tokens must all be looked up")
        run.guard("C02.via.C01.4.token-boundary", cfg, lambda: _C01.rule_boundary(b1, F, cfg))
    run.guard("C02.6.regex-literal-classification", "A/D", lambda: rule_regex_literal_agreement(run))


def _classification_sites(F):
    """(conditions, loc) of every place where NetworkFilter::parse classifies a rule as a complete regex (sets
    IS_COMPLETE_REGEX) or rejects it for lack of regex support (FullRegexUnsupported)"""
    from analysis.guards import dominating_conditions
    p = F.fn("filters::network::NetworkFilter::parse")
    sets, errs = [], []
    for b, t in p.calls(r"::set$"):
        if "IS_COMPLETE_REGEX" in p.vexpr_call(t):
            sets.append((dict(dominating_conditions(p, b, render=p.vexpr_operand)), p.loc(b)))
    for b, i, st in p.statements():
        if st["k"] == "assign" and st["rv"]["k"] == "agg" and st["rv"].get("variant") == "FullRegexUnsupported":
            errs.append((dict(dominating_conditions(p, b, render=p.vexpr_operand)), p.loc(b)))
    return p, sets, errs


def rule_regex_literal_agreement(run):
    """Sibling agreement across build configurations: the lines a build without `full-regex-handling` rejects as
    unsupported regular expressions are exactly the lines the default build treats as complete regexes. A build
    that rejects more drops ordinary patterns (`||example.com/ads/`); one that rejects less matches a `/re/` rule as
    if it were a literal."""
    from analysis.names import eq_mod_names
    rid = "C02.6.regex-literal-classification"
    if "A" not in run.cfgs("A", "D") or "D" not in run.cfgs("A", "D"):
        return
    FA, FD = run.facts("A"), run.facts("D")
    pa, sets_a, errs_a = _classification_sites(FA)
    pd, sets_d, errs_d = _classification_sites(FD)
    run.touched(pa, pd)
    run.ob(rid, "default-build:one-classification-site", len(sets_a) == 1 and not errs_a,
           f"configuration A sets IS_COMPLETE_REGEX at exactly one place and never returns FullRegexUnsupported "
           f"({len(sets_a)} / {len(errs_a)})", site=pa.loc(0), config="A")
    run.ob(rid, "no-regex-build:one-rejection-site", len(errs_d) == 1 and not sets_d,
           f"configuration D returns FullRegexUnsupported at exactly one place and never sets IS_COMPLETE_REGEX "
           f"({len(errs_d)} / {len(sets_d)})", site=pd.loc(0), config="D")
    if len(sets_a) == 1 and len(errs_d) == 1:
        ca, cd = sets_a[0][0], errs_d[0][0]
        same = ca == cd or eq_mod_names(sorted(cd.items()), sorted(ca.items()))
        run.ob(rid, "same-lines-in-both-builds", same,
               "the rejection in configuration D is reached under the same conditions as the complete-regex "
               f"classification in configuration A.  A: {sorted(ca.items())}  D: {sorted(cd.items())}",
               site=errs_d[0][1], config="D")


def rule_dispatch(run, F, cfg):
    f = F.fn(NM + "check_pattern")
    run.touched(f)
    rows = []
    for p in enumerate_paths(f):
        if p.end != "return":
            continue
        d = {}
        for e, v in p.conds:
            m = re.match(r"^" + re.escape(H) + r"(\w+)\(arg:mask\)$", e)
            if m:
                d[m.group(1)] = v
        leaf = [strip_generics(t["callee"]).split("::")[-1] for b, t in path_calls(f, p, r"^filters::network_matchers::check_pattern_")]
        rows.append((d, leaf))
    bad = []
    n = 0
    for bits in itertools.product((0, 1), repeat=len(PREDS)):
        v = dict(zip(PREDS, bits))
        n += 1
        hit = set()
        for d, leaf in rows:
            if all(v.get(k) == val for k, val in d.items()):
                hit.add(tuple(leaf))
        want = (reference_leaf(v),)
        if hit != {want}:
            bad.append(({k for k, x in v.items() if x}, sorted(hit), want))
    run.ob("C02.1.dispatch", "table", not bad,
           f"check_pattern dispatches each of the {n} flag valuations to the leaf the pattern semantics require"
           + (f"; first mismatch {bad[0][0]}: got {bad[0][1]}, expected {bad[0][2]}" if bad else ""),
           site=f.loc(0), config=cfg, detail="\n".join(str(b) for b in bad[:6]))
    unknown = set()
    for d, leaf in rows:
        unknown |= set(d) - set(PREDS)
    run.ob("C02.1.dispatch", "only-modelled-predicates", not unknown,
           f"the dispatch depends only on {PREDS} (also on: {sorted(unknown)})", config=cfg,
           status=None if not unknown else "UNDISCHARGED")


LEAVES = {
    "check_pattern_plain_filter_filter": ("substring", r"memchr::memmem::find$|str::contains$", False),
    "check_pattern_left_anchor_filter": ("prefix", r"str::starts_with$", False),
    "check_pattern_right_anchor_filter": ("suffix", r"str::ends_with$", False),
    "check_pattern_left_right_anchor_filter": ("equality", r"::eq$", False),
    "check_pattern_hostname_anchor_filter": ("substring after host", r"memchr::memmem::find$|str::contains$", True),
    "check_pattern_hostname_left_anchor_filter": ("prefix after host", r"str::starts_with$", True),
    "check_pattern_hostname_right_anchor_filter": ("suffix", r"str::ends_with$|::eq$", True),
    "check_pattern_hostname_left_right_anchor_filter": ("equality after host", r"::eq$", True),
}


def rule_leaves(run, F, cfg):
    for leaf, (what, prim, hosted) in LEAVES.items():
        f = F.fn(NM + leaf)
        cone = [F.fns[n] for n in F.cone([f.name]) if F.fns[n].file.endswith("network_matchers.rs") and n != f.name
                and (n.startswith(f.name + "::") or not re.search(r"::check_pattern_(plain|left|right|left_right)\w*_filter", n))
                and not n.endswith("is_anchored_by_hostname") and not n.endswith("get_url_after_hostname")]
        cl = cone
        run.touched(f, *cl)
        prims = [strip_generics(t["callee"]) for c in cl for b, t in c.calls(prim)]
        whole = any(c.calls(r"Iterator::any$") for c in [f] + cl)
        deleg = [strip_generics(t["callee"]).split("::")[-1] for c in [f] + cl
                 for b, t in c.calls(r"^filters::network_matchers::check_pattern_\w+_filter$")
                 if any("filters" in c.expr_operand(a) for a in t["args"])]
        if deleg and all(d in LEAVES for d in deleg):
            whole = True
            prims = prims or ["(delegates to " + ", ".join(deleg) + ")"]
        ok = bool(prims) and whole
        # the primitive must be applied with the pattern `f` as needle and a URL-derived haystack
        run.ob("C02.1.leaves", f"{leaf}:primitive", ok,
               f"{leaf} ({what}) tests each pattern with {sorted(set(prims)) or 'NO expected primitive'} inside "
               f"Iterator::any over the whole pattern iterator [{whole}]", site=f.loc(0), config=cfg)
        nxt = [1 for c in [f] + cl for b, t in c.calls(r"Iterator::next$") if "arg:filters" in c.expr_operand(t["args"][0])]
        run.ob("C02.1.leaves", f"{leaf}:whole-iterator", not nxt,
               f"{leaf} never looks at only the first pattern (no bare filters.next())", config=cfg)
        if hosted:
            anc = [(c, b) for c in cl for b, t in c.calls(r"^filters::network_matchers::is_anchored_by_hostname$")]
            ok_a = bool(anc)
            for c, b in anc:
                # every other call in that closure is dominated by is_anchored_by_hostname == true
                for b2, t2 in c.calls():
                    if b2 == b or strip_generics(t2["callee"]).endswith("contains") and False:
                        continue
                    cs = strip_generics(t2["callee"])
                    if re.search(r"Iterator::any$|get_url_after_hostname$|starts_with$|ends_with$|memmem::find$|::eq$", cs):
                        if not has_cond(dominating_conditions(c, b2), r"is_anchored_by_hostname\(", 1):
                            ok_a = False
            run.ob("C02.1.leaves", f"{leaf}:hostname-gate", ok_a,
                   f"{leaf} evaluates the remainder only after is_anchored_by_hostname(filter_hostname, "
                   f"request.hostname, ..) returned true", config=cfg)
            if leaf != "check_pattern_hostname_right_anchor_filter":
                inner = [c2 for n, c2 in F.fns.items() if n.startswith(f.name + "::{closure") and n.count("{closure") >= 2]
                uses_after = any("get_url_after_hostname" in c2.expr_call(t) or "up:url_after_hostname" in c2.expr_call(t)
                                 for c2 in cl for b, t in c2.calls(prim)) or \
                    any(c2.calls(r"get_url_after_hostname$") for c2 in cl)
                run.ob("C02.1.leaves", f"{leaf}:remainder-after-host", uses_after,
                       f"{leaf} applies its primitive to get_url_after_hostname(url, hostname), not to the whole URL",
                       config=cfg)
    # every hostname-anchoring test passes the rule's own hostname, the request hostname and the
    # wildcard flag of the mask
    n_a = 0
    for g in F.fns.values():
        if not g.file.endswith("network_matchers.rs"):
            continue
        for b, t in g.calls(r"^filters::network_matchers::is_anchored_by_hostname$"):
            n_a += 1
            a = [g.expr_operand(x) for x in t["args"]]
            ok = bool(re.search(r"request\.hostname$", a[1])) and \
                bool(re.search(r"::contains\((arg|up):mask, filters::network::NetworkFilterMask::IS_HOSTNAME_REGEX=", a[2]))
            run.ob("C02.1.leaves", f"is_anchored_by_hostname-args#{n_a}", ok,
                   f"is_anchored_by_hostname(filter_hostname, request.hostname, mask.contains(IS_HOSTNAME_REGEX)) — got "
                   f"({a[0][-30:]}, {a[1][-30:]}, {a[2][-70:]}); a `||host*rest` rule must be allowed to continue inside a label",
                   site=g.loc(b), config=cfg)
    run.floor("C02.1.leaves", f"is_anchored_by_hostname call sites [{cfg}]", n_a, 5)
    # regex leaf: only RegexManager::matches decides
    for leaf in ("check_pattern_regex_filter", "check_pattern_regex_filter_at"):
        f = F.fn(NM + leaf)
        run.touched(f)
        ret = f.expr_local(0)
        ok = ret.startswith("regex_manager::RegexManager::matches(") or ret.startswith(NM + "check_pattern_regex_filter_at(")
        run.ob("C02.1.leaves", f"{leaf}:only-regex-manager", ok and "φ{" not in ret.split("(")[0],
               f"{leaf} returns exactly what the regex manager returns for all patterns (no shortcut that inspects "
               f"only one occurrence / one pattern): `{ret[:100]}`", site=f.loc(0), config=cfg)
    g = F.fn(NM + "check_pattern_regex_filter_at")
    m = g.calls(r"^regex_manager::RegexManager::matches$")
    ok = len(m) == 1 and g.expr_operand(m[0][1]["args"][2]) == "arg:filters" and g.expr_operand(m[0][1]["args"][1]) == "arg:mask"
    run.ob("C02.1.leaves", "regex-leaf:all-filters", ok, "the regex leaf hands mask and ALL patterns to RegexManager::matches", config=cfg)
    gu = [f2 for n, f2 in F.fns.items() if n.endswith("request::Request::get_url")]
    if gu:
        e = gu[0].expr_local(0)
        run.ob("C02.1.leaves", "get_url:case", "url_lower_cased" in e and "arg:self.url" in e,
               f"Request::get_url selects the original URL under match_case and the lower-cased URL otherwise ({e[:80]})",
               config=cfg)


def rule_flags(run, F, cfg):
    mk = F.fn("regex_manager::make_regexp")
    cr = F.fn("regex_manager::compile_regex")
    run.touched(mk, cr)
    names = {v["arg"]: v["name"] for v in cr.mir.get("vars", []) if v.get("arg")}
    cs = mk.calls(r"^regex_manager::compile_regex$")
    ok = len(cs) == 1
    detail = []
    if ok:
        for k, a in enumerate(cs[0][1]["args"], start=1):
            pname = names.get(k, "?")
            e = mk.expr_operand(a)
            detail.append(f"{pname} <- {e[-60:]}")
            if pname.startswith("is_") or pname == "match_case":
                if not re.search(re.escape(H) + pname + r"\(arg:mask\)$", e):
                    ok = False
    run.ob("C02.2.flag-names", "make_regexp->compile_regex", ok,
           "each boolean parameter is_X of compile_regex is fed by mask.is_X() of the same name "
           "(a swap of left / right compiles and anchors the wrong end)", site=mk.loc(0), config=cfg,
           detail="; ".join(detail))


def _lit(F, name):
    for c in F.fns_matching(r"^regex_manager::compile_regex::" + name + r"::\{closure#0\}$"):
        for b, t in c.calls(r"^regex::Regex::new$"):
            return c.expr_operand(t["args"][0])
    return None


def rule_translation(run, F, cfg):
    cr = F.fn("regex_manager::compile_regex")
    want_lits = {"SPECIAL_RE": '"([\\\\|\\\\.\\\\$\\\\+\\\\?\\\\{\\\\}\\\\(\\\\)\\\\[\\\\]])"', "WILDCARD_RE": '"\\\\*"',
                 "ANCHOR_RE": '"\\\\^(.)"', "ANCHOR_RE_EOL": '"\\\\^$"'}
    for name, want in want_lits.items():
        got = _lit(F, name)
        run.ob("C02.3.regex-translation", f"literal:{name}", got == want,
               f"{name} = {got} (expected {want})", config=cfg)
    reps = {}
    for b, t in cr.calls(r"^regex::Regex::replace_all$"):
        st = re.search(r"static:regex_manager::compile_regex::(\w+)", cr.expr_operand(t["args"][0]))
        if st:
            reps[st.group(1)] = cr.expr_operand(t["args"][2])
    want = {"SPECIAL_RE": '"\\\\$1"', "WILDCARD_RE": '".*"', "ANCHOR_RE": '"(?:[^\\\\w\\\\d\\\\._%-])$1"',
            "ANCHOR_RE_EOL": '"(?:[^\\\\w\\\\d\\\\._%-]|$)"'}
    for k, w in want.items():
        run.ob("C02.3.regex-translation", f"replacement:{k}", reps.get(k) == w,
               f"{k} is replaced by {reps.get(k)} (expected {w}: '*' -> '.*', '^' -> any character but letter, "
               f"digit, _ - . %, or end of input when last; metacharacters escaped)", config=cfg)
    # the replacements are chained in this order on the same string
    order = [re.search(r"compile_regex::(\w+)", cr.expr_operand(t["args"][0])).group(1) for b, t in cr.calls(r"^regex::Regex::replace_all$")
             if re.search(r"compile_regex::(\w+)", cr.expr_operand(t["args"][0]))]
    run.ob("C02.3.regex-translation", "replacement-order", order == ["SPECIAL_RE", "WILDCARD_RE", "ANCHOR_RE", "ANCHOR_RE_EOL"],
           f"escape, then '*', then '^' (order {order})", config=cfg)
    # anchors under the flags
    for flag, sym in (("is_left_anchor", '"^"'), ("is_right_anchor", '"$"')):
        okf = False
        for b, i, s in cr.statements():
            if s["k"] == "assign" and s["rv"]["k"] == "use" and s["rv"]["op"].get("k") == "const" and cr.expr_operand(s["rv"]["op"]) == sym:
                c = dominating_conditions(cr, b)
                okf = any(e == f"arg:{flag}" and v == 1 for e, v in c.items())
        run.ob("C02.3.regex-translation", f"anchor:{flag}", okf,
               f"{sym} is emitted exactly on the branch {flag} == true", config=cfg)
    # complete regex: inner text between the slashes is used verbatim (after unescaping \/ and \:)
    gets = cr.calls(r"str::get$")
    okc = any("Range{start: 1" in cr.expr_operand(t["args"][1]) and has_cond(dominating_conditions(cr, b), r"^arg:is_complete_regex$", 1) for b, t in gets)
    run.ob("C02.3.regex-translation", "complete-regex-strips-slashes", okc,
           "for /re/ rules the text between the first and last character is compiled as the regex", config=cfg)


# per-pattern test of each leaf: (haystack regex, shape regex of the closure's value). `f` is the pattern.
LEAF_TESTS = {
    "check_pattern_plain_filter_filter": r"^std::option::Option::is_some\(memchr::memmem::find\(.*\)\)$|^core::str::contains\(up:request_url, arg:f\)$",
    "check_pattern_left_anchor_filter": r"^core::str::starts_with\((…)?(up:request_url|var:request_url|_\d+), arg:f\)$",
    "check_pattern_right_anchor_filter": r"^core::str::ends_with\((…)?(up:request_url|var:request_url|_\d+), arg:f\)$",
    "check_pattern_left_right_anchor_filter": r"::eq\(.*arg:f\)$|^\(.* Eq .*\)$",
    "check_pattern_hostname_anchor_filter": r"^core::str::contains\(up:url_after_hostname, arg:f\)$|^std::option::Option::is_some\(memchr::memmem::find\(",
    "check_pattern_hostname_left_anchor_filter": r"^core::str::starts_with\(up:url_after_hostname, arg:f\)$",
    "check_pattern_hostname_left_right_anchor_filter": r"::eq\(up:url_after_hostname, arg:f\)$",
}


def rule_leaf_tables(run, F, cfg):
    """Each leaf matcher as a decision table over (anchored by hostname, pattern list empty): not anchored =>
    false; anchored and no pattern => true (hostname-right-anchor: request host ends with the rule host);
    otherwise `any` over ALL patterns of the un-negated per-pattern test."""
    from analysis.pathinterp import enumerate_paths, path_value
    for leaf, (what, prim, hosted) in LEAVES.items():
        f = F.fn(NM + leaf)
        if hosted:
            bodies = [c for n, c in F.fns.items() if n.startswith(f.name + "::{closure") and n.count("{closure") == 1
                      and c.calls(r"is_anchored_by_hostname$")]
            outer = f.expr_local(0)
            run.ob("C02.1.leaves", f"{leaf}:no-hostname-no-match",
                   bool(re.match(r"^std::option::Option::unwrap_or\(std::option::Option::map\(.*\), (false|true)\)$", outer)),
                   f"{leaf} is hostname.map(<decision closure>).unwrap_or(<const>) ({outer[-40:]})", config=cfg)
        else:
            bodies = [f]
        if len(bodies) != 1:
            run.ob("C02.1.leaves", f"{leaf}:table", False, "decision body not found", status="UNDISCHARGED", config=cfg)
            continue
        g = bodies[0]
        rows = []
        for p in enumerate_paths(g):
            if p.end != "return":
                continue
            a = {}
            extra = []
            for e, v in p.conds:
                if re.search(r"is_anchored_by_hostname\(", e):
                    a["ANCH"] = v
                elif re.match(r"^\(std::iter::ExactSizeIterator::len\((arg|up):filters\) Eq 0\)$", e):
                    a["EMPTY"] = v
                else:
                    extra.append((e, v))
            rows.append((a, extra, path_value(g, p, 0) or ""))
        bad = []
        for a, extra, val in rows:
            anch = a.get("ANCH", 1 if not hosted else None)
            if hosted and anch is None:
                bad.append(("anchoring undecided", val[:60]))
                continue
            if anch == 0:
                if val != "false" or extra:
                    bad.append(("not anchored must be false", val[:60]))
                continue
            if "EMPTY" not in a:
                # only the regex-free delegating leaves may skip the emptiness test
                bad.append(("emptiness undecided", val[:60]))
                continue
            if a["EMPTY"] == 1:
                if leaf == "check_pattern_hostname_right_anchor_filter":
                    okv = (val == "true" and len(extra) == 1 and extra[0][1] == 1 and
                           re.search(r"len\(up:request\.hostname\) Eq core::str::len\(arg:hostname\)\)$", extra[0][0])) or \
                          (re.match(r"^core::str::ends_with\(.*, arg:hostname\)$", val) and len(extra) == 1 and extra[0][1] == 0)
                    if not okv:
                        bad.append(("empty pattern: request host must end with the rule host", val[:60]))
                elif val != "true" or extra:
                    bad.append(("empty pattern must match", val[:60]))
                continue
            if extra:
                bad.append(("extra decision on the pattern path", extra[0][0][-60:]))
            if leaf == "check_pattern_hostname_right_anchor_filter":
                if not re.match(r"^filters::network_matchers::check_pattern_right_anchor_filter\(up:mask, up:filters, up:request\)$", val):
                    bad.append(("must delegate to the right-anchor leaf", val[:60]))
                continue
            m = re.match(r"^std::iter::Iterator::any\((arg|up):filters, closure\[([^\]]+)\]\(", val)
            if not m:
                bad.append(("result must be filters.any(test)", val[:60]))
                continue
            c = F.fns.get(m.group(2))
            test = c.expr_local(0) if c else ""
            nots = [1 for b, i, st in c.statements() if st["k"] == "assign" and st["rv"]["k"] == "unop"] if c else [1]
            if not re.search(LEAF_TESTS[leaf], test) or nots:
                bad.append(("per-pattern test", test[:80]))
        run.ob("C02.1.leaves", f"{leaf}:table", not bad and len(rows) >= 2,
               f"{leaf} ({what}): decision table over (anchored, no pattern) with an un-negated per-pattern test inside "
               f"`any` ({len(rows)} paths; problems: {bad[:2]})", site=g.loc(0), config=cfg)
    # regex hostname leaf
    f = F.fn(NM + "check_pattern_hostname_anchor_regex_filter")
    bodies = [c for n, c in F.fns.items() if n.startswith(f.name + "::{closure") and c.calls(r"is_anchored_by_hostname$")]
    ok = len(bodies) == 1
    if ok:
        g = bodies[0]
        vals = {}
        for p in enumerate_paths(g):
            if p.end == "return":
                an = [v for e, v in p.conds if "is_anchored_by_hostname(" in e]
                vals[an[0] if an else None] = path_value(g, p, 0) or ""
        ok = vals.get(0) == "false" and bool(re.match(
            r"^filters::network_matchers::check_pattern_regex_filter_at\(up:mask, up:filters, up:key, up:request, ", vals.get(1, "")))
        # the regex is applied to the URL after the first occurrence of the rule's hostname
        at = [g.vexpr_operand(t["args"][4]) for b, t in g.calls(r"check_pattern_regex_filter_at$")]
        ok = ok and len(at) == 1 and "memchr::memmem::find(" in at[0] and "unwrap_or_default(" in at[0] \
            and bool(re.search(r"AddWithOverflow core::str::len\((\$|arg:)hostname\)\)\.0$", at[0]))
    run.ob("C02.1.leaves", "check_pattern_hostname_anchor_regex_filter:table", ok,
           "hostname + regex leaf: false unless anchored; otherwise the regex leaf applied to the URL from "
           "find(url, hostname) + hostname.len()", site=f.loc(0), config=cfg)


def rule_anchoring_table(run, F, cfg):
    """is_anchored_by_hostname as a truth table over its comparisons, checked against the label-boundary
    specification on all valuations:
        empty rule host -> true; longer than the request host -> false; same length -> equality;
        not found -> false; found at 0 -> right boundary; found at the end -> left boundary; else both,
      right boundary = wildcard || rule host ends with '.' || the request-host character AFTER THE MATCH is '.'
      left boundary  = rule host starts with '.' || the preceding request-host character is '.'"""
    from analysis.pathinterp import enumerate_paths, path_value
    import itertools
    g = F.fn(NM + "is_anchored_by_hostname")
    run.touched(g)
    ATOM = [
        (r"^\(core::str::len\(arg:filter_hostname\) Eq 0\)$", "L0"),
        (r"^\(core::str::len\(arg:filter_hostname\) Gt core::str::len\(arg:hostname\)\)$", "GT"),
        (r"^\(core::str::len\(arg:filter_hostname\) Eq core::str::len\(arg:hostname\)\)$", "EQ"),
        (r"^discr\(memchr::memmem::find\(arg:hostname, arg:filter_hostname\)\)$", "FOUND"),
        (r"^\(memchr::memmem::find\(arg:hostname, arg:filter_hostname\)@Some\.0 Eq 0\)$", "AT0"),
        (r"^\(memchr::memmem::find\(arg:hostname, arg:filter_hostname\)@Some\.0 Eq \(core::str::len\(arg:hostname\) SubWithOverflow core::str::len\(arg:filter_hostname\)\)\.0\)$", "ATEND"),
        (r"^arg:wildcard_filter_hostname$", "W"),
        (r"^core::str::ends_with\(arg:filter_hostname, '\.'\)$", "FE"),
        (r"^core::str::starts_with\(arg:filter_hostname, '\.'\)$", "FS"),
        (r"^core::str::starts_with\(core::str::traits::index\(arg:hostname, std::ops::RangeFrom::RangeFrom\{start: core::str::len\(arg:filter_hostname\)\}\), '\.'\)$", "HN"),
        (r"^core::str::starts_with\(core::str::traits::index\(arg:hostname, std::ops::RangeFrom::RangeFrom\{start: \(memchr::memmem::find\(arg:hostname, arg:filter_hostname\)@Some\.0 SubWithOverflow 1\)\.0\}\), '\.'\)$", "HP"),
        (r"^core::str::starts_with\(core::str::traits::index\(arg:hostname, std::ops::RangeFrom::RangeFrom\{start: \(memchr::memmem::find\(arg:hostname, arg:filter_hostname\)@Some\.0 AddWithOverflow core::str::len\(arg:filter_hostname\)\)\.0\}\), '\.'\)$", "HNI"),
    ]

    def atom(e):
        e = re.sub(r"<str as std::ops::Index<[^>]*>>::index|core::str::traits::<impl std::ops::Index<[^>]*> for str>::index", "core::str::traits::index", e)
        for rx, nme in ATOM:
            if re.match(rx, e):
                return nme
        return None

    rows = []
    unknown = set()
    for p in enumerate_paths(g):
        if p.end != "return":
            continue
        a = {}
        for e, v in p.conds:
            k = atom(e)
            if k is None:
                unknown.add(e[:110])
                continue
            a[k] = 1 if v == 1 else 0
        val = path_value(g, p, 0) or ""
        if val not in ("true", "false"):
            # the value is the last call on the path (starts_with(..) / eq(..)): render it in full
            last = None
            for b in p.blocks:
                t = g.blocks[b]["t"]
                if t["k"] == "call" and not t["dest"]["p"]:
                    last = t
            full = g.expr_call(last) if last else val
            k = atom(full)
            if k:
                val = "atom:" + k
            elif re.match(r"^std::cmp::impls::eq\(arg:filter_hostname, arg:hostname\)$|^core::str::traits::eq\(arg:filter_hostname, arg:hostname\)$", full):
                val = "atom:SAME"
            else:
                unknown.add("value: " + full[:110])
        rows.append((a, val))
    okp = not unknown and len(rows) >= 8
    run.ob("C02.4.label-boundary", "table:modelled", okp,
           f"every comparison of is_anchored_by_hostname is one of the modelled atoms ({len(rows)} paths; unmodelled: "
           f"{sorted(unknown)[:2]})", status=None if okp else "UNDISCHARGED", site=g.loc(0), config=cfg)
    bad = []
    n = 0
    if okp:
        # HN: the request host continues with '.' right after the rule host when the match is at offset 0
        # (hostname[len..]); HNI: the same test at the end of the match wherever it is (hostname[at + len..]).
        # At offset 0 the two coincide; for an infix match only HNI is the character after the match.
        names = ["L0", "GT", "EQ", "FOUND", "AT0", "ATEND", "W", "FE", "FS", "HN", "HNI", "HP", "SAME"]
        for bits in itertools.product((0, 1), repeat=len(names)):
            v = dict(zip(names, bits))
            # arithmetic consistency of the length atoms
            if v["L0"] and v["GT"]:
                continue
            if v["GT"] and v["EQ"]:
                continue
            n += 1
            if v["AT0"] and v["HN"] != v["HNI"]:
                continue        # same character at offset 0
            right = v["W"] or v["FE"] or v["HNI"]
            left = v["FS"] or v["HP"]
            if v["L0"]:
                want = 1
            elif v["GT"]:
                want = 0
            elif v["EQ"]:
                want = v["SAME"]
            elif not v["FOUND"]:
                want = 0
            elif v["AT0"]:
                want = int(bool(right))
            elif v["ATEND"]:
                want = int(bool(left))
            else:
                want = int(bool(right and left))
            got = set()
            for a, val in rows:
                if all(v[k] == x for k, x in a.items()):
                    got.add(v[val[5:]] if val.startswith("atom:") else (1 if val == "true" else 0))
            if got != {want}:
                bad.append(({k: x for k, x in v.items() if x}, sorted(got), want))
                if len(bad) > 3:
                    break
    run.ob("C02.4.label-boundary", "table", okp and not bad,
           f"is_anchored_by_hostname equals the label-boundary specification on all {n} consistent valuations of its "
           f"comparisons (first difference: {bad[:1]})", site=g.loc(0), config=cfg)


def rule_regex_builder(run, F, cfg):
    """the compiled regexes are byte-oriented: with Unicode classes `\\w` would cover non-ASCII letters and the
    separator class `[^\\w\\d._%-]` would stop treating them as separators (ABP separators are ASCII-defined)"""
    cr = F.fn("regex_manager::compile_regex")
    flags = {}
    for b, t in cr.calls(r"RegexBuilder::(unicode|case_insensitive|multi_line|dot_matches_new_line)$|RegexSetBuilder::(unicode|case_insensitive)$"):
        flags.setdefault(strip_generics(t["callee"]).rsplit("::", 2)[-2] + "::" + strip_generics(t["callee"]).rsplit("::", 1)[-1], []).append(cr.expr_operand(t["args"][1]))
    uni = [v for k, vs in flags.items() if k.endswith("::unicode") for v in vs]
    run.ob("C02.3.regex-translation", "builders-not-unicode", bool(uni) and all(v == "false" for v in uni),
           f"every regex builder in compile_regex has unicode(false) ({flags})", site=cr.loc(0), config=cfg)


def rule_regex_case(run, F, cfg):
    """`/regex/` rules: the source text is never lower-cased (that would turn \\D, \\S, \\W, \\B into their
    opposites); without $match-case they are compiled case-insensitively instead (the URL they see is lower-cased)"""
    p = F.fn("filters::network::NetworkFilter::parse")
    low = []
    for b, t in p.calls(r"^std::str::to_ascii_lowercase$|^std::str::to_lowercase$"):
        arg = p.vexpr_operand(t["args"][0])
        prov = p.expr_operand(t["args"][0])
        if "pattern" not in prov and "filter" not in arg:
            continue
        c = {re.sub(r"filters::network::(_::|NetworkFilterMask::)?", "", k): v
             for k, v in dominating_conditions(p, b, render=p.vexpr_operand).items()}
        mask_conds = {k: v for k, v in c.items() if k.startswith("contains(")}
        low.append((mask_conds, p.loc(b)))
    ok_parse = bool(low) and all(any(re.search(r"IS_COMPLETE_REGEX\)$", k) and v == 0 for k, v in mc.items()) for mc, _ in low)
    cr = F.fn("regex_manager::compile_regex")
    ci = []
    for g in [cr] + F.closures_of(cr.name):
        nb = len(g.calls(r"Regex(Set)?Builder::new$"))
        flags = [g.expr_operand(t["args"][1]) for b, t in g.calls(r"Regex(Set)?Builder::case_insensitive$")]
        ci.append((nb, flags))
    ok_ci = all(nb == len(fl) for nb, fl in ci) and any(nb for nb, _ in ci)
    val = [fl for nb, fl in ci if nb and not any("up:" in x for x in fl)]
    ok_val = bool(val) and all(all(re.match(r"^φ\{(Not\(arg:match_case\) \| false|false \| Not\(arg:match_case\))\}$", x) for x in fl) for fl in val)
    guard_ok = False
    for b, i, st in cr.statements():
        if st["k"] == "assign" and st["rv"]["k"] == "unop" and "match_case" in cr.expr_rvalue(st["rv"]):
            guard_ok = has_cond(dominating_conditions(cr, b), r"^arg:is_complete_regex$", 1)
    run.ob("C02.3.regex-translation", "regex-text-case", ok_parse and ok_ci and ok_val and guard_ok,
           "NetworkFilter::parse lower-cases a pattern only when it is not a complete regex (and not $match-case); "
           "compile_regex builds every regex with case_insensitive(is_complete_regex && !match_case). Lower-casing the "
           f"source of `/ab\\D/` would make it `/ab\\d/` (lower-casing sites: {low}; builder flags: {ci})",
           site=low[0][1] if low else p.loc(0), config=cfg)


def rule_patterns_collected(run, F, cfg):
    """compile_regex compiles every pattern it is given: one push per loop iteration into the vector the builders
    receive, the unescaped source for /regex/ rules and the translated pattern otherwise (a missing push makes the
    vector empty, which compiles to match-all)"""
    cr = F.fn("regex_manager::compile_regex")
    rows = []
    for b, t in cr.calls(r"^std::vec::Vec::push$"):
        c = dominating_conditions(cr, b, render=cr.vexpr_operand)
        rows.append((c.get("$is_complete_regex"), any(k.startswith("discr(") and re.search(r"Iterator>?::next\(", k) and v == 1 for k, v in c.items())))
    run.ob("C02.3.regex-translation", "every-pattern-collected", sorted(rows, key=str) == [(0, True), (1, True)],
           f"inside the loop over the patterns there is exactly one push under is_complete_regex and one under its negation ({rows})",
           site=cr.loc(0), config=cfg)


def rule_pattern_split(run, F, cfg):
    """How a rule line is split: the option list after the last unescaped `$` is parsed and kept, and for `||` rules
    the hostname is the text before the first separator (regex shapes), before the first `/`, or the whole pattern"""
    a = F.fn("filters::abstract_network::AbstractNetworkFilter::parse")
    opts = []
    for b, i, st in a.statements():
        if st["k"] == "assign" and st["rv"]["k"] == "agg" and str(st["rv"].get("adt", "")).endswith("AbstractNetworkFilter"):
            d = dict(zip(st["rv"]["fields"], st["rv"]["ops"]))
            opts.append(a.expr_operand(d["options"]))
    ok_o = len(opts) == 1 and "filters::abstract_network::parse_filter_options(" in opts[0] and opts[0].startswith("φ{std::option::Option::None{} | std::option::Option::Some{")
    run.ob("C02.5.pattern-split", "options-parsed-and-kept", ok_o,
           f"AbstractNetworkFilter.options is None or Some(parse_filter_options(<text after `$`>)) ({[o[:90] for o in opts]})",
           site=a.loc(0), config=cfg)
    p = F.fn("filters::network::NetworkFilter::parse")
    sites = []
    for h in [p] + F.closures_of(p.name):
        for b, i, st in h.statements():
            if st["k"] == "assign" and re.search(r"(\$|up:)hostname$", h.vexpr_place(st["pl"])):
                v = h.expr_rvalue(st["rv"])
                if v.startswith("std::option::Option::Some{0: "):
                    sites.append(re.sub(r"filters::abstract_network::AbstractNetworkFilter::parse\(arg:line\)@Continue\.0\.pattern\.pattern|up:pattern", "PATTERN", v))
    shapes = sorted("slice-to" if re.match(r"^std::option::Option::Some\{0: <std::string::String as std::ops::Index<I>>::index\(PATTERN, std::ops::RangeTo::RangeTo\{end: ", s_)
                    else ("whole" if s_ == "std::option::Option::Some{0: PATTERN}" else "?" + s_[:60]) for s_ in sites)
    run.ob("C02.5.pattern-split", "hostname-of-double-pipe-rules", shapes == ["slice-to", "slice-to", "whole"],
           "`||` rules get their hostname in each of the three shapes: pattern[..first separator] (wildcard / `^` patterns), "
           f"pattern[..first '/'] and the whole pattern ({shapes})", site=p.loc(0), config=cfg)
