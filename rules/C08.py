"""C08 — a deserialized engine behaves like the serialized one (field-level wire fidelity)."""
import re

from analysis.coverage import fields_read, aggregates
from analysis.guards import dominating_conditions, conditional_defs
from analysis.facts import strip_generics, AnchorMissing
from . import C07 as _C07

EXPLANATION = (
    "Field-level fidelity of the wire mapping, decided by field coverage (A6), provenance (A3) and "
    "table agreement (A5): (1) every field of Blocker, CosmeticFilterCache, HostnameRuleDb and "
    "NetworkFilter is read in the cone of the serializer's From impl and is assigned, in the "
    "aggregate the deserializer builds, from the wire struct (not Default / a constant); "
    "conditionally copied fields (modifier_option) are copied under every rule kind that sets them; "
    "transient fields (tags_enabled, regex_manager) are table rows with a reason; (2) the "
    "serializer and deserializer wire structs agree position by position (rmp-serde writes structs "
    "as arrays); (3) the six HostnameRuleDb bins and the six LegacySpecificFilterType variants are "
    "mapped by mutually inverse tables, accumulate (entry API, never insert/extend) and the "
    "procedural maps are restored from their dedicated trailing fields; (4) serialize emits "
    "MAGIC || 0 and deserialize dispatches on the same constants."
    ' Later additions: every wire struct writes each field on every path (no skip_field; read from the derived serialize), each `serialize_with` wrapper is resolved per field; neither legacy conversion iterates through a dropping / truncating adapter; the decoded blocker and cache are installed as decoded (C09.4).'
    ' Round 6: the engine<->wire conversions call no selecting adapter and the reader installs each cosmetic collection as a whole (no per-entry insert over a restored bin).'
)
NOT_DECIDED = ("Behavioural equality of two engines on concrete queries; that msgpack encodes each "
               "primitive faithfully (dependency).")

V0 = "data_format::v0::"
SER_FROM = "data_format::v0::<impl std::convert::From<(&'a blocker::Blocker, &'a cosmetic_filter_cache::CosmeticFilterCache)> for data_format::v0::SerializeFormat<'a>>::from"
DE_FROM = "data_format::v0::<impl std::convert::From<data_format::v0::DeserializeFormat> for (blocker::Blocker, cosmetic_filter_cache::CosmeticFilterCache)>::from"

TRANSIENT = {
    ("blocker::Blocker", "tags_enabled"): "the caller's enabled set is kept across deserialize (C07.4)",
    ("blocker::Blocker", "regex_manager"): "compiled-regex cache; rebuilt on demand (C06.2)",
}


def find_fn(F, rx):
    fs = F.fns_matching(rx)
    fs = [f for f in fs if "{closure" not in f.name]
    if len(fs) != 1:
        raise AnchorMissing(f"expected exactly one function matching /{rx}/, found {[f.name for f in fs][:4]}")
    return fs[0]


def check(run):
    for cfg in run.cfgs("A", "B"):
        F = run.facts(cfg)
        run.guard("C08.1.state-coverage", cfg, lambda: rule_coverage(run, F, cfg))
        run.guard("C08.1.state-coverage", cfg + "/whole-views", lambda: rule_whole_views(run, F, cfg))
        run.guard("C08.2.positional", cfg, lambda: rule_positional(run, F, cfg))
        run.guard("C08.3.legacy-bijection", cfg, lambda: rule_legacy(run, F, cfg))
        run.guard("C08.4.header", cfg, lambda: rule_header(run, F, cfg))
        run.guard("C08.1.state-coverage", cfg + "/engine", lambda: rule_engine_fields(run, F, cfg))
        b = run.borrow("C07", why="filters_tagged on the wire reflects the producer's tags; the consumer's are re-applied")
        run.guard("C08.via.C07.4.deserialize", cfg, lambda: _C07.rule_deserialize(b, F, cfg))
        run.guard("C08.5.helpers-lossless", cfg, lambda: rule_helpers(run, F, cfg))
        from . import C09 as _C09f
        b94 = run.borrow("C09", only=r"decoded-state-installed-verbatim|post-load-mutation", why="the loaded engine behaves like the one that was serialized only if everything decoded is installed as decoded (not overridden by the receiving engine's own settings)")
        run.guard("C08.via.C09.4.fixpoint", cfg, lambda: (_C09f.rule_fixpoint(b94, F, cfg), _C09f.rule_no_carry(b94, F, cfg)))


def rule_whole_views(run, F, cfg):
    """The two conversions between the engine and the wire structs move whole collections: the writer's fields are
    whole maps / lists of the engine (or the legacy re-encoding of all of them, C08.3), the reader installs each decoded
    collection as a whole. Neither selects elements (no filter / filter_map / take ..), and the reader does not patch
    single entries into a bin it has already restored."""
    from analysis.guards import selective_adapters
    ser = find_fn(F, r"^<data_format::v0::SerializeFormat<'a> as std::convert::From<\(&'a blocker::Blocker, &'a cosmetic_filter_cache::CosmeticFilterCache\)>>::from$")
    de = find_fn(F, r"impl std::convert::From<data_format::v0::DeserializeFormat> for \(blocker::Blocker, cosmetic_filter_cache::CosmeticFilterCache\)>::from$")
    fs = [g for n, g in F.fns.items() if any(n == r.name or n.startswith(r.name + "::") for r in (ser, de))]
    run.touched(*fs)
    sel = selective_adapters(*fs)
    run.ob("C08.1.state-coverage", "conversions-select-nothing", not sel and len(fs) >= 2,
           f"the engine<->wire conversions ({len(fs)} functions incl. closures) call no iterator adapter that drops, "
           f"truncates or picks elements; found: {sel[:3]}", site=sel[0][1] if sel else ser.loc(0), config=cfg,
           detail="a wire field that holds only part of a collection (e.g. just the entries with a non-default "
                  "attribute) cannot restore the collection")
    patches = []
    for g in fs:
        if not (g.name == de.name or g.name.startswith(de.name + "::")):
            continue
        for b, t in g.calls(r"^std::collections::(HashMap|HashSet)::(insert|remove|entry|retain|clear)$|Extend<.*>>::extend$|^cosmetic_filter_cache::HostnameFilterBin::<.*>?::?insert$|HostnameFilterBin::insert$"):
            tgt = g.vexpr_operand(t["args"][0])
            if re.search(r"specific_rules|simple_(class|id)_rules|complex_(class|id)_rules|misc_generic_selectors", tgt):
                patches.append((strip_generics(t["callee"]).split("::")[-1], tgt[-60:], g.loc(b)))
    run.ob("C08.1.state-coverage", "reader-installs-whole-collections", not patches,
           f"the reader assigns the cosmetic collections as wholes (no per-entry insert / remove on them after the legacy "
           f"table has been restored); per-entry updates: {patches[:3]}", site=patches[0][2] if patches else de.loc(0), config=cfg,
           detail="an insert under a key that the legacy restore has already filled replaces that bucket")


def rule_coverage(run, F, cfg):
    ser = find_fn(F, r"^<data_format::v0::SerializeFormat<'a> as std::convert::From<\(&'a blocker::Blocker, &'a cosmetic_filter_cache::CosmeticFilterCache\)>>::from$")
    de = find_fn(F, r"impl std::convert::From<data_format::v0::DeserializeFormat> for \(blocker::Blocker, cosmetic_filter_cache::CosmeticFilterCache\)>::from$")
    run.touched(ser, de)
    ser_cone = [F.fns[n] for n in F.cone([ser.name])]
    for adt in ("blocker::Blocker", "cosmetic_filter_cache::CosmeticFilterCache"):
        fields = [f["name"] for f in F.fields(adt)]
        read = set()
        for g in ser_cone:
            read |= fields_read(g, adt)
        # deserializer aggregate
        ag = aggregates(de, adt)
        if len(ag) != 1:
            run.ob("C08.1.state-coverage", f"{adt}:aggregate", False,
                   f"expected one `{adt}` aggregate in the deserializer, found {len(ag)}",
                   status="UNDISCHARGED", config=cfg)
            continue
        b, i, s = ag[0]
        ops = dict(zip(s["rv"]["fields"], s["rv"]["ops"]))
        for fld in fields:
            if (adt, fld) in TRANSIENT:
                run.ob("C08.1.state-coverage", f"{adt}.{fld}:transient", True,
                       f"`{adt}.{fld}` is transient: {TRANSIENT[(adt, fld)]}", config=cfg)
                continue
            run.ob("C08.1.state-coverage", f"{adt}.{fld}:serialized", fld in read,
                   f"`{adt}.{fld}` is read by the serializer (cone of From<(&Blocker,&CosmeticFilterCache)> "
                   f"for SerializeFormat)", site=ser.loc(0), config=cfg,
                   detail="a field the serializer never reads cannot survive a reload")
            e = de.expr_operand(ops[fld]) if fld in ops else "<missing>"
            from_wire = bool(re.search(r"arg:v\.", e))
            run.ob("C08.1.state-coverage", f"{adt}.{fld}:restored", from_wire,
                   f"`{adt}.{fld}` is restored from the wire struct; value: `{e[:140]}`",
                   site=de.loc(b, i), config=cfg,
                   detail="restoring a field from Default::default() / a constant loses it on reload")
    # HostnameRuleDb bins and their tuple components
    leg = find_fn(F, r"^<data_format::v0::LegacyHostnameRuleDb as std::convert::From<&cosmetic_filter_cache::HostnameRuleDb>>::from$")
    run.touched(leg)
    HR = "cosmetic_filter_cache::HostnameRuleDb"
    bins = [f["name"] for f in F.fields(HR)]
    rd = fields_read(leg, HR) | fields_read(ser, HR)
    for bn in bins:
        run.ob("C08.1.state-coverage", f"{HR}.{bn}:serialized", bn in rd,
               f"HostnameRuleDb.{bn} is read by the serializer", site=leg.loc(0), config=cfg)
    # tuple-valued bins: every component of the stored value must be read (PermissionMask!)
    for f in F.fields(HR):
        m = re.search(r"HostnameFilterBin<\((.*)\)>", f["ty"])
        if not m:
            continue
        ncomp = len([x for x in m.group(1).split(",") if x.strip()])
        # find the loop over this bin and which tuple components of the element are used
        used = set()
        for g in [leg] + F.closures_of(leg.name):
            for b, i, s in g.statements():
                if s["k"] != "assign":
                    continue
                e = g.expr_rvalue(s["rv"])
                for mm in re.finditer(r"arg:v\." + f["name"] + r"\.0.*?@Some\.0(?:\.1)?.*?\)@Some\.0\.(\d+)", e):
                    used.add(int(mm.group(1)))
            for b, t in g.calls():
                for a in t["args"]:
                    e = g.expr_operand(a)
                    for mm in re.finditer(r"arg:v\." + f["name"] + r"\.0\b.*?next\([^()]*\)@Some\.0\.(\d+)", e):
                        used.add(int(mm.group(1)))
        # simpler, robust: debug-info names of the destructured tuple; `_`-prefixed = unused
        names = [n for l, n in leg.varnames.items()]
        comp_unused = [n for n in names if n.startswith("_") and n not in ("_",)]
        ok = not comp_unused
        run.ob("C08.1.state-coverage", f"{HR}.{f['name']}:all-components", ok,
               f"HostnameRuleDb.{f['name']} stores {ncomp}-tuples ({m.group(1)}); every component must "
               f"be written to the wire; components bound to ignored names: {comp_unused}",
               site=leg.loc(0), config=cfg,
               detail="the PermissionMask stored with a scriptlet injection decides whether it may be "
                      "injected; dropping it loses permissioned scriptlets on reload")
    # NetworkFilter
    nser = find_fn(F, r"^<data_format::v0::NetworkFilterV0SerializeFmt<'a> as std::convert::From<&'a T>>::from$")
    nde = find_fn(F, r"impl std::convert::From<data_format::v0::NetworkFilterV0DeserializeFmt> for filters::network::NetworkFilter>::from$")
    run.touched(nser, nde)
    NF = "filters::network::NetworkFilter"
    nf_fields = [f["name"] for f in F.fields(NF)]
    nread = fields_read(nser, NF)
    for c in F.closures_of(nser.name):
        nread |= fields_read(c, NF)
    ag = aggregates(nde, NF)
    ops = dict(zip(ag[0][2]["rv"]["fields"], ag[0][2]["rv"]["ops"])) if ag else {}
    for fld in nf_fields:
        run.ob("C08.1.state-coverage", f"NetworkFilter.{fld}:serialized", fld in nread,
               f"NetworkFilter.{fld} is read by NetworkFilterV0SerializeFmt::from", site=nser.loc(0), config=cfg)
        e = nde.expr_operand(ops[fld]) if fld in ops else "<missing>"
        srcs = set(re.findall(r"arg:v\.(\w+)", e))
        allowed = {fld, fld.replace("_union", "")}
        if fld == "modifier_option":
            allowed = {"redirect", "csp"}
        ok = bool(srcs) and srcs <= allowed
        run.ob("C08.1.state-coverage", f"NetworkFilter.{fld}:restored", ok,
               f"NetworkFilter.{fld} is restored from the wire field(s) {sorted(allowed)}; "
               f"value `{e[:120]}` reads {sorted(srcs)}",
               site=nde.loc(0), config=cfg,
               detail="a field restored from a different wire field silently changes matching after reload")
    # modifier_option is copied conditionally: under which rule kinds?
    kinds = set()
    sag = aggregates(nser, V0 + "NetworkFilterV0SerializeFmt")
    if sag:
        sops = dict(zip(sag[0][2]["rv"]["fields"], sag[0][2]["rv"]["ops"]))
        for wf, op in sops.items():
            if op.get("k") not in ("copy", "move"):
                continue
            l = op["pl"]["l"]
            for kind, db, val, conds, _ in conditional_defs(nser, l):
                if "modifier_option" in val:
                    for e, v in conds.items():
                        mm = re.search(r"NetworkFilterMaskHelper::(is_\w+)\(", e)
                        if mm and v == 1:
                            kinds.add(mm.group(1))
                    if not conds:
                        kinds.add("*")
        # the same selection made by a local closure `|applies| if applies { &v.modifier_option } else { &None }` that is
        # called with the rule-kind predicate: the kind is the predicate passed for the parameter the closure tests
        for wf, op in sops.items():
            e = nser.expr_operand(op)
            mcl = re.match(r"^(.*\{closure#\d+\})\(closure\[", e)
            c_ = F.fns.get(mcl.group(1)) if mcl else None
            if c_ is None or c_.argc != 2:
                continue
            for kind, db, val, conds, _ in conditional_defs(c_, 0):
                if "modifier_option" in val and conds == {c_.local_name(2): 1}:
                    mk = re.search(r"\), \(filters::network::NetworkFilterMaskHelper::(is_\w+)\(", e)
                    if mk:
                        kinds.add(mk.group(1))
    # rule kinds that set modifier_option, from NetworkFilter::parse: the mask bit set in the same
    # arm as the assignment of modifier_option
    need = modifier_kinds(F)
    for k in sorted(need):
        ok = "*" in kinds or k in kinds
        run.ob("C08.1.state-coverage", f"NetworkFilter.modifier_option:copied-for:{k}", ok,
               f"NetworkFilter::parse stores a modifier_option for `{k}` rules; the serializer copies "
               f"modifier_option only under {sorted(kinds)}",
               site=nser.loc(0), config=cfg,
               detail="a rule kind whose modifier is not on the wire loses its parameter on reload")
    run.floor("C08.1.state-coverage", f"modifier kinds found in parse [{cfg}]", len(need), 3)


def modifier_kinds(F):
    p = F.fn("filters::network::NetworkFilter::parse")
    cl = [p] + F.closures_of(p.name)
    kinds = set()
    table = {"IS_REDIRECT": "is_redirect", "IS_CSP": "is_csp", "IS_REMOVEPARAM": "is_removeparam"}
    for g in cl:
        # blocks that assign modifier_option (upvar or local named modifier_option)
        for b, i, s in g.statements():
            if s["k"] != "assign":
                continue
            tgt = g.expr_place(s["pl"])
            if not re.search(r"(up|var):modifier_option$", tgt):
                continue
            # mask bits set in blocks with the same dominating enum-variant decision
            conds = dominating_conditions(g, b)
            for b2, t in g.calls(r"::(set|insert)$"):
                e = g.expr_operand(t["args"][1]) if len(t["args"]) > 1 else ""
                mm = re.search(r"NetworkFilterMask::(IS_\w+)=", e)
                if not mm or mm.group(1) not in table:
                    continue
                c2 = dominating_conditions(g, b2)
                disc = {k: v for k, v in conds.items() if k.startswith("discr(")}
                if disc and all(c2.get(k) == v for k, v in disc.items()):
                    kinds.add(table[mm.group(1)])
            for b2, i2, s2 in g.statements():
                if s2["k"] == "assign" and s2["rv"]["k"] == "binop" and "BitOr" in s2["rv"]["op"]:
                    e = g.expr_rvalue(s2["rv"], depth=1)
                    mm = re.search(r"NetworkFilterMask::(IS_\w+)=", e)
                    if mm and mm.group(1) in table:
                        c2 = dominating_conditions(g, b2)
                        disc = {k: v for k, v in conds.items() if k.startswith("discr(")}
                        if disc and all(c2.get(k) == v for k, v in disc.items()):
                            kinds.add(table[mm.group(1)])
    return kinds


def _norm_ty(t):
    t = re.sub(r"&'a ", "", t)
    t = t.replace("network_filter_list::NetworkFilterList", "LIST")
    t = t.replace("data_format::v0::NetworkFilterListV0DeserializeFmt", "LIST")
    t = t.replace("std::vec::Vec<filters::network::NetworkFilter>", "VECNF")
    t = t.replace("std::vec::Vec<data_format::v0::NetworkFilterV0DeserializeFmt>", "VECNF")
    return t


def rule_positional(run, F, cfg):
    pairs = [(V0 + "SerializeFormat", V0 + "DeserializeFormat"),
             (V0 + "NetworkFilterV0SerializeFmt", V0 + "NetworkFilterV0DeserializeFmt")]
    for sname, dname in pairs:
        sf = F.fields(sname)
        df = F.fields(dname)
        run.ob("C08.2.positional", f"{sname.split('::')[-1]}:arity", len(sf) == len(df),
               f"{sname} has {len(sf)} fields, {dname} has {len(df)} (rmp-serde writes structs as "
               f"arrays: the two must agree position by position)", config=cfg)
        for k, (a, b) in enumerate(zip(sf, df)):
            ok_n = a["name"].lstrip("_") == b["name"].lstrip("_")
            ok_t = _norm_ty(a["ty"]) == _norm_ty(b["ty"])
            run.ob("C08.2.positional", f"{sname.split('::')[-1]}[{k}]:{a['name']}", ok_n and ok_t,
                   f"position {k}: serializer `{a['name']}: {a['ty']}` vs deserializer "
                   f"`{b['name']}: {b['ty']}`", site=a.get("span", ""), config=cfg)
    # #[serde(default)] may only appear on a suffix of the deserializer's fields: read from the derived
    # visit_seq (missing element -> invalid_length(i) or Default::default())
    for dname in (V0 + "DeserializeFormat", V0 + "NetworkFilterV0DeserializeFmt"):
        vs = [f2 for n2, f2 in F.fns.items() if ("for " + dname + ">::deserialize::__Visitor") in n2 and n2.endswith("visit_seq")]
        nf = len(F.fields(dname))
        if len(vs) != 1:
            run.ob("C08.2.positional", f"{dname.split('::')[-1]}:defaults", False,
                   f"derived visit_seq of {dname} not found", status="UNDISCHARGED", config=cfg)
            continue
        v = vs[0]
        required = sorted(int(v.expr_operand(t["args"][0])) for b, t in v.calls(r"invalid_length$") if v.expr_operand(t["args"][0]).isdigit())
        defaulted = [i for i in range(nf) if i not in required]
        ok = defaulted == list(range(nf - len(defaulted), nf)) and len(v.calls(r"next_element$")) == nf
        run.ob("C08.2.positional", f"{dname.split('::')[-1]}:defaults-are-a-suffix", ok,
               f"{dname}: fields with #[serde(default)] (missing element tolerated) are positions {defaulted} of "
               f"{nf} — they must form a suffix, otherwise an old buffer shifts every later field", site=v.loc(0), config=cfg)
    # every struct of the wire graph is written field by field on every path: rmp-serde encodes a struct as an
    # array, so a field skipped on some path (`skip_serializing_if`) shifts every later field into the wrong slot
    from analysis import serde_shape as _S
    from . import C09 as _C09
    seen, work, n_w = set(), [V0 + "SerializeFormat", V0 + "NetworkFilterV0SerializeFmt"], 0
    work += [n for n in F.adts if n.endswith("NetworkFilterListV0SerializeFmt")]
    while work:
        ty = work.pop()
        if ty in seen:
            continue
        seen.add(ty)
        f = _C09.ser_impl(F, ty)
        if f is None:
            continue
        for b, t in f.calls(r"::(serialize_field|serialize_element|serialize_newtype_struct|serialize_newtype_variant|serialize_entry|serialize_some)$"):
            gen = t.get("gen", [])
            T = gen[-1] if gen else ""
            if "__SerializeWith" in T:
                w = _C09.with_impl(F, T, f.expr_operand(t["args"][2]) if len(t["args"]) > 2 else None)
                if w is not None:
                    for wb, wt in w.calls():
                        if wt.get("local"):
                            for g in wt.get("gen", []):
                                _C09._descend(F, g, work, run, cfg, ty)
            else:
                _C09._descend(F, T, work, run, cfg, ty)
        ss = _S.ser_struct(F, ty)
        if ss is None:
            continue
        run.touched(ss["fn"])
        n_w += 1
        cond = [k for k, b in ss["fields"] if k not in ss["unconditional"]]
        run.ob("C08.2.positional", f"{ty.split('::')[-1]}:written-unconditionally", not ss["skips"] and not cond,
               f"the derived Serialize of {ty} writes each of its {len(ss['fields'])} fields on every path "
               f"(skipped on some path: {sorted(set(ss['skips']) | set(cond))}); a positional (array) encoding has no "
               f"way to say which field is missing", site=ss["fn"].loc(0), config=cfg)
    run.floor("C08.2.positional", f"wire structs checked for unconditional writes [{cfg}]", n_w, 3)
    run.floor("C08.2.positional", f"wire fields compared [{cfg}]",
              sum(len(F.fields(s)) for s, _ in pairs), 32)
    # inner list struct
    inner_s = [n for n in F.adts if n.endswith("NetworkFilterListV0SerializeFmt")]
    inner_d = V0 + "NetworkFilterListV0DeserializeFmt"
    ok = len(inner_s) == 1 and [f["name"] for f in F.fields(inner_s[0])] == [f["name"] for f in F.fields(inner_d)]
    run.ob("C08.2.positional", "NetworkFilterList-inner", ok,
           "the inner list wire structs have the same field sequence (filter_map)", config=cfg)


def rule_legacy(run, F, cfg):
    leg = find_fn(F, r"^<data_format::v0::LegacyHostnameRuleDb as std::convert::From<&cosmetic_filter_cache::HostnameRuleDb>>::from$")
    back = find_fn(F, r"^<data_format::v0::LegacyHostnameRuleDb as std::convert::Into<cosmetic_filter_cache::HostnameRuleDb>>::into$")
    run.touched(leg, back)
    LT = V0 + "LegacySpecificFilterType"
    variants = [v["name"] for v in F.adt(LT)["variants"]]
    # forward: bin -> variants written. A "site" is anything in the conversion that pairs elements of one bin
    # with a LegacySpecificFilterType constructor: a closure created in the loop over that bin whose body
    # builds the variant, a direct aggregate, or a call that receives the variant's constructor function
    # (e.g. a local helper `push_rule(&mut db, hash, f, LegacySpecificFilterType::Hide)`).
    inner = [g for n, g in F.fns.items() if n.startswith(leg.name + "::")]
    run.touched(*inner)

    def closure_variants(cname, seen=()):
        c = F.fns.get(cname)
        vs = set()
        if c is None or cname in seen:
            return vs
        for cb, ci, cs in c.statements():
            if cs["k"] == "assign" and cs["rv"]["k"] == "agg":
                if cs["rv"].get("adt") == LT:
                    vs.add(cs["rv"]["variant"])
                elif cs["rv"]["agg"] == "closure":
                    vs |= closure_variants(cs["rv"]["closure"], seen + (cname,))
        for cb, ct in c.calls():
            for a in ct["args"]:
                mm = re.match(r"^fn:" + re.escape(LT) + r"::(\w+)$", c.expr_operand(a))
                if mm:
                    vs.add(mm.group(1))
        return vs

    def bins_of(ops):
        ups = " ".join(sorted(x for o in ops for x in leg.deep_origins(o)))
        return set(re.findall(r"arg:\w+\.(\w+)\.0", ups))

    fwd = {}
    for b, i, s in leg.statements():
        if s["k"] == "assign" and s["rv"]["k"] == "agg":
            if s["rv"]["agg"] == "closure":
                vs = closure_variants(s["rv"]["closure"])
            elif s["rv"].get("adt") == LT:
                vs = {s["rv"]["variant"]}
            else:
                continue
            for bn in bins_of(s["rv"]["ops"]) if vs else ():
                fwd.setdefault(bn, set()).update(vs)
    for b, t in leg.calls():
        vs = set()
        for a in t["args"]:
            mm = re.match(r"^fn:" + re.escape(LT) + r"::(\w+)$", leg.expr_operand(a))
            if mm:
                vs.add(mm.group(1))
        for bn in bins_of(t["args"]) if vs else ():
            fwd.setdefault(bn, set()).update(vs)
    # backward: variant -> bin inserted into
    bk = {}
    with back.sites():
        site2bin = {}
        for b, i, s in back.statements():
            if s["k"] == "assign" and s["rv"]["k"] == "agg" and s["rv"].get("adt") == "cosmetic_filter_cache::HostnameRuleDb":
                for fname, op in zip(s["rv"]["fields"], s["rv"]["ops"]):
                    e = back.expr_operand(op)
                    mm = re.search(r"default@(bb\d+)\(", e)
                    if mm:
                        site2bin[mm.group(1)] = fname
        for b, t in back.calls(r"HostnameFilterBin::(insert|insert_procedural_action_filter)$"):
            e = back.expr_operand(t["args"][0])
            mm = re.search(r"default@(bb\d+)\(", e)
            binname = site2bin.get(mm.group(1)) if mm else None
            conds = dominating_conditions(back, b)
            for ce, v in conds.items():
                if ce.startswith("discr(") and isinstance(v, int) and "Some.0" in ce and ".1" not in ce.split("@Some.0")[-1][:0]:
                    pass
            vi = [v for ce, v in conds.items() if re.match(r"^discr\(.*next.*\)$", ce) and isinstance(v, int)]
            # the innermost discriminant decision is the match on `rule`
            cands = [(ce, v) for ce, v in conds.items() if ce.startswith("discr(") and isinstance(v, int)]
            if cands and binname:
                ce, v = cands[-1]
                if v < len(variants):
                    bk[variants[v]] = binname
    run.floor("C08.3.legacy-bijection", f"bins mapped forward [{cfg}]", len(fwd), 6)
    run.floor("C08.3.legacy-bijection", f"variants mapped backward [{cfg}]", len(bk), 6)
    for binname, vs in sorted(fwd.items()):
        ok = len(vs) == 1 and bk.get(next(iter(vs))) == binname
        run.ob("C08.3.legacy-bijection", f"bin:{binname}", ok,
               f"HostnameRuleDb.{binname} is written as LegacySpecificFilterType::{sorted(vs)} and "
               f"that variant is restored into `{bk.get(next(iter(vs))) if vs else None}`",
               site=leg.loc(0), config=cfg,
               detail="the bin <-> variant tables of the two conversions must be mutually inverse")
    run.ob("C08.3.legacy-bijection", "all-variants", set(bk) == set(variants),
           f"every LegacySpecificFilterType variant is restored into a bin ({sorted(bk)})", config=cfg)
    # accumulate, never overwrite: writes to `db` only through the entry API (in the conversion, its closures
    # and its local helper functions)
    bad = []
    ents = []
    for g in [leg] + inner:
        for b, t in g.calls(r"^std::collections::HashMap::(insert|extend|remove|clear)$|Extend<.*>>::extend$"):
            bad.append((strip_generics(t["callee"]), g.loc(b)))
        ents += [(g, b) for b, t in g.calls(r"^std::collections::HashMap::entry$")]
    run.ob("C08.3.legacy-bijection", "accumulating-writes", not bad and len(ents) >= 1,
           f"LegacyHostnameRuleDb.db is filled only through the entry API "
           f"({len(ents)} sites); overwriting writes: {bad[:2]}", site=leg.loc(0), config=cfg,
           detail="HashMap::insert / extend replace the value of an existing key: rules of another bin "
                  "already collected for the same hostname hash would be dropped")
    # every element visited is stored: an entry() site is control-dependent only on the loop conditions and,
    # for the procedural bins, on the element being expressible in the legacy format (from_str Ok / as_css Some)
    odd = []
    for g, b in ents:
        for ce, v in dominating_conditions(g, b).items():
            if re.search(r"Iterator>::next\(", ce) and ce.startswith("discr("):
                continue
            if re.search(r"serde_json::from_str\(|::as_css\(|as_legacy_css\(", ce):
                continue
            odd.append((g.name.rsplit("::", 1)[-1], ce[:120], v, g.loc(b)))
    # a helper that stores must do so on every path to its exit
    for g in inner:
        if "{closure" in g.name.rsplit("::", 1)[-1]:
            continue
        st = [b for b, t in g.calls(r"^std::collections::HashMap::entry$")]
        if st and set(g.exits()) & set(g.reachable_from(0, avoid=set(st))):
            odd.append((g.name.rsplit("::", 1)[-1], "an exit is reachable without passing the store", "", g.loc(0)))
    run.ob("C08.3.legacy-bijection", "stores-unconditional", not odd,
           "every rule of a per-hostname bin is written to the legacy map: the store is control-dependent only "
           "on the loops and (procedural bins) on the element having a CSS form; value-dependent skips lose "
           f"entries such as the blanket scriptlet exception `#@#+js()`, stored as the empty string ({odd[:2]})",
           site=odd[0][3] if odd else leg.loc(0), config=cfg)
    # ... and every element is visited: the loops of both conversions run over the bins themselves, not over a
    # filtered / truncated view of them
    from analysis.guards import selective_adapters
    b_inner = [g for n, g in F.fns.items() if n.startswith(back.name + "::")]
    sel = selective_adapters(leg, back, *inner, *b_inner)
    # a predicate adapter whose predicate is exactly "has a legacy CSS form" is the iterator spelling of the accepted
    # control dependence of the procedural bins (see stores-unconditional)
    def _css_form_only(g, b, t):
        for a in t["args"]:
            e = g.expr_operand(a)
            for cname in re.findall(r"closure\[(.+?)\]\(", e):
                c = F.fns.get(cname)
                if c is not None:
                    callees = [strip_generics(ct["callee"]) for cb, ct in c.calls()]
                    if any(re.search(r"from_str$|as_css$|as_legacy_css$", x) for x in callees) and all(re.search(r"serde_json::from_str$|::as_css$|::as_legacy_css$|^std::result::Result::ok$|^std::option::Option::and_then$|Deref>::deref$|::as_str$|AsRef<.*>>::as_ref$", x) for x in callees):
                        return True
        return False
    kept = []
    for g in [leg, back] + inner + b_inner:
        for b, t in g.calls(r"^std::iter::Iterator::(filter|filter_map)$"):
            if not _css_form_only(g, b, t):
                kept.append((strip_generics(t["callee"]), g.loc(b)))
    sel = [x for x in sel if not re.search(r"::(filter|filter_map)$", x[0])] + kept
    run.ob("C08.3.legacy-bijection", "visits-every-element", not sel,
           "neither conversion between HostnameRuleDb and the legacy map iterates through an adapter that can drop or "
           f"truncate elements (filter, take_while, skip, ...): {sel[:3]}", site=sel[0][1] if sel else leg.loc(0), config=cfg,
           detail="an element-level filter on the way to the wire loses rules; the empty string in particular is the "
                  "blanket scriptlet exception `#@#+js()`")
    # load side: every entry of the legacy map is put back into a bin: an insert is control-dependent only on
    # the two loops and on the variant of the entry (never on its content)
    odd_r = []
    n_ins = 0
    for b, t in back.calls(r"HostnameFilterBin::(insert|insert_procedural_action_filter)$"):
        n_ins += 1
        for ce, v in dominating_conditions(back, b, render=back.vexpr_operand).items():
            if ce.startswith("discr(") and ("Iterator>::next(" in ce or re.match(r"^discr\(\$\w+\)$", ce)):
                continue
            odd_r.append((ce[:100], v, back.loc(b)))
    run.ob("C08.3.legacy-bijection", "restores-unconditional", n_ins >= 6 and not odd_r,
           "every entry read from the wire is inserted into its bin: the inserts of the legacy -> HostnameRuleDb conversion "
           "depend only on the loops and the entry's variant. A content-dependent skip (e.g. of empty strings) drops the "
           f"blanket scriptlet exception `#@#+js()`, which is stored as the empty string ({odd_r[:2]})",
           site=odd_r[0][2] if odd_r else back.loc(0), config=cfg)
    # procedural maps restored from the dedicated trailing fields
    de = find_fn(F, r"impl std::convert::From<data_format::v0::DeserializeFormat> for \(blocker::Blocker, cosmetic_filter_cache::CosmeticFilterCache\)>::from$")
    wrote = {}
    for b, i, s in de.statements():
        if s["k"] == "assign" and s["pl"]["p"] and isinstance(s["pl"]["p"][-1], dict) \
                and s["pl"]["p"][-1].get("adt") == "cosmetic_filter_cache::HostnameRuleDb":
            wrote[s["pl"]["p"][-1]["n"]] = de.expr_rvalue(s["rv"])
    for b, i, s in de.statements():
        # the same written as `HostnameRuleDb { procedural_action: .., ..restored }`
        if s["k"] == "assign" and s["rv"]["k"] == "agg" and s["rv"].get("adt") == "cosmetic_filter_cache::HostnameRuleDb":
            for n_, o_ in zip(s["rv"]["fields"], s["rv"]["ops"]):
                wrote.setdefault(n_, de.expr_operand(o_))
    for fld in ("procedural_action", "procedural_action_exception"):
        e = wrote.get(fld, "")
        run.ob("C08.3.legacy-bijection", f"restore:{fld}", f"arg:v.{fld}" in e,
               f"specific_rules.{fld} is restored from the dedicated wire field `{fld}` (value `{e[:100]}`)",
               site=de.loc(0), config=cfg)


def rule_engine_fields(run, F, cfg):
    e = F.fn("engine::Engine::deserialize")
    wrote = set()
    for b, i, s in e.statements():
        if s["k"] == "assign" and s["pl"]["l"] == 1:
            names = [p.get("n") for p in s["pl"]["p"] if isinstance(p, dict)]
            if names:
                wrote.add(names[0])
    fields = [f["name"] for f in F.fields("engine::Engine")]
    run.ob("C08.1.state-coverage", "Engine:fields-replaced", wrote == {"blocker", "cosmetic_cache"} and "resources" in fields,
           f"Engine::deserialize replaces exactly blocker and cosmetic_cache ({sorted(wrote)}); `resources` is loaded "
           f"separately and is left untouched (Engine fields: {fields})", site=e.loc(0), config=cfg)


def rule_header(run, F, cfg):
    s = F.fn("data_format::v0::SerializeFormat::<'a>::serialize") if F.has_fn("data_format::v0::SerializeFormat::<'a>::serialize") \
        else find_fn(F, r"data_format::v0::SerializeFormat.*::serialize$")
    d = F.fn("data_format::DeserializeFormat::deserialize")
    run.touched(s, d)
    magic = F.consts.get("data_format::ADBLOCK_RUST_DAT_MAGIC")
    run.ob("C08.4.header", "magic-const", bool(magic and "val" in magic),
           f"ADBLOCK_RUST_DAT_MAGIC is a constant ({magic.get('val') if magic else None})", config=cfg)
    se = " ".join(s.expr_call(t) for b, t in s.calls())
    ok_s = "ADBLOCK_RUST_DAT_MAGIC" in se and bool(re.search(r"Vec::push\([^)]*\), 0\)", se))
    run.ob("C08.4.header", "serialize-writes-magic+0", ok_s,
           "SerializeFormat::serialize starts the buffer with ADBLOCK_RUST_DAT_MAGIC followed by "
           "the version byte 0", site=s.loc(0), config=cfg)
    # ... then the body: rmp_serde::encode::write(&mut output, self) into the same buffer, and that buffer is returned
    wr = [(b, s.vexpr_call(t)) for b, t in s.calls(r"^rmp_serde::encode::write$|rmp_serde::encode::write_named$|rmp_serde::to_vec")]
    pushes = [b for b, t in s.calls(r"^std::vec::Vec::push$")]
    ret = s.expr_local(0)
    ok_w = len(wr) == 1 and bool(re.search(r"\(\$\w+, \$self\)$", wr[0][1])) and bool(pushes) and all(s.dominates(p_, wr[0][0]) for p_ in pushes) \
        and "ADBLOCK_RUST_DAT_MAGIC" in ret
    run.ob("C08.4.header", "serialize-writes-body-after-header", ok_w,
           f"after the header, serialize encodes `self` into the same buffer (rmp_serde::encode::write) and returns it "
           f"({[w for _, w in wr]}; result {ret[:80]})", site=s.loc(0), config=cfg)
    # v0 decoder skips exactly the header: payload = serialized[MAGIC.len() + 1..]
    d0 = F.fn("data_format::v0::DeserializeFormat::deserialize")
    sl = [d0.expr_call(t) for b, t in d0.calls(r"index$") if "RangeFrom" in d0.vexpr_call(t)]
    ok_sl = len(sl) == 1 and bool(re.search(r"RangeFrom\{start: \((4|core::slice::len\(data_format::ADBLOCK_RUST_DAT_MAGIC\)|PtrMetadata\(.*MAGIC.*\)) AddWithOverflow 1\)\.0\}", sl[0]))
    run.ob("C08.4.header", "decoder-skips-header", ok_sl,
           f"the v0 decoder reads the payload from serialized[MAGIC.len() + 1..] ({sl})", site=d0.loc(0), config=cfg)
    de = " ".join(d.expr_call(t) for b, t in d.calls())
    ok_d = "ADBLOCK_RUST_DAT_MAGIC" in de and "starts_with" in de
    v0call = d.calls(r"^data_format::v0::DeserializeFormat::deserialize$")
    okv = False
    for b, t in v0call:
        c = dominating_conditions(d, b)
        okv = any(v == 0 and ("version" in e or "get(" in e or "@Some" in e) for e, v in c.items()) or \
            any(v == 0 for e, v in c.items() if "discr" not in e and "starts_with" not in e)
    run.ob("C08.4.header", "deserialize-dispatch", ok_d and bool(v0call) and okv,
           "DeserializeFormat::deserialize checks starts_with(MAGIC) and dispatches to the v0 decoder "
           "on version byte 0", site=d.loc(0), config=cfg)


def rule_helpers(run, F, cfg):
    """the `serialize_with` helpers that stabilise hash containers write every element: they re-collect into an
    ordered container of the same elements (BTreeSet / BTreeMap / sorted Vec) and drop or merge nothing"""
    hs = [g for n, g in F.fns.items() if re.search(r"data_format::utils::stabilize_\w+_serialization$", n)]
    run.floor("C08.5.helpers-lossless", f"stabilising helpers [{cfg}]", len(hs), 2)
    for g in hs:
        run.touched(g)
        lossy = [strip_generics(t["callee"]).split("::")[-1] for x in [g] + F.closures_of(g.name) for b, t in x.calls(
            r"::(dedup|dedup_by|dedup_by_key|retain|filter|filter_map|take|skip|truncate|to_lowercase|to_ascii_lowercase|sort_by_cached_key|sort_by_key)$")]
        coll = g.calls(r"Iterator::collect$")
        run.ob("C08.5.helpers-lossless", g.name.split("::")[-1], bool(coll) and not lossy,
               f"{g.name.split('::')[-1]} re-collects the container's own elements and applies no de-duplication, filter or "
               f"lossy key (found: {lossy})", site=g.loc(0), config=cfg)
