"""C04 — exception / important / badfilter precedence; monotone rule addition."""
import re

from analysis.coverage import fields_read
from analysis.guards import dominating_conditions, conditional_defs, has_cond
from analysis.facts import strip_generics
from . import routing as R
from . import C05 as _C05, C07 as _C07

EXPLANATION = (
    "Decided clauses: (1) routing table T_route(Blocker::new) extracted with the finite-domain path "
    "interpreter over all feasible flag valuations satisfies the property-derived constraints "
    "(badfilter / cancelled => no list; exception => never a blocking list; important => importants; "
    "plain blocking => filters; every non-cancelled rule reaches a list); (2) precedence skeleton of "
    "Blocker::check_parameterised by dominance and provenance: importants probed first; exceptions "
    "consulted only where the chosen filter is not important; matched = exception.is_none() && "
    "(filter.is_some() || matched_rule); important = is_important(chosen filter); (3) badfilter "
    "identity: get_id and get_id_without_badfilter read every field the match path reads (mask, "
    "filter, hostname, opt_domains, opt_not_domains) plus modifier_option, and none of tag/raw_line/"
    "id; Blocker::new compares get_id() of candidates with get_id_without_badfilter() of "
    "badfilters; compute_filter_id separates the two variable-length domain lists so that "
    "`$domain=a` and `$domain=~a` cannot share an identity; (4) a badfilter never matches: "
    "is_badfilter => false dominates everything in check_options and matches() evaluates "
    "check_options before check_pattern."
    ' Round 6: borrowed -- the `||host` anchoring table (C02.4), exhaustive probing of every list (C01.3), every option recorded or the line rejected (C03.9).'
)
NOT_DECIDED = ("Monotonicity as a relation between two engines and the verdict on concrete requests "
               "(they follow from the precedence formula plus index completeness, C01); hash "
               "collisions of the 64-bit identity.")

BLOCKING = {"filters", "tagged_filters_all", "filters_tagged", "importants"}
NF = "filters::network::NetworkFilter"


def check(run):
    for cfg in run.cfgs("A", "B"):
        F = run.facts(cfg)
        run.guard("C04.1.routing", cfg, lambda: rule_routing(run, F, cfg))
        run.guard("C04.2.precedence", cfg, lambda: rule_precedence(run, F, cfg))
        run.guard("C04.2.precedence", cfg + "/table", lambda: rule_verdict_table(run, F, cfg))
        run.guard("C04.3.badfilter-id", cfg, lambda: rule_badfilter_id(run, F, cfg))
        run.guard("C04.3.badfilter-id", cfg + "/complete", lambda: rule_badfilter_set_complete(run, F, cfg))
        run.guard("C04.4.badfilter-never-matches", cfg, lambda: rule_never_matches(run, F, cfg))
        b = run.borrow("C07", why="an $important rule must be found (with the enabled tags) to take precedence")
        run.guard("C04.via.C07.1.tag-gate", cfg, lambda: _C07.rule_tag_gate(b, F, cfg))
        b2 = run.borrow("C05", why="fusing rules that differ in a verdict-relevant field makes the verdict depend on "
                                   "which other rules are present")
        run.guard("C04.via.C05.1.fusion-key", cfg, lambda: _C05.rule_key(b2, F, cfg))
        run.guard("C04.via.C05.4.disjunction", cfg, lambda: _C05.rule_disjunction(b2, F, cfg))
        from . import C01 as _C01   # lazy: C01 borrows from this module
        b3 = run.borrow("C01", why="a rule added later must be stored under its own tokens, without disturbing earlier buckets")
        run.guard("C04.via.C01.1.token-source", cfg, lambda: _C01.rule_store(b3, F, cfg))
        b3i = run.borrow("C01", why="an exception (or $important rule) that differs from an earlier rule only by its tag must not be dropped as a duplicate: the untagged twin is the one that is active")
        run.guard("C04.via.C01.7.rule-identity", cfg, lambda: _C01.rule_identity(b3i, F, cfg))
        btc = run.borrow("C01", why="monotonicity is claimed for every request, also those with 127 or more URL tokens")
        run.guard("C04.via.C01.4.token-boundary", cfg, lambda: _C01.rule_token_cap_unbounded(btc, F, cfg))
        from . import C02 as _C02rc
        brc = run.borrow("C02", only=r"regex-text-case|builders-", why="adding an inert rule (a /regex/ that does not compile) must not change how its fused siblings match")
        run.guard("C04.via.C02.3.regex-translation", cfg, lambda: (_C02rc.rule_regex_case(brc, F, cfg), _C02rc.rule_regex_builder(brc, F, cfg)))
        bha = run.borrow("C02", why="an exception or $important rule `||host^` overrides only if it is found at whichever "
                                    "occurrence of its host text in the request hostname sits on a label boundary")
        run.guard("C04.via.C02.4.label-boundary", cfg + "/table", lambda: _C02rc.rule_anchoring_table(bha, F, cfg))
        from . import C03 as _C03opt
        bop = run.borrow("C03", why="which lines are rules at all: an exception or $badfilter line whose option list the parser "
                                    "cannot account for must stay rejected, it may not become a live rule with the odd part ignored")
        run.guard("C04.via.C03.9.every-entry", cfg + "/recorded", lambda: _C03opt.rule_every_option_recorded(bop, F, cfg))
        bex = run.borrow("C01", why="the verdict considers every stored exception / $important / blocking rule: a list probe may "
                                    "not be cut short by anything but an empty list or a hit")
        run.guard("C04.via.C01.3.exhaustive-probing", cfg, lambda: _C01.rule_exhaustive(bex, F, cfg))


def rule_routing(run, F, cfg):
    tn, _ = R.table_new(F)
    run.touched("blocker::Blocker::new")
    n = 0
    bad = {}

    def fail(name, v, d, why):
        bad.setdefault(name, []).append((R.fmt_val(v), sorted(d or []), why))

    okg = tn.list_guards <= {("std::vec::Vec::is_empty(arg:network_filters)", 0)}
    run.ob("C04.1.routing", "loop-runs-for-any-nonempty-list", okg,
           f"the routing loop of Blocker::new is entered for every non-empty rule list (list-level guards on its "
           f"paths: {sorted(tn.list_guards)})", config=cfg)
    for v in R.valuations({"exists": 0}):
        if not R.feasible(v):
            continue
        d = tn.eval(v)
        n += 1
        if d is None:
            fail("defined", v, d, "no row of the extracted table covers this valuation")
            continue
        if v["is_badfilter"] or v["bad_id"]:
            if d:
                fail("cancelled=>none", v, d, "a $badfilter rule or a rule cancelled by one is stored")
            continue
        if v["is_exception"] and (d & BLOCKING):
            fail("exception=>not-blocking", v, d, "an exception rule is stored in a blocking list")
        if not d:
            fail("total", v, d, "a live rule is stored in no list (lost)")
        plain = not (v["is_csp"] or v["is_removeparam"] or v["is_generic_hide"] or v["is_exception"])
        # (an `$important,redirect-rule=` rule is not a blocking rule: it only supplies a replacement)
        blocks = not v["is_redirect"] or v["also_block_redirect"]
        if plain and v["is_important"] and blocks and "importants" not in d:
            fail("important=>importants", v, d, "an $important blocking rule is not in `importants`")
        if plain and not v["is_important"] and not v["is_redirect"]:
            want = {"tagged_filters_all"} if v["tag"] else {"filters"}
            if set(d) != want:
                fail("blocking=>filters", v, d, f"a plain blocking rule must be stored in {sorted(want)}")
        if v["is_csp"] and set(d) - {"redirects"} != {"csp"}:
            fail("csp=>csp", v, d, "a csp rule must be stored in `csp` only")
        if v["is_removeparam"] and set(d) != {"removeparam"}:
            fail("removeparam=>removeparam", v, d, "a removeparam rule must be stored in `removeparam` only")
        if v["is_generic_hide"] and not v["is_csp"] and set(d) - {"redirects"} != {"generic_hide"}:
            fail("generichide=>generic_hide", v, d, "a generichide rule must be stored in `generic_hide` only")
        if v["is_redirect"] and "redirects" not in d:
            fail("redirect=>redirects", v, d, "a redirect rule is not in `redirects`")
        if plain and v["is_redirect"] and not v["also_block_redirect"] and (d & BLOCKING):
            fail("redirect-rule=>not-blocking", v, d, "`redirect-rule` (with or without $important) is stored in a blocking list")
        if plain and v["is_redirect"] and v["also_block_redirect"] and not v["is_important"] \
                and not (d & BLOCKING):
            fail("redirect=>also-blocks", v, d, "`redirect=` must also be stored in a blocking list")
    names = ["defined", "cancelled=>none", "exception=>not-blocking", "total", "important=>importants",
             "blocking=>filters", "csp=>csp", "removeparam=>removeparam", "generichide=>generic_hide",
             "redirect=>redirects", "redirect-rule=>not-blocking", "redirect=>also-blocks"]
    for name in names:
        b = bad.get(name, [])
        run.ob("C04.1.routing", name, not b,
               f"T_route(Blocker::new) constraint `{name}` over {n} feasible valuations"
               + (f": violated for {b[0][0]} -> {b[0][1]} ({b[0][2]})" if b else ""),
               site="src/blocker.rs Blocker::new", config=cfg,
               detail="\n".join(f"{x[0]} -> {x[1]}" for x in b[:8]))
    # the destination must be a function of the modelled predicates only: two loop-body paths with
    # the same modelled decisions but different destinations mean routing depends on something else
    # (e.g. a de-duplication set) that the table does not model -> cannot decide, fail closed
    amb = []
    for v in R.valuations({"exists": 0}):
        if not R.feasible(v):
            continue
        ds = set()
        rows = []
        for conds, dests, p in tn.rows:
            if all(v.get(k) == val for k, val in conds.items()):
                ds.add(dests)
                rows.append((conds, dests, p))
        if len(ds) > 1:
            amb.append((tuple(sorted((k, x) for k, x in v.items() if x)), ds, rows))
            break
    extra = ""
    if amb:
        unk = set()
        for conds, dests, p in amb[0][2]:
            for e, val in p.conds:
                if "NetworkFilterMaskHelper" not in e and ".tag)" not in e and "IntoIter" not in e \
                        and "φ{false | true}" != e and "core::slice::iter(arg:network_filters)" not in e \
                        and "get_id_without_badfilter" not in e:
                    unk.add(e[:160])
        extra = "; unmodelled decisions: " + " | ".join(sorted(unk)[:6])
    run.ob("C04.1.routing", "function-of-modelled-predicates", not amb,
           "the list a rule is stored in is determined by the modelled predicates "
           f"{R.PREDS} alone" + (f": valuation {dict(amb[0][0])} leads to {[sorted(x) for x in amb[0][1]]}{extra}" if amb else ""),
           site="src/blocker.rs Blocker::new", config=cfg, status=None if not amb else "UNDISCHARGED")
    run.floor("C04.1.routing", f"feasible valuations evaluated [{cfg}]", n, 200)
    # the cancellation predicate compares get_id() with the set of get_id_without_badfilter()
    has_bad = any("bad_id" in c for c, _, _ in tn.rows)
    run.ob("C04.1.routing", "cancel-predicate", has_bad,
           "Blocker::new skips a rule iff badfilter_ids (built from get_id_without_badfilter of the "
           "$badfilter rules) contains the rule's get_id()", config=cfg)


def rule_precedence(run, F, cfg):
    f = F.fn("blocker::Blocker::check_parameterised")
    run.touched(f)
    probes = f.calls(r"^network_filter_list::NetworkFilterList::check(_all)?$")
    cl = F.closures_of("blocker::Blocker::check_parameterised")
    imp = [(b, t) for b, t in probes if f.expr_operand(t["args"][0]).endswith(".importants")]
    ok = len(imp) == 1 and all(f.dominates(imp[0][0], b) for b, _ in probes)
    run.ob("C04.2.precedence", "importants-first", ok,
           "importants.check dominates every other list probe in check_parameterised",
           site=f.loc(imp[0][0]) if imp else "", config=cfg)
    # unsupported requests return the default result before any probe
    sup = all(has_cond(dominating_conditions(f, b), r"arg:request\.is_supported$", 1) for b, _ in probes)
    run.ob("C04.2.precedence", "unsupported-first", sup and bool(probes),
           "every list probe is dominated by request.is_supported == true", config=cfg)
    # exceptions consulted only when the chosen filter is not important
    exc = [(b, t) for b, t in probes if f.expr_operand(t["args"][0]).endswith(".exceptions")]
    run.floor("C04.2.precedence", f"exception probes [{cfg}]", len(exc), 2)
    for i, (b, t) in enumerate(exc):
        c = dominating_conditions(f, b)
        none_arm = any(re.search(r"^discr\(", e) and v == 0 for e, v in c.items())
        not_imp = has_cond(c, r"NetworkFilterMaskHelper::is_important\(", 0)
        run.ob("C04.2.precedence", f"exceptions-not-for-important#{i+1}", none_arm or not_imp,
               "exceptions.check is reached only where no filter matched or the matched filter is "
               "not $important (an important hit is not subject to exceptions)",
               site=f.loc(b), config=cfg,
               detail="dominating decisions: " + "; ".join(f"{e[-70:]}={v}" for e, v in c.items()))
    # BlockerResult aggregate
    aggs = [(b, i, s) for b, i, s in f.statements()
            if s["k"] == "assign" and s["rv"]["k"] == "agg" and s["rv"].get("adt") == "blocker::BlockerResult"]
    if len(aggs) != 1:
        run.ob("C04.2.precedence", "result-aggregate", False,
               f"expected exactly one BlockerResult aggregate in check_parameterised, found {len(aggs)}",
               status="UNDISCHARGED", config=cfg)
        return
    b, i, s = aggs[0]
    fields = dict(zip(s["rv"]["fields"], s["rv"]["ops"]))
    # matched
    ml = _root_local(f, fields["matched"])
    defs = conditional_defs(f, ml) if ml is not None else []
    ok_m = bool(defs)
    detail = []
    for kind, db, val, conds, _ in defs:
        detail.append(f"{val} under " + ", ".join(f"{e[-40:]}={v}" for e, v in conds.items() if "is_none" in e or "is_some" in e))
        if val == "false":
            continue
        exc_none = any(re.search(r"Option::is_none\(", e) and "exceptions" in e and v == 1 for e, v in conds.items())
        if not exc_none:
            ok_m = False
        if val == "true":
            fs = any(re.search(r"Option::is_some\(", e) and ("importants" in e or "filters" in e) and v == 1
                     for e, v in conds.items())
            if not fs:
                ok_m = False
        elif val != "arg:matched_rule":
            ok_m = False
    run.ob("C04.2.precedence", "matched-formula", ok_m,
           "BlockerResult.matched is true only under exception.is_none() and (filter.is_some() or "
           "matched_rule), where `exception` comes from exceptions.check and `filter` from the "
           "importants/filters_tagged/filters probes", site=f.loc(b, i), config=cfg,
           detail="\n".join(detail))
    # important
    il = _root_local(f, fields["important"])
    defs = conditional_defs(f, il) if il is not None else []
    ok_i = bool(defs)
    guarded = False
    for kind, db, val, conds, _ in defs:
        if val == "false":
            continue
        if "is_important" in val or "unwrap_or_else(std::option::Option::map(" in val or \
                re.search(r"Option::(is_some_and|map_or)\(", val):
            continue
        if val == "true" and any(re.search(r"NetworkFilterMaskHelper::is_important\(.*(importants|filters)", e) and v == 1
                                 for e, v in conds.items()):
            guarded = True      # `matches!(filter, Some(f) if f.is_important())`: true only under the test
            continue
        ok_i = False
    imp_cl = guarded or any(c.calls(r"NetworkFilterMaskHelper::is_important$") for c in cl)
    run.ob("C04.2.precedence", "important-formula", ok_i and imp_cl,
           "BlockerResult.important is false or is_important() of the chosen filter",
           site=f.loc(b, i), config=cfg)
    # filter choice: the non-important probes are reached only if importants missed
    for lst in ("filters_tagged",):
        ps = [(pb, t) for pb, t in probes if f.expr_operand(t["args"][0]).endswith("." + lst)]
        okp = bool(ps) and all(
            any(re.search(r"Option::is_none\(.*importants", e) and v == 1
                for e, v in dominating_conditions(f, pb).items()) for pb, _ in ps)
        run.ob("C04.2.precedence", f"{lst}-after-important-miss", okp,
               f"`{lst}` is probed only where importants.check returned None", config=cfg)


def _root_local(f, op):
    """follow move/copy chains to the user variable"""
    seen = set()
    while op.get("k") in ("copy", "move") and not op["pl"]["p"]:
        l = op["pl"]["l"]
        if l in seen:
            return l
        seen.add(l)
        ds = f.defs().get(l, [])
        if len(ds) == 1 and ds[0][0] == "assign" and ds[0][3]["rv"]["k"] == "use" \
                and ds[0][3]["rv"]["op"].get("k") in ("copy", "move") and not ds[0][3]["rv"]["op"]["pl"]["p"]:
            op = ds[0][3]["rv"]["op"]
            continue
        return l
    return None


def rule_badfilter_set_complete(run, F, cfg):
    """Blocker::new: the set of ids disabled by `$badfilter` rules is complete before it is consulted for the first rule --
    a `$badfilter` line cancels its twin wherever the two stand in the list (main list first, fixes list later). Decided by
    reachability: from no block that tests `contains` on the set can a block be reached that still adds to it (an insert
    into the set, the collect that builds it, a push into the vector it is collected from)."""
    f = F.fn("blocker::Blocker::new")
    run.touched(f)
    uses = []
    setname = None
    for b, t in f.calls(r"^std::collections::HashSet::contains$"):
        if "get_id" in f.expr_operand(t["args"][1]) or "filter_id" in f.vexpr_operand(t["args"][1]):
            uses.append(b)
            setname = f.vexpr_operand(t["args"][0])
    fills = []
    srcs = set()
    if setname:
        for b, t in f.calls(r"^std::iter::Iterator::collect$|^std::collections::HashSet::(insert|extend)$|Extend<.*>>::extend$"):
            c = strip_generics(t["callee"])
            if c.endswith("::collect") and "$" + (f.varnames.get(t["dest"]["l"]) or "?") == setname:
                fills.append((b, "collect"))
                srcs |= set(re.findall(r"\$\w+", f.vexpr_call(t)))
            elif not c.endswith("::collect") and f.vexpr_operand(t["args"][0]) == setname:
                fills.append((b, c.split("::")[-1]))
        for b, t in f.calls(r"^std::vec::Vec::push$"):
            if f.vexpr_operand(t["args"][0]) in srcs:
                fills.append((b, "push:" + f.vexpr_operand(t["args"][0])))
    late = []
    for u in uses:
        reach = set(f.reachable_from(u))
        late += [(kind, f.loc(b)) for b, kind in fills if b in reach]
    run.ob("C04.3.badfilter-id", "badfilter-set-complete-before-use", bool(uses) and bool(fills) and not late,
           f"the {len(uses)} test(s) of `{setname}` in Blocker::new come after everything that fills it ({sorted(set(k for b, k in fills))}): "
           f"no filling step is reachable from a test; reachable: {late[:3]}", site=late[0][1] if late else f.loc(0), config=cfg,
           detail="with one merged loop a `$badfilter` cancels only the rules that come after it: the verdict then depends "
                  "on the order of the lines / of the lists added to the FilterSet")


def rule_badfilter_id(run, F, cfg):
    m = F.fn("<filters::network::NetworkFilter as filters::network::NetworkMatchable>::matches")
    gi = F.fn("filters::network::NetworkFilter::get_id")
    gw = F.fn("filters::network::NetworkFilter::get_id_without_badfilter")
    run.touched(m, gi, gw)
    derived = {"opt_domains_union", "opt_not_domains_union"}  # pre-filters derived from the lists
    match_fields = fields_read(m, NF) - derived
    need = match_fields | {"modifier_option"}
    for g in (gi, gw):
        got = fields_read(g, NF)
        short = g.name.split("::")[-1]
        missing = sorted(need - got)
        run.ob("C04.3.badfilter-id", f"{short}:covers-match-fields", not missing,
               f"{short} reads every field the match path reads {sorted(match_fields)} plus "
               f"modifier_option; missing: {missing}", site=f"{g.file}", config=cfg,
               detail="a field missing from the identity lets `x$badfilter` cancel rules that "
                      "differ from it in that field")
        extra = sorted(got & {"tag", "raw_line", "id"})
        run.ob("C04.3.badfilter-id", f"{short}:ignores-nonmatching-fields", not extra,
               f"{short} does not read tag / raw_line / id (reads: {extra})", config=cfg)
        cs = g.calls(r"^filters::network::compute_filter_id$")
        run.ob("C04.3.badfilter-id", f"{short}:delegates", len(cs) == 1,
               f"{short} computes the identity through compute_filter_id", config=cfg)
    # sibling agreement of the two argument lists, except the cleared BAD_FILTER bit
    ci = gi.calls(r"^filters::network::compute_filter_id$")
    cw = gw.calls(r"^filters::network::compute_filter_id$")
    if ci and cw:
        ai = [gi.expr_operand(a) for a in ci[0][1]["args"]]
        aw = [gw.expr_operand(a) for a in cw[0][1]["args"]]
        same = [x == y for x, y in zip(ai, aw)]
        ok = len(ai) == len(aw) and all(s for k, s in enumerate(same) if k != 1) and ai[1] == "arg:self.mask"
        run.ob("C04.3.badfilter-id", "siblings-agree", ok,
               "get_id and get_id_without_badfilter pass compute_filter_id arguments of the same "
               "provenance except the mask", config=cfg, detail=f"{ai}\n{aw}")
        clears = any("BAD_FILTER" in gw.expr_operand(t["args"][1]) and gw.expr_operand(t["args"][2]) == "false"
                     for b, t in gw.calls(r"::set$"))
        run.ob("C04.3.badfilter-id", "clears-badfilter-bit", clears,
               "get_id_without_badfilter clears exactly NetworkFilterMask::BAD_FILTER", config=cfg)
    # encoding: compute_filter_id must not fold two variable-length sequences of the same kind
    # back to back without a separator (prefix-freeness; `$domain=a` vs `$domain=~a`)
    c = F.fn("filters::network::compute_filter_id")
    run.touched(c)
    rule_id_encoding(run, c, cfg)


def rule_id_encoding(run, c, cfg):
    """Order of hash-mixing statements in compute_filter_id. Each Option parameter is folded in a
    loop; between the folds of two parameters of the same element type there must be a mixing step
    that does not depend on the sequences (a separator / presence tag), otherwise the encoding of
    (opt_domains, opt_not_domains) is not injective: [a],[] and [],[a] fold identically."""
    # find, per parameter, the blocks where the parameter's elements are mixed into `hash`
    hash_local = None
    for l, n in c.varnames.items():
        if n == "hash":
            hash_local = l
    if hash_local is None:
        run.ob("C04.3.badfilter-id", "id-encoding", False, "local `hash` not found in compute_filter_id",
               status="UNDISCHARGED", config=cfg)
        return
    mixes = []  # (bb, idx, origin-params set, has_const_only)
    for b, i, s in c.statements():
        if s["k"] == "assign" and s["pl"]["l"] == hash_local and not s["pl"]["p"]:
            params = set()
            # render with `hash` itself cut (loop(var:hash)) so that only the NEW data mixed in
            # by this statement is visible, not the history of the accumulator
            e = c.expr_rvalue(s["rv"], 12, (hash_local,))
            for p in ("modifier_option", "opt_domains", "opt_not_domains", "filter", "hostname", "mask"):
                if re.search(r"arg:" + p + r"\b", e):
                    params.add(p)
            mixes.append((b, i, params, e))
    by_param = {}
    for b, i, params, e in mixes:
        for p in params:
            by_param.setdefault(p, []).append((b, i))
    order = ["modifier_option", "opt_domains", "opt_not_domains", "filter", "hostname"]
    present = [p for p in order if p in by_param]
    missing = [p for p in order if p not in by_param]
    run.ob("C04.3.badfilter-id", "id-encoding:all-components-mixed", not missing,
           f"compute_filter_id mixes every component into the identity (missing: {missing})",
           config=cfg)
    # text components enter as one strong 64-bit hash each. Folding them character by character with `h * 33 ^ c`
    # is not collision resistant at all: a change in one character is undone by the next (`||aa2.com^` / `||acp.com^`)
    weak = []
    for p_ in ("modifier_option", "filter", "hostname"):
        es = [e for b, i, params, e in mixes if p_ in params]
        if not es or not all(re.search(r"utils::fast_hash\((arg:" + p_ + r"\b[^()]*|[^()]*arg:" + p_ + r"\b[^()]*)\)", e) for e in es):
            weak.append(p_)
    per_char = [strip_generics(t["callee"]) for b, t in c.calls(r"Chars<'a> as std::iter::Iterator>::next$|str::chars$|str::bytes$|str::as_bytes$")]
    run.ob("C04.3.badfilter-id", "id-encoding:text-components-hashed", not weak and not per_char,
           f"compute_filter_id mixes the pattern, the hostname and the modifier option as utils::fast_hash(text), never "
           f"character by character (not hashed: {weak}; per-character traversal: {sorted(set(per_char))})", site=c.loc(0), config=cfg,
           detail="with a per-character `hash * 33 ^ c` fold, 16319 of the 46656 rules `||xyz.com^` share their id with "
                  "another one, and a $badfilter for one cancels the other")
    # the separators themselves: constant expressions, pairwise distinct, and outside the range of a character
    # (so that a marker cannot be mistaken for an element of a text component)
    def _const_eval(e):
        e = re.sub(r"[\w:]+=(\d+)", r"\1", e)
        m = re.match(r"^\((\d+) (BitOr|BitXor|BitAnd|Add|Sub|Shl) (\d+)\)$", e)
        if m:
            a, op, b2 = int(m.group(1)), m.group(2), int(m.group(3))
            return {"BitOr": a | b2, "BitXor": a ^ b2, "BitAnd": a & b2, "Add": a + b2, "Sub": a - b2, "Shl": a << b2}[op] & (2**64 - 1)
        return int(e) if re.match(r"^\d+$", e) else None
    seps = []
    for b, i, params, e in mixes:
        if params or "arg:mask" in e:
            continue
        m = re.match(r"^\(core::num::wrapping_mul\(loop\(var:hash\), \d+\) BitXor (.*)\)$", e)
        seps.append((_const_eval(m.group(1)) if m else None, e[-60:]))
    vals = [v for v, _ in seps]
    run.ob("C04.3.badfilter-id", "id-encoding:markers-distinct",
           len(vals) >= 4 and None not in vals and len(set(vals)) == len(vals) and all(v > 0x10FFFF for v in vals),
           f"the component markers are constants, pairwise distinct and larger than any character value "
           f"({[hex(v) if v is not None else None for v in vals]})", config=cfg)
    # a separator for component q: a mix of `hash` whose value depends on no component, that
    # dominates every fold of q and from which no fold of the previous component p is reachable
    for p, q in zip(present, present[1:]):
        sep = False
        for b, i, params, e in mixes:
            if params - {"mask"} or "arg:mask" in e:
                continue
            dom_q = all(c.dominates(b, qb) and (qb, qi) != (b, i) for qb, qi in by_param[q])
            reach = c.reachable_from(b)
            no_p_after = not any(pb in reach and pb != b for pb, pi in by_param[p])
            if dom_q and no_p_after:
                sep = True
        run.ob("C04.3.badfilter-id", f"id-encoding:{p}/{q}", sep,
               f"compute_filter_id separates the folds of `{p}` and `{q}` with a mixing step that "
               f"depends on neither (marker / presence tag). Two variable-length components folded "
               f"back to back are not an injective encoding: `$domain=a` and `$domain=~a` (or "
               f"`x$removeparam=ab` / `bx$removeparam=a`) would share an identity and a $badfilter "
               f"for one would cancel the other",
               site=c.loc(by_param[q][0][0]), config=cfg)


def rule_never_matches(run, F, cfg):
    f = F.fn("filters::network_matchers::check_options")
    run.touched(f)
    calls = f.calls()
    first = [(b, t) for b, t in calls if strip_generics(t["callee"]).endswith("::is_badfilter")]
    ok = bool(first)
    for b, t in calls:
        if first and b == first[0][0]:
            continue
        if not has_cond(dominating_conditions(f, b), r"::is_badfilter\(arg:mask\)$", 0):
            ok = False
    run.ob("C04.4.badfilter-never-matches", "check_options", ok,
           "in check_options every evaluation after is_badfilter(mask) is dominated by "
           "is_badfilter == false (a $badfilter rule never matches)", site=f.loc(0), config=cfg)
    # every `true` result of check_options is under is_badfilter == false
    rets = conditional_defs(f, 0)
    ok2 = bool(rets)
    for kind, b, val, conds, _ in rets:
        if val == "false":
            continue
        if not has_cond(conds, r"::is_badfilter\(arg:mask\)$", 0):
            ok2 = False
    run.ob("C04.4.badfilter-never-matches", "check_options-true-returns", ok2,
           "every non-false return value of check_options is produced under is_badfilter == false",
           config=cfg)
    m = F.fn("<filters::network::NetworkFilter as filters::network::NetworkMatchable>::matches")
    co = m.calls(r"^filters::network_matchers::check_options$")
    cp = m.calls(r"^filters::network_matchers::check_pattern$")
    ok3 = len(co) == 1 and len(cp) == 1 and m.dominates(co[0][0], cp[0][0]) and \
        has_cond(dominating_conditions(m, cp[0][0]), r"check_options\(", 1)
    run.ob("C04.4.badfilter-never-matches", "matches-order", ok3,
           "NetworkFilter::matches evaluates check_options first and check_pattern only if it "
           "returned true", site=m.loc(0), config=cfg)


def _two_valued(v):
    """value of a two-valued switch condition: 0/1 for a listed target, the complement for `otherwise`"""
    if v in (0, 1):
        return v
    if isinstance(v, tuple) and len(v) == 2 and v[0] == "not" and len(v[1]) == 1 and v[1][0] in (0, 1):
        return 1 - v[1][0]
    return None


def rule_verdict_table(run, F, cfg):
    """The verdict of check_parameterised as a truth table over the list-probe outcomes, extracted with the
    path interpreter and compared, valuation by valuation, with the precedence specification:
        filter    = importants hit, else (unless previously matched) tagged-or-plain hit
        exception = consulted iff (no filter and (previously matched or forced)) or (filter and not important)
        important = filter is Some and is $important
        matched   = exception is None and (filter is Some or previously matched)
        removeparam rewrite attempted iff not important
    Head = up to the redirect probe (chooses filter / exception); tail = after it (computes the result)."""
    from analysis.pathinterp import enumerate_paths, path_value
    import itertools
    f = F.fn("blocker::Blocker::check_parameterised")
    probes = f.calls(r"^network_filter_list::NetworkFilterList::check(_all)?$")
    by_list = {}
    for b, t in probes:
        m = re.search(r"arg:self\.(\w+)$", f.expr_operand(t["args"][0]))
        by_list.setdefault(m.group(1) if m else "?", []).append(b)
    red = by_list.get("redirects", [None])[0]
    fl = [l for l, n in f.varnames.items() if n == "filter"]
    el = [l for l, n in f.varnames.items() if n == "exception"]
    if red is None or len(fl) != 1 or len(el) != 1:
        run.ob("C04.2.precedence", "table:anchors", False, "redirect probe / `filter` / `exception` locals not found",
               status="UNDISCHARGED", config=cfg)
        return

    def sh(e):
        return re.sub(r"network_filter_list::NetworkFilterList::check\(arg:self\.(\w+), [^()]*(\([^()]*\))?[^()]*\)", r"probe(\1)", e)

    # the or_else closure probes `filters`
    oc = [c for c in F.closures_of(f.name) if any(re.search(r"\.filters$|up:self\.filters$|\.filters\b", c.expr_operand(t["args"][0]))
                                                    for b, t in c.calls(r"NetworkFilterList::check$"))]
    run.ob("C04.2.precedence", "table:or_else-probes-filters", len(oc) == 1,
           "the fallback of filters_tagged.check(..).or_else(..) is filters.check(..)", config=cfg)

    def classify_filter(v):
        v = sh(v or "")
        if v == "probe(importants)":
            return "importants"
        if re.match(r"^std::option::Option::or_else\(probe\(filters_tagged\), closure\[", v):
            return "others"
        return None

    head = []
    unknown = set()
    for p in enumerate_paths(f, stop_blocks=[red]):
        if p.end != f"stop:{red}":
            continue
        a = {}
        for e, v in p.conds:
            e2 = sh(e)
            if e2 == "arg:request.is_supported":
                continue
            m = re.match(r"^std::option::Option::is_(none|some)\(probe\(importants\)\)$", e2)
            if m:
                a["I"] = (1 - v) if m.group(1) == "none" else v
            elif e2 == "arg:matched_rule":
                a["M"] = v
            elif e2 == "arg:force_check_exceptions":
                a["X"] = v
            elif re.match(r"^discr\((std::option::Option::as_ref\()?φ\{probe\(importants\) \| std::option::Option::or_else\(", e2) and v in (0, 1):
                a["FS"] = v
            elif re.match(r"^std::option::Option::is_(none|some)\(φ\{probe\(importants\) \| std::option::Option::or_else\(", e2):
                a["FS"] = v if "is_some" in e2 else 1 - v
            elif re.match(r"^filters::network::NetworkFilterMaskHelper::is_important\(φ\{probe\(importants\)", e2):
                a["P"] = v
            else:
                unknown.add(e2[:120])
        choice = classify_filter(path_value(f, p, fl[0]))
        ev = sh(path_value(f, p, el[0]) or "")
        exc = "E" if ev == "probe(exceptions)" else ("0" if ev == "std::option::Option::None{}" else None)
        head.append((a, choice, exc, p))
    ok_parse = not unknown and all(c and x for a, c, x, p in head) and len(head) >= 6
    run.ob("C04.2.precedence", "table:head-modelled", ok_parse,
           f"every decision before the redirect probe is one of the modelled atoms (importants hit, matched_rule, "
           f"force_check_exceptions, filter is Some, filter is important) and `filter` / `exception` take modelled "
           f"values on each of the {len(head)} paths; unmodelled: {sorted(unknown)[:3]}",
           status=None if ok_parse else "UNDISCHARGED", site=f.loc(0), config=cfg)
    bad = []
    n_val = 0
    if ok_parse:
        for I, TF, M, X, E in itertools.product((0, 1), repeat=5):
            choice_s = "others" if (I == 0 and M == 0) else "importants"
            FS_s = TF if choice_s == "others" else I
            P = 1 if (FS_s and choice_s == "importants") else 0     # only `importants` holds $important rules (C04.1)
            consulted = (FS_s == 0 and (M or X)) or (FS_s == 1 and P == 0)
            exc_s = E if consulted else 0
            n_val += 1
            hits = []
            for a, choice, exc, p in head:
                fs_here = TF if choice == "others" else I
                if a.get("I", I) != I or a.get("M", M) != M or a.get("X", X) != X:
                    continue
                if "FS" in a and a["FS"] != fs_here:
                    continue
                if "P" in a and a["P"] != P:
                    continue
                hits.append((choice, exc, fs_here))
            got = {(fs, (E if exc == "E" else 0), ch if I else "-") for ch, exc, fs in hits}
            want = {(FS_s, exc_s, "importants" if I else "-")}
            if got != want:
                bad.append((dict(I=I, TF=TF, M=M, X=X, E=E), sorted(got, key=str), sorted(want, key=str)))
    run.ob("C04.2.precedence", "table:head", ok_parse and not bad,
           f"for all {n_val} valuations of (importants hit, tagged-or-plain hit, matched_rule, force_check_exceptions, "
           f"exception hit) the extracted choice of `filter` and `exception` equals the specification; first "
           f"difference (valuation, extracted, specified): {bad[:1]}", site=f.loc(0), config=cfg)
    # ---------------- tail
    aggs = [(b, i, st) for b, i, st in f.statements()
            if st["k"] == "assign" and st["rv"]["k"] == "agg" and st["rv"].get("adt") == "blocker::BlockerResult"]
    if len(aggs) != 1:
        return
    ab = aggs[0][0]
    fields = dict(zip(aggs[0][2]["rv"]["fields"], aggs[0][2]["rv"]["ops"]))
    starts = [b for b, t in f.calls(r"^std::option::Option::is_(some|none|some_and)$")
              if f.dominates(b, ab) and red in f.dominators().get(b, set())]
    # `matches!(filter, Some(f) if ..)` / `match filter {..}` open the result computation with a switch on `filter`
    starts += [b for b, blk in enumerate(f.blocks)
               if blk["t"]["k"] == "switch" and f.dominates(b, ab) and red in f.dominators().get(b, set())
               and re.match(r"^discr\((std::option::Option::as_ref\()?φ\{probe\(importants\)", sh(f.expr_operand(blk["t"]["discr"])))]
    if not starts:
        run.ob("C04.2.precedence", "table:tail-anchor", False, "start of the result computation not found",
               status="UNDISCHARGED", config=cfg)
        return
    start = min(starts)
    cl = {c.name: c for c in F.closures_of(f.name)}
    tail = []
    unknown = set()
    dflt = None
    for p in enumerate_paths(f, start=start):
        if p.end != "return":
            continue
        a = {}
        infeasible = False

        def put(k, val):
            nonlocal infeasible
            if a.get(k, val) != val:
                infeasible = True
            a[k] = val
        for e, v in p.conds:
            e2 = sh(e)
            m = re.match(r"^std::option::Option::is_(none|some)\(φ\{probe\(importants\) \| std::option::Option::or_else\(", e2)
            m2 = re.match(r"^std::option::Option::is_(none|some)\(φ\{probe\(exceptions\) \| std::option::Option::None\{\}\}\)$", e2)
            m3 = re.match(r"^std::option::Option::unwrap_or_else\(std::option::Option::map\((std::option::Option::as_ref\()?φ\{probe\(importants\).*closure\[([^\]]+)\]\(\)\), closure\[([^\]]+)\]\(\)\)$", e2)
            if m:
                put("FS", v if m.group(1) == "some" else 1 - v)
            elif m2:
                a["ES"] = v if m2.group(1) == "some" else 1 - v
            elif m3:
                a["U"] = v
                mapc, defc = cl.get(m3.group(2)), cl.get(m3.group(3))
                okc = mapc is not None and bool(mapc.calls(r"NetworkFilterMaskHelper::is_important$")) and defc is not None \
                    and defc.expr_local(0) in ("false", "true")
                dflt = {"false": 0, "true": 1}.get(defc.expr_local(0)) if okc else None
                if not okc:
                    unknown.add("important closures: " + e2[:80])
            elif re.match(r"^std::option::Option::is_some_and\((std::option::Option::as_ref\()?φ\{probe\(importants\).*closure\[([^\]]+)\]\(\)\)$", e2):
                # `filter.as_ref().is_some_and(|f| f.is_important())`: one decision for "a filter was chosen and it is important"
                mc = cl.get(re.search(r"closure\[([^\]]+)\]\(\)\)$", e2).group(1))
                if mc is not None and mc.calls(r"NetworkFilterMaskHelper::is_important$") and \
                        re.match(r"^filters::network::NetworkFilterMaskHelper::is_important\(arg:\w+\)$", mc.expr_local(0)):
                    a["IA"] = v
                else:
                    unknown.add("important closure: " + e2[:80])
            elif e2 == "arg:matched_rule":
                a["M"] = v
            elif re.match(r"^discr\((std::option::Option::as_ref\()?φ\{probe\(importants\) \| std::option::Option::or_else\(", e2) \
                    and _two_valued(v) is not None:
                put("FS", _two_valued(v))
            elif re.match(r"^filters::network::NetworkFilterMaskHelper::is_important\((std::option::Option::as_ref\()?φ\{probe\(importants\) \| std::option::Option::or_else\(.*@Some\.0\)$", e2):
                a["P"] = v      # the important test written as a pattern guard on the chosen filter
            else:
                unknown.add(e2[:120])
        vals = {}
        for k in ("matched", "important", "rewritten_url"):
            op = fields[k]
            vals[k] = sh(path_value(f, p, op["pl"]["l"]) or "") if op.get("pl") and not op["pl"]["p"] else sh(f.expr_operand(op))
        if infeasible:
            continue        # two tests of the same `filter` value disagree: not an execution
        tail.append((a, vals))
    ok_parse = not unknown and len(tail) >= 3
    run.ob("C04.2.precedence", "table:tail-modelled", ok_parse,
           f"every decision of the result computation is one of: filter is Some, the important test "
           f"(map(is_important).unwrap_or_else(const)), exception is None, matched_rule ({len(tail)} paths); "
           f"unmodelled: {sorted(unknown)[:3]}", status=None if ok_parse else "UNDISCHARGED", config=cfg)
    bad = []
    n_val = 0
    if ok_parse:
        for FS, P, ES, M in itertools.product((0, 1), repeat=4):
            if not FS and P:
                continue
            U = P if FS else (dflt or 0)
            n_val += 1
            got = set()
            for a, vals in tail:
                if a.get("FS", FS) != FS or a.get("ES", ES) != ES or a.get("M", M) != M or a.get("U", U) != U \
                        or a.get("P", P) != P or a.get("IA", FS & P) != (FS & P):
                    continue
                mv = {"true": 1, "false": 0, "arg:matched_rule": M}.get(vals["matched"])
                iv = {"false": 0, "true": 1}.get(vals["important"], U if "unwrap_or_else(" in vals["important"] else
                                                 ((FS & P) if "Option::is_some_and(" in vals["important"] and "IA" in a else None))
                rw = 1 if vals["rewritten_url"].startswith("blocker::Blocker::apply_removeparam(") else \
                    (0 if vals["rewritten_url"] == "std::option::Option::None{}" else None)
                got.add((mv, iv, rw))
            want = {((1 - ES) & (FS | M), FS & P, 1 - (FS & P))}
            if got != want:
                bad.append((dict(FS=FS, P=P, ES=ES, M=M), sorted(got, key=str), sorted(want)))
    run.ob("C04.2.precedence", "table:tail", ok_parse and not bad,
           f"for all {n_val} valuations of (filter is Some, filter is important, exception is Some, matched_rule): "
           f"matched = !exception && (filter || matched_rule), important = filter && is_important, removeparam is "
           f"attempted iff !important; first difference (valuation, extracted (matched, important, rewrite), "
           f"specified): {bad[:1]}", site=f.loc(ab), config=cfg)
    # the reported strings come from the chosen filter / exception
    ex = sh(f.expr_operand(fields["exception"]))
    fi = sh(f.expr_operand(fields["filter"]))
    run.ob("C04.2.precedence", "table:reported-rules",
           "probe(exceptions)" in ex and "probe(importants)" not in ex and "probe(importants)" in fi and "probe(exceptions)" not in fi,
           "BlockerResult.exception is rendered from the exception hit and BlockerResult.filter from the chosen filter",
           config=cfg, detail=f"exception: {ex[:120]}; filter: {fi[:120]}")
