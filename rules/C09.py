"""C09 — serialization is deterministic and a fixpoint under reload."""
import re

from analysis.facts import strip_generics, AnchorMissing
from analysis.guards import dominating_conditions

EXPLANATION = (
    "No-order-leak argument: the only process-dependent inputs to the byte stream are hash-container "
    "iteration orders. Decided: (1) ordered views — walking the serialization type graph from "
    "v0::SerializeFormat through the MIR of the derived Serialize impls (type argument of every "
    "serialize_field::<T> / the function behind every __SerializeWith wrapper), no HashMap/HashSet "
    "is ever serialized through a plain Serialize impl; the stabilize_* helpers collect into "
    "BTreeMap/BTreeSet; (2) order taint — every iteration over a hash container in the crate is a "
    "confirmed instance whose consumer is order-insensitive (collect into a hash/BTree container, "
    "re-insert under the iterated key, set algebra) or is sanitised (optimizer::optimize sorts by id "
    "after fusing groups taken in map-iteration order); an unknown hash iteration fails closed; "
    "buckets are only written through insert_dup (binary-search insert by id); (3) no clock value "
    "or address reaches the serializer cone; (4) fixpoint — the load path restores sequences "
    "verbatim (no sort / dedup / reverse in the deserialization cone), so re-serialization reads "
    "the same values through the same ordered views."
    " Later additions: the driver now distinguishes the per-field `__SerializeWith` wrappers (they used to collapse into one function), so the value type behind every ordered view is the field's own; the re-sort of optimize() is on every exit of the function."
    ' Round 6: no cell-typed field in the engine can hold a remembered buffer (C06.1 borrowed).'
    " Round 8: the key the buckets are ordered by (NetworkFilter.id) is the parser's line hash or the value read back, never re-assigned (a tag-blind structural id makes fused rules tie, and ties are written in hash order)."
)
NOT_DECIDED = "Byte-level determinism of rmp-serde itself (dependency); C08's field fidelity is assumed."

HASH_RX = re.compile(r"std::collections::(HashMap|HashSet)<|hashbrown::")
ORDERED_FNS = {
    "data_format::utils::stabilize_hashmap_serialization": "collects into BTreeMap",
    "data_format::utils::stabilize_hashset_serialization": "collects into BTreeSet",
    "data_format::v0::serialize_v0_network_filter_list": "converts to an inner struct whose map is stabilised",
    "data_format::v0::serialize_v0_network_filter_vec": "Vec of the v0 wire struct, in memory order",
}

# hash-container iteration sites confirmed by reading: (function, classification, reason)
HASH_ITER_TABLE = {
    "<data_format::v0::LegacyHostnameRuleDb as std::convert::From<&cosmetic_filter_cache::HostnameRuleDb>>::from":
        ("keyed", "each bin is iterated and re-inserted into `db` under the iterated hash; inner order is the "
                  "bin's own Vec order and the six loops run in fixed source order"),
    "<data_format::v0::LegacyHostnameRuleDb as std::convert::Into<cosmetic_filter_cache::HostnameRuleDb>>::into":
        ("keyed", "rules are re-inserted into the bins under the iterated hash in wire (Vec) order"),
    "data_format::v0::<impl std::convert::From<data_format::v0::NetworkFilterListV0DeserializeFmt> for network_filter_list::NetworkFilterList>::from":
        ("collect-unordered", "collected into a HashMap keyed by the iterated key"),
    "data_format::v0::serialize_v0_network_filter_list":
        ("collect-unordered", "collected into a HashMap that is serialised through stabilize_hashmap_serialization"),
    "data_format::utils::stabilize_hashmap_serialization": ("collect-ordered", "collected into BTreeMap"),
    "data_format::utils::stabilize_hashset_serialization": ("collect-ordered", "collected into BTreeSet"),
    "network_filter_list::NetworkFilterList::optimize":
        ("keyed", "each drained bucket is re-inserted under its own key"),
    "network_filter_list::vec_hashmap_len": ("fold", "sums lengths (commutative)"),
    "optimizer::apply_optimisation":
        ("sorted-after", "fused groups are pushed in map-iteration order; optimizer::optimize sorts the "
                         "result by id before returning"),
    "blocker::Blocker::tags_enabled": ("to-set", "returned Vec only flows back into a HashSet / contains()"),
    "blocker::Blocker::enable_tags": ("set-algebra", "union collected into a HashSet"),
    "blocker::Blocker::disable_tags": ("set-algebra", "difference collected into a HashSet"),
    "blocker::Blocker::get_csp_directives": ("query", "query result (C15 states order is unspecified); not engine state"),
    "cosmetic_filter_cache::CosmeticFilterCache::hostname_cosmetic_resources": ("query", "query result; not engine state"),
    "regex_manager::RegexManager::cleanup": ("in-place", "mutates each value independently; cache is not serialised"),
    "regex_manager::RegexManager::discard_regex": ("in-place", "mutates matching entries; cache is not serialised"),
    "regex_manager::RegexManager::get_debug_regex_data": ("query", "debug information, not engine state"),
    "cosmetic_filter_cache::CosmeticFilterCache::hidden_class_id_selectors": ("query", "query result"),
    "content_blocking::ignore_previous_fp_documents": ("query", "not engine state"),
}
HASH_ITER_CALL = re.compile(
    r"^std::collections::(HashMap|HashSet)::(iter|iter_mut|into_iter|drain|keys|values|"
    r"values_mut|into_keys|into_values|difference|union|intersection|symmetric_difference|retain|extract_if)$")


def check(run):
    for cfg in run.cfgs("A", "B"):
        F = run.facts(cfg)
        run.guard("C09.1.ordered-views", cfg, lambda: rule_views(run, F, cfg))
        run.guard("C09.2.order-taint", cfg, lambda: rule_taint(run, F, cfg))
        run.guard("C09.3.no-clock-or-address", cfg, lambda: rule_nondeterminism(run, F, cfg))
        run.guard("C09.4.fixpoint", cfg, lambda: rule_fixpoint(run, F, cfg))
        run.guard("C09.2.order-taint", cfg + "/sort-key", lambda: rule_sort_key_unique(run, F, cfg))
        run.guard("C09.4.fixpoint", cfg + "/no-carry-over", lambda: rule_no_carry(run, F, cfg))
        from . import C08 as _C08c   # lazy
        b81 = run.borrow("C08", only=r":restored", why="re-serializing a loaded engine reproduces the buffer only if every stored value is "
                                    "installed as read (an id recomputed on load differs for fused rules)")
        run.guard("C09.via.C08.1.state-coverage", cfg, lambda: _C08c.rule_coverage(b81, F, cfg))
        from . import C06 as _C06   # lazy: C06 borrows from this module
        bim = run.borrow("C06", why="the bytes must be a function of the engine's current content: a buffer remembered in a "
                                    "cell inside the engine would be returned again after the content changed")
        run.guard("C09.via.C06.1.interior-mutability", cfg, lambda: _C06.rule_im(bim, F, cfg))


def ser_impl(F, ty):
    """derived / manual Serialize::serialize for a local type name (without generics)"""
    base = re.escape(ty)
    cands = [f for n, f in F.fns.items()
             if re.search(r"Serialize for " + base + r"(<[^>]*>)?>::serialize$", n) and "{closure" not in n]
    return cands[0] if cands else None


def with_impl(F, wrapper_ty, value_expr=None):
    """Serialize impl of a `__SerializeWith` wrapper. serde derives one wrapper type per `serialize_with` field, all
    called `__SerializeWith` and declared in different blocks of the same function: the wrapper a given field uses
    is read from the aggregate built for the call (`value_expr`), whose ADT path the driver makes unique."""
    adt = None
    if value_expr:
        m = re.match(r"^(.*__SerializeWith(?:#\d+)?)::__SerializeWith\{", value_expr)
        adt = m.group(1) if m else None
    cands = [f for n, f in F.fns.items() if re.search(r"Serialize>::serialize(#\d+)?$", n) and "__SerializeWith" in n]
    if adt is not None:
        hit = [f for f in cands if f.j.get("impl_self_adt") == adt]
        return hit[0] if len(hit) == 1 else None
    key = wrapper_ty.split("<")[0]
    hit = [f for f in cands if f.name.startswith("<" + key)]
    return hit[0] if len(hit) == 1 else None


def rule_views(run, F, cfg):
    seen = set()
    work = ["data_format::v0::SerializeFormat"]
    n_fields = 0
    n_hash_decl = 0
    while work:
        ty = work.pop()
        if ty in seen:
            continue
        seen.add(ty)
        f = ser_impl(F, ty)
        if f is None:
            run.ob("C09.1.ordered-views", f"impl:{ty}", False,
                   f"no Serialize impl found for `{ty}` in the serialization type graph",
                   status="UNDISCHARGED", config=cfg)
            continue
        run.touched(f)
        sites = f.calls(r"::(serialize_field|serialize_element|serialize_newtype_struct|serialize_newtype_variant|serialize_entry|serialize_some)$")
        for b, t in sites:
            gen = t.get("gen", [])
            T = gen[-1] if gen else "?"
            fname = f.expr_operand(t["args"][1]) if len(t["args"]) > 1 else "?"
            n_fields += 1
            inst = f"{ty.split('::')[-1]}.{fname.strip(chr(34))}"
            if "__SerializeWith" in T:
                w = with_impl(F, T, f.expr_operand(t["args"][2]) if len(t["args"]) > 2 else None)
                callee = None
                if w is not None:
                    locs = [(wb, wt) for wb, wt in w.calls() if wt.get("local")]
                    if locs:
                        callee = strip_generics(locs[0][1]["callee"])
                        wgen = locs[0][1].get("gen", [])
                ok = callee in ORDERED_FNS
                n_hash_decl += 1
                run.ob("C09.1.ordered-views", f"{inst}:with", ok,
                       f"field {inst} is serialised through `{callee}` ({ORDERED_FNS.get(callee, 'not an ordered view')})",
                       site=f.loc(b), config=cfg)
                if ok and callee.startswith("data_format::utils::stabilize"):
                    # descend into key/value types
                    for g in wgen[1:]:
                        _descend(F, g, work, run, cfg, inst)
                        if HASH_RX.search(g):
                            run.ob("C09.1.ordered-views", f"{inst}:value-type", False,
                                   f"value type `{g}` of the ordered view of {inst} contains a hash container "
                                   f"that would be serialised in iteration order", site=f.loc(b), config=cfg)
                if callee == "data_format::v0::serialize_v0_network_filter_list":
                    inner = [n for n in F.adts if n.endswith("serialize_v0_network_filter_list::NetworkFilterListV0SerializeFmt")]
                    work.extend(inner)
                if callee == "data_format::v0::serialize_v0_network_filter_vec":
                    work.append("data_format::v0::NetworkFilterV0SerializeFmt")
            else:
                bad = bool(HASH_RX.search(T))
                run.ob("C09.1.ordered-views", f"{inst}:plain", not bad,
                       f"field {inst}: `{T[:120]}` is serialised through its own Serialize impl and must "
                       f"not contain a HashMap/HashSet (iteration order is process dependent)",
                       site=f.loc(b), config=cfg,
                       detail="wrap the field with #[serde(serialize_with = \"stabilize_hash*_serialization\")]")
                _descend(F, T, work, run, cfg, inst)
    run.floor("C09.1.ordered-views", f"serialized fields walked [{cfg}]", n_fields, 30)
    run.floor("C09.1.ordered-views", f"hash-typed fields behind an ordered view [{cfg}]", n_hash_decl, 17)
    # the stabilisers collect into BTree containers
    for fn_, want in (("data_format::utils::stabilize_hashmap_serialization", "std::collections::BTreeMap<"),
                      ("data_format::utils::stabilize_hashset_serialization", "std::collections::BTreeSet<")):
        f = F.fn(fn_)
        cs = f.calls(r"Iterator::collect$")
        ok = len(cs) == 1 and any(want in g for g in cs[0][1].get("gen", []))
        ser = f.calls(r"Serialize>::serialize$|::serialize$")
        ok2 = any(want.rstrip("<") in " ".join(t.get("gen", []) + [t["callee"]]) for b, t in ser)
        run.ob("C09.1.ordered-views", f"{fn_.split('::')[-1]}:btree", ok and ok2,
               f"{fn_} collects the entries into {want.rstrip('<')} and serialises that", site=f.loc(0), config=cfg)
    # the inner list conversion
    f = F.fn("data_format::v0::serialize_v0_network_filter_list")
    run.touched(f)


def _descend(F, T, work, run, cfg, inst):
    for m in re.finditer(r"([a-z_][\w]*(?:::[\w]+)+)", T):
        name = m.group(1)
        if name in F.adts and ser_impl(F, name) is not None:
            work.append(name)


def rule_taint(run, F, cfg):
    n = 0
    seen_fns = set()
    for name, f in sorted(F.fns.items()):
        if "flatbuffers" in f.file or "_serde" in name or "resource_assembler" in f.file:
            continue
        base = name.split("::{closure")[0]
        hits = []
        for b, t in f.calls():
            c = strip_generics(t["callee"])
            g = " ".join(t.get("gen", []))
            is_hash = bool(HASH_ITER_CALL.search(c)) or (
                c.endswith("IntoIterator>::into_iter") and bool(re.search(r"Hash(Map|Set)<|hash_(map|set)::", g)))
            if is_hash and not c.endswith("::next") and "::Iter" not in c.split("::")[-2:][0]:
                hits.append((b, c))
            elif is_hash and re.search(r"^std::collections::(HashMap|HashSet)::", c):
                hits.append((b, c))
        if not hits:
            continue
        n += len(hits)
        if base in seen_fns:
            continue
        seen_fns.add(base)
        row = HASH_ITER_TABLE.get(base)
        if row is None:
            run.ob("C09.2.order-taint", f"site:{base}", False,
                   f"`{base}` iterates a hash container ({hits[0][1]}); this iteration is not in the table "
                   f"of confirmed order-insensitive / sanitised instances. If its results can reach a "
                   f"serialised Vec the output becomes process dependent",
                   site=f.loc(hits[0][0]), status="UNDISCHARGED", config=cfg)
            continue
        kind, why = row
        ok, detail = verify_row(F, base, kind)
        run.ob("C09.2.order-taint", f"site:{base}", ok,
               f"hash iteration in `{base}` is {kind}: {why}", site=f.loc(hits[0][0]), config=cfg,
               detail=detail)
        run.touched(f)
    run.floor("C09.2.order-taint", f"hash-iteration call sites audited [{cfg}]", n, 14)
    # buckets are written only through insert_dup (binary-search insert by id) in new / add_filter
    for fn_ in ("network_filter_list::NetworkFilterList::new", "network_filter_list::NetworkFilterList::add_filter"):
        f = F.fn(fn_)
        run.touched(f)
        ins = f.calls(r"^network_filter_list::insert_dup$")
        other = f.calls(r"^std::collections::HashMap::(insert|entry|get_mut)$")
        other = [(b, t) for b, t in other if "filter_map" in f.expr_operand(t["args"][0])
                 and "histogram" not in f.expr_operand(t["args"][0])]
        run.ob("C09.2.order-taint", f"{fn_.split('::')[-1]}:only-insert_dup", bool(ins) and not other,
               f"{fn_} writes buckets only through insert_dup ({len(ins)} call(s); other writers: {len(other)})",
               site=f.loc(0), config=cfg)
    d = F.fn("network_filter_list::insert_dup")
    run.touched(d)
    bs = d.calls(r"binary_search")
    vi = d.calls(r"^std::vec::Vec::insert$")
    ok = bool(bs) and bool(vi)
    if ok:
        idx = d.expr_operand(vi[0][1]["args"][1])
        ok = "binary_search" in idx
    run.ob("C09.2.order-taint", "insert_dup:sorted-insert", ok,
           "insert_dup inserts at the position found by binary search over the bucket (keeps buckets "
           "ordered by id, independent of insertion order)", site=d.loc(0), config=cfg)


def verify_row(F, fn_, kind):
    f = F.fn(fn_)
    closures = F.closures_of(fn_)
    allf = [f] + closures
    if kind in ("collect-unordered", "collect-ordered"):
        want = r"std::collections::(HashMap|HashSet)<" if kind == "collect-unordered" else r"std::collections::(BTreeMap|BTreeSet)<"
        cs = [t for g in allf for b, t in g.calls(r"Iterator::collect$")]
        ok = any(re.search(want, " ".join(t.get("gen", []))) for t in cs)
        pushes = [t for g in [f] for b, t in g.calls(r"^std::vec::Vec::push$")]
        return ok and not pushes, f"collect targets: {[t.get('gen', [])[-1][:60] for t in cs]}"
    if kind == "keyed":
        # nested helper functions of the conversion (fn push_rule(db, hash, ..) { db.entry(*hash)... }) count as its body
        nested = [g for n, g in F.fns.items() if n.startswith(fn_ + "::") and g not in allf]
        ks = [t for g in allf + nested for b, t in g.calls(r"^std::collections::HashMap::(insert|entry)$|HostnameFilterBin::(insert|insert_procedural_action_filter)$")]
        ok = bool(ks)
        # no Vec::push directly in the function body onto a Vec that outlives the loop iteration
        # (pushes inside and_modify closures target the map's value under the iterated key)
        direct = [(b, t) for b, t in f.calls(r"^std::vec::Vec::push$")]
        # `map.entry(key).or_default().push(x)` / `.or_insert_with(..).push(x)`: the push goes to the value under that key
        direct = [(b, t) for b, t in direct
                  if not re.match(r"^std::collections::hash_map::Entry::(or_default|or_insert_with|or_insert)\(std::collections::HashMap::entry\(",
                                  f.expr_operand(t["args"][0]))]
        if fn_.endswith("NetworkFilterList::optimize"):
            # pushes into per-bucket temporaries created inside the loop body
            direct = [(b, t) for b, t in direct
                      if not re.search(r"Vec::with_capacity\(", f.expr_operand(t["args"][0]))]
        return ok and not direct, f"keyed writes: {len(ks)}, direct pushes: {len(direct)}"
    if kind == "sorted-after":
        o = F.fn("optimizer::optimize")
        srt = o.calls(r"::sort(_unstable)?(_by|_by_key)?$")
        app = o.calls(r"^std::vec::Vec::append$")
        ok = bool(srt) and all(any(o.postdominates(sb, ab) for sb, _ in srt) for ab, _ in app)
        # ... and on every way out: an early return hands back a vector that was collected from a hash map and never
        # sorted (`if fused.is_empty() { return unfused }`)
        exits_ = [ex for ex in o.exits() if ex in o.normal_blocks()]
        ok = ok and bool(exits_) and all(any(o.dominates(sb, ex) for sb, _ in srt) for ex in exits_)
        # sort key is the rule id
        kc = [c for c in F.closures_of("optimizer::optimize")]
        key_is_id = any(any(isinstance(p, dict) and p.get("n") == "id" for b, i, s in c.statements()
                            if s["k"] == "assign" and s["rv"]["k"] in ("use", "ref")
                            for p in (s["rv"].get("pl") or s["rv"].get("op", {}).get("pl", {"p": []}))["p"]) for c in kc)
        # the sorted vec is the returned one
        ret_ok = False
        if srt:
            recv = o.expr_operand(srt[0][1]["args"][0])
            ret = o.expr_local(0)
            ret_ok = recv == ret or recv in ret
        return ok and key_is_id and ret_ok, f"sort calls: {len(srt)}, appends: {len(app)}, key=id: {key_is_id}, returned: {ret_ok}"
    if kind == "fold":
        return not f.calls(r"^std::vec::Vec::push$"), ""
    if kind == "to-set":
        users = []
        ok = True
        for g, b, t in F.callers_of(r"^blocker::Blocker::tags_enabled$"):
            users.append(g.name)
            sinks = g.calls(r"Iterator::collect$|::contains$|^blocker::Blocker::use_tags$|Iterator>?::(any|all)$")
            into_set = any("HashSet<" in " ".join(t2.get("gen", [])) or "contains" in t2["callee"]
                           or "use_tags" in t2["callee"] or re.search(r"::(any|all)$", strip_generics(t2["callee"])) for b2, t2 in sinks)
            if not into_set:
                ok = False
        ser = F.cone(["engine::Engine::serialize_raw"])
        if "blocker::Blocker::tags_enabled" in ser:
            ok = False
        return ok and bool(users), f"callers: {sorted(set(users))}"
    if kind == "set-algebra":
        cs = [t for b, t in f.calls(r"Iterator::collect$")]
        return any("HashSet<" in " ".join(t.get("gen", [])) for t in cs), ""
    if kind == "query":
        ser = F.cone(["engine::Engine::serialize_raw", "engine::Engine::from_filter_set"])
        return fn_ not in ser, "not reachable from serialize_raw / from_filter_set"
    if kind == "in-place":
        w = [t for g in allf for b, t in g.calls(r"^std::vec::Vec::push$|^std::collections::HashMap::insert$")]
        return not w, "no push / insert while iterating"
    return False, "unknown classification"


def rule_nondeterminism(run, F, cfg):
    cone = F.cone(["engine::Engine::serialize_raw"])
    run.touched(*cone)
    bad = []
    for n in cone:
        f = F.fns[n]
        for b, t in f.calls(r"^std::time::|RandomState|^std::thread::|^std::process::id"):
            bad.append((n, strip_generics(t["callee"]), f.loc(b)))
        for b, i, s in f.statements():
            if s["k"] == "assign" and s["rv"]["k"] == "cast" and "Expose" in s["rv"]["ck"]:
                bad.append((n, "pointer-to-integer cast", f.loc(b, i)))
    run.ob("C09.3.no-clock-or-address", "serializer-cone", not bad and len(cone) >= 10,
           f"no clock, thread id, random state or address value is computed in the cone of "
           f"Engine::serialize_raw ({len(cone)} functions); found: {bad[:3]}", config=cfg)


def rule_fixpoint(run, F, cfg):
    cone = F.cone(["engine::Engine::deserialize"], stop=["blocker::Blocker::use_tags"])
    run.touched(*cone)
    bad = []
    for n in cone:
        f = F.fns[n]
        if not f.file.endswith(("data_format/v0.rs", "data_format/mod.rs", "engine.rs")):
            continue
        for b, t in f.calls(r"::(sort|sort_unstable|sort_by|sort_by_key|sort_unstable_by|sort_unstable_by_key|dedup|dedup_by|dedup_by_key|reverse|retain|swap_remove)$"):
            bad.append((n, strip_generics(t["callee"]), f.loc(b)))
    run.ob("C09.4.fixpoint", "load-restores-verbatim", not bad and len(cone) >= 5,
           f"the deserialization path (data_format / Engine::deserialize, {len(cone)} functions in cone) "
           f"re-orders nothing: buckets and lists are restored in wire order, which is the order the "
           f"serializer read them in; re-ordering calls found: {bad[:3]}", config=cfg,
           detail="the serializer writes bucket Vecs in memory order (an optimised bucket is NOT globally "
                  "id-sorted: shared rules are appended after the sorted ones), so sorting on load "
                  "breaks serialize(deserialize(b)) == b")
    # the serializer itself does not sort buckets (so verbatim restore is the only consistent choice)
    s = F.fn("data_format::v0::serialize_v0_network_filter_list")
    srt = [t for g in [s] + F.closures_of(s.name) for b, t in g.calls(r"::sort")]
    run.ob("C09.4.fixpoint", "serializer-writes-memory-order", not srt,
           "serialize_v0_network_filter_list writes each bucket in memory order", config=cfg)
    # post-load mutation: only use_tags
    e = F.fn("engine::Engine::deserialize")
    muts = [strip_generics(t["callee"]) for b, t in e.calls(r"^blocker::Blocker::|^cosmetic_filter_cache::")]
    ok = set(muts) <= {"blocker::Blocker::tags_enabled", "blocker::Blocker::use_tags"}
    run.ob("C09.4.fixpoint", "post-load-mutation", ok,
           f"after decoding, Engine::deserialize only re-applies the caller's tags ({sorted(set(muts))})",
           site=e.loc(0), config=cfg)

    # the per-hostname store never drops what the loader (or the builder) hands it
    ins = F.fn("cosmetic_filter_cache::HostnameFilterBin::<T>::insert")
    run.touched(ins)
    stores = [b for b, t in ins.calls(r"^std::vec::Vec::push$|^std::collections::HashMap::insert$")]
    free = ins.reachable_from(0, avoid=set(stores))
    leak = sorted(set(ins.exits()) & set(free))
    run.ob("C09.4.fixpoint", "bin-insert-unconditional", bool(stores) and not leak,
           "HostnameFilterBin::insert stores its argument on every path (push into the existing bucket or "
           "insert of a fresh one): the v0 loader rebuilds each bin entry by entry through it, and the wire "
           "form carries less than the in-memory entry (no permission mask), so any value-dependent skip "
           "(de-duplication, filtering) makes the reloaded engine serialize differently",
           site=ins.loc(leak[0]) if leak else ins.loc(0), config=cfg,
           detail=f"store blocks {stores}; exits reachable without a store: {leak}")


def rule_no_carry(run, F, cfg):
    """Engine::deserialize installs the decoded blocker / cosmetic cache as they are: no field of the decoded
    values is overwritten from the receiving engine (only the enabled tags are re-applied, through use_tags)"""
    e = F.fn("engine::Engine::deserialize")
    writes = []
    for b, i, st in e.statements():
        if st["k"] == "assign" and st["pl"]["p"]:
            tgt = e.vexpr_place(st["pl"])
            writes.append((tgt, e.vexpr_rvalue(st["rv"])[:80]))
    ok = sorted(t for t, v in writes) == ["$self.blocker", "$self.cosmetic_cache"] and \
        all(re.match(r"^\$\w+$", v) for t, v in writes)
    run.ob("C09.4.fixpoint", "decoded-state-installed-verbatim", ok,
           f"the only field writes of Engine::deserialize are self.blocker = <decoded> and self.cosmetic_cache = <decoded> "
           f"({writes}); a receiver-side setting copied into the decoded blocker (e.g. enable_optimizations) is serialized "
           f"again and breaks serialize(deserialize(b)) == b", site=e.loc(0), config=cfg)



def rule_sort_key_unique(run, F, cfg):
    """The buckets are written in the order of the rules' `id` (insert_dup orders by it, optimize() re-sorts by it), which
    makes the bytes independent of the hash order the rules were collected in ONLY while different rules of a bucket have
    different ids. The id is the hash of the rule's line, given once by the parser (and restored as read by the loader).
    Who-may-write: no other function assigns `NetworkFilter.id`, and no other construction of a NetworkFilter computes
    it -- in particular fusion keeps its first member's line hash: the structural id (`get_id()`) ignores the tag, so
    fused rules of different tags would tie, and ties are written in collection (hash) order."""
    writes, aggs = [], []
    NFT = "filters::network::NetworkFilter"
    for nme, f in F.fns.items():
        for b, i, st in f.statements():
            if st["k"] != "assign":
                continue
            pr = st["pl"]["p"]
            if pr and isinstance(pr[-1], dict) and pr[-1].get("n") == "id" and NFT in str(f.locals[st["pl"]["l"]]):
                writes.append((nme.split("::", 1)[-1], f.expr_rvalue(st["rv"])[:60], f.loc(b, i)))
            if st["rv"]["k"] == "agg" and st["rv"].get("adt") == NFT and f.j.get("kind") != "Derive" and "::_::" not in nme \
                    and not nme.endswith("as std::clone::Clone>::clone"):
                d = dict(zip(st["rv"]["fields"], st["rv"]["ops"]))
                aggs.append((nme, f.expr_operand(d["id"])))
    okw = not writes
    oka = sorted(aggs) == sorted([("filters::network::NetworkFilter::parse", "utils::fast_hash(arg:line)"),
                                  ("data_format::v0::<impl std::convert::From<data_format::v0::NetworkFilterV0DeserializeFmt> for "
                                   "filters::network::NetworkFilter>::from", "arg:v.id")])
    run.ob("C09.2.order-taint", "sort-key-is-the-line-hash", okw and oka,
           "NetworkFilter.id (the key the serialized buckets are ordered by) is the parser's hash of the rule's line or the "
           f"value read back by the loader, and is never re-assigned (assignments: {writes[:2]}; constructions: "
           f"{[(a[0].split('::')[-1], a[1][:40]) for a in aggs]})", site=writes[0][2] if writes else "", config=cfg)
