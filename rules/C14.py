"""C14 — removeparam rewrites remove exactly the named parameters (structure of the string surgery)."""
import re

from analysis.facts import strip_generics
from analysis.guards import dominating_conditions, conditional_defs, has_cond

EXPLANATION = (
    "Structural conditions of Blocker::apply_removeparam: (1) piece provenance — the result is the "
    "concatenation (format template with no literal text) of url[0..i], the re-joined parameters and "
    "url[hash_index..], all slices of request.original_url with i = first '?' and hash_index = first "
    "'#' after it (else len); the parameter list is the split of url[i+1..hash_index]; "
    "Request.original_url is the caller's URL string, not the normalised one; (2) inverse constants "
    "agree — split('&') / join(\"&\"), split_once('=') / Display template `{}={}` and `{}`, and the "
    "leading '?' is emitted iff the joined string is non-empty; (3) every write `*include = false` is "
    "dominated by the KeyValue arm, !value.is_empty() and key == removeparam; Some(..) is returned "
    "only if a parameter was removed; (4) apply_removeparam is called only when the result is not "
    "important; (5) the removeparam list is never optimised (C05.3) and is probed in full."
    ' Round 6: apply_removeparam answers None only where no `?` precedes the fragment or the rewrite flag is false.'
)
NOT_DECIDED = "Byte-exact preservation on concrete URLs (value level); which removeparam rules match (C01-C03)."

AR = "blocker::Blocker::apply_removeparam"


def check(run):
    for cfg in run.cfgs("A", "B"):
        F = run.facts(cfg)
        from analysis.guards import rule_visits_all as _rva
        run.guard("C14.7.every-parameter", cfg, lambda: _rva(run, "C14.7.every-parameter", F, cfg, ['blocker::Blocker::apply_removeparam'],
                  'Every parameter of the query is either kept verbatim or removed by a matching rule; every matching rule is applied', minimum=2))
        run.guard("C14.1.piece-provenance", cfg, lambda: rule_pieces(run, F, cfg))
        run.guard("C14.2.inverse-constants", cfg, lambda: rule_constants(run, F, cfg))
        run.guard("C14.3.removal-condition", cfg, lambda: rule_removal(run, F, cfg))
        run.guard("C14.4.important-suppresses", cfg, lambda: rule_important(run, F, cfg))
        run.guard("C14.5.option-parse", cfg, lambda: rule_option(run, F, cfg))
        from . import C01 as _C01, C03 as _C03, C05 as _C05
        b1 = run.borrow("C01", only=r"removeparam", why="a removeparam rule indexed under a token the URL lacks is never applied")
        run.guard("C14.via.C01.1.token-source", cfg, lambda: _C01.rule_removeparam_tokens(b1, F, cfg))
        run.guard("C14.via.C01.1.token-source/sources", cfg, lambda: _C01.rule_token_sources(b1, F, cfg))
        b1a = run.borrow("C01", only=r"add_filter", why="a removeparam rule added to a live engine is filed under every one of its `$domain=` entries")
        run.guard("C14.via.C01.1.token-source", cfg + "/add_filter", lambda: _C01.rule_store(b1a, F, cfg))
        b1c = run.borrow("C01", only=r"token-limit", why="a removeparam rule is filed under its parameter name: the parameter's token must be among the request tokens that are looked up (C01's premise of fewer than 127 URL tokens is inherited, not weakened)")
        run.guard("C14.via.C01.4.token-boundary", cfg, lambda: _C01.rule_boundary(b1c, F, cfg))
        b2 = run.borrow("C03", only=r"IS_REMOVEPARAM|negated-types-removed-last",
                        why="removeparam rules default to document / subdocument / xhr requests")
        run.guard("C14.via.C03.8.implicit-types", cfg, lambda: _C03.rule_implicit_types(b2, F, cfg))
        b3 = run.borrow("C05", only=r"removeparam", why="removeparam rules are never fused")
        run.guard("C14.via.C05.3.what-is-optimised", cfg, lambda: _C05.rule_what(b3, F, cfg))
        from . import C04 as _C04
        b4 = run.borrow("C04", only=r"removeparam|loop-runs", why="a removeparam rule must reach the removeparam list whatever else it carries")
        run.guard("C14.via.C04.1.routing", cfg, lambda: _C04.rule_routing(b4, F, cfg))
        from . import C07 as _C07g
        bg = run.borrow("C07", only=r"check_all", why="every matching rule of the list is collected by check_all")
        run.guard("C14.via.C07.2.gate-shape", cfg, lambda: _C07g.rule_gate_shape(bg, F, cfg))
        btc = run.borrow("C01", why="the rewrite is claimed for every query string, also those with 127 or more URL tokens")
        run.guard("C14.via.C01.4.token-boundary/unbounded", cfg, lambda: _C01.rule_token_cap_unbounded(btc, F, cfg))


def rule_pieces(run, F, cfg):
    with F.fn(AR).normalised():
        _rule_pieces(run, F, cfg)


def _rule_pieces(run, F, cfg):
    f = F.fn(AR)
    run.touched(f)
    idx = f.calls(r"as std::ops::Index<.*>>::index$")
    bases = set(f.expr_operand(t["args"][0]) for b, t in idx)
    run.ob("C14.1.piece-provenance", "all-slices-of-original_url", bases == {"arg:request.original_url"} and len(idx) >= 4,
           f"every slice in apply_removeparam is a slice of request.original_url ({len(idx)} slices; bases {sorted(bases)})",
           site=f.loc(idx[0][0]) if idx else "", config=cfg)
    ranges = [f.expr_operand(t["args"][1]) for b, t in idx]
    head = any(re.match(r"^std::ops::(Range::Range\{start: 0, |RangeTo::RangeTo\{)end: memchr::memchr\(63, .*arg:request\.original_url.*\)@Some\.0\}$", r)
               for r in ranges)
    run.ob("C14.1.piece-provenance", "head=url[0..first-?]", head,
           "the kept head is url[0..i] with i = memchr('?', <prefix of url>)", config=cfg)
    # the '?' that starts the query is searched only BEFORE the first '#': a '?' inside the fragment is not a query
    qs = [f.expr_operand(t["args"][1]) for b, t in f.calls(r"^memchr::memchr$") if f.expr_operand(t["args"][0]) == "63"]
    FRAG = (r"std::option::Option::unwrap_or\(memchr::memchr\(35, arg:request\.original_url\), "
            r"(std::string::String|core::str)::len\(arg:request\.original_url\)\)")
    ok_q = len(qs) == 1 and bool(re.match(r"^<std::string::String as std::ops::Index<I>>::index\(arg:request\.original_url, "
                                          r"std::ops::RangeTo::RangeTo\{end: " + FRAG + r"\}\)$", qs[0]))
    run.ob("C14.1.piece-provenance", "query-starts-before-fragment", ok_q,
           "the `?` that opens the query is searched in url[..f] where f is the first `#` (or the end): in "
           "`https://host/#frag?x=1` the `?x=1` is part of the fragment, which must be preserved byte for byte "
           f"(haystack of the `?` search: {[q_[:140] for q_ in qs]})", site=f.loc(0), config=cfg)
    tail = [r for r in ranges if r.startswith("std::ops::RangeFrom::RangeFrom{start: φ{")]
    ok_t = False
    for r in tail:
        ok_t = "memchr::memchr(35," in r and "core::str::len(arg:request.original_url)" in r or \
               ("memchr::memchr(35," in r and "String::len(arg:request.original_url)" in r)
    run.ob("C14.1.piece-provenance", "tail=url[hash_index..]", ok_t,
           "the kept tail is url[hash_index..] with hash_index = (i+1) + memchr('#', url[i+1..]) or url.len()",
           config=cfg, detail="; ".join(t[:200] for t in tail))
    # the '#' search is performed on url[i+1..]
    hs = f.calls(r"^memchr::memchr$")
    ok_h = any(f.expr_operand(t["args"][0]) == "35" and "RangeFrom{start: (" + "memchr::memchr(63" in f.expr_operand(t["args"][1])
               for b, t in hs)
    run.ob("C14.1.piece-provenance", "hash-searched-after-?", ok_h,
           "'#' is searched in url[i+1..] (a '#' before the '?' cannot be taken for the fragment start)", config=cfg)
    sp = f.calls(r"^core::str::split$")
    se = f.expr_operand(sp[0][1]["args"][0]) if sp else ""
    ok_s = len(sp) == 1 and se.startswith("<std::string::String as std::ops::Index<I>>::index(arg:request.original_url, std::ops::Range::Range{start: (memchr::memchr(63,") \
        and "AddWithOverflow 1).0, end: φ{" in se and "memchr::memchr(35," in se and "len(arg:request.original_url)" in se
    run.ob("C14.1.piece-provenance", "params=split(url[i+1..hash_index])", ok_s,
           "the parameter list is split from url[i+1..hash_index]", config=cfg)
    # final template: three placeholders, no literal text
    fin = [f.expr_operand(t["args"][0]) for b, t in f.calls(r"^std::fmt::Arguments::new$")]
    run.ob("C14.1.piece-provenance", "final-template", 'b"\\xc0\\xc0\\xc0\\x00"' in fin,
           f"the result is format!(\"{{}}{{}}{{}}\", head, params, tail) — three placeholders and no literal text (templates: {fin})",
           config=cfg)
    # original_url is the caller's string
    fd = F.fn("request::Request::from_detailed_parameters")
    run.touched(fd)
    ag = [s for b, i, s in fd.statements() if s["k"] == "assign" and s["rv"]["k"] == "agg" and s["rv"].get("adt") == "request::Request"]
    ok_o = False
    if ag:
        d = dict(zip(ag[0]["rv"]["fields"], ag[0]["rv"]["ops"]))
        e = fd.expr_operand(d["original_url"])
        ok_o = e == "arg:original_url"
    run.ob("C14.1.piece-provenance", "original_url=raw", ok_o,
           "Request.original_url is the `original_url` argument of from_detailed_parameters, unchanged",
           config=cfg)
    nw = F.fn("request::Request::new")
    run.touched(nw)
    calls = nw.calls(r"^request::Request::from_detailed_parameters$")
    params = [v["name"] for v in fd.mir.get("vars", []) if v.get("arg")]
    names = {v["arg"]: v["name"] for v in fd.mir.get("vars", []) if v.get("arg")}
    pos = [k for k, n in names.items() if n == "original_url"]
    ok_n = bool(calls) and bool(pos)
    for b, t in calls:
        a = nw.expr_operand(t["args"][pos[0] - 1]) if pos else "?"
        if a != "arg:url":
            ok_n = False
    run.ob("C14.1.piece-provenance", "new-passes-caller-url", ok_n,
           "Request::new passes the caller's `url` string (not the parsed / normalised URL) as the "
           "`original_url` argument of from_detailed_parameters in every call", site=nw.loc(0), config=cfg,
           detail="the rewritten URL must preserve scheme, host and path byte for byte")


def rule_constants(run, F, cfg):
    f = F.fn(AR)
    sp = f.calls(r"^core::str::split$")
    sep_split = f.expr_operand(sp[0][1]["args"][1]) if sp else "?"
    jn = f.calls(r"^itertools::join$")
    sep_join = f.expr_operand(jn[0][1]["args"][1]) if jn else "?"
    run.ob("C14.2.inverse-constants", "split-vs-join", sep_split == "'&'" and sep_join == '"&"',
           f"parameters are split on {sep_split} and re-joined with {sep_join}", site=f.loc(sp[0][0]) if sp else "", config=cfg)
    so = []
    for c in F.closures_of(AR):
        for b, t in c.calls(r"^core::str::split_once$"):
            so.append(c.expr_operand(t["args"][1]))
    d = [g for n, g in F.fns.items() if n.startswith("<blocker::Blocker::apply_removeparam::QParam") and n.endswith("Display>::fmt")]
    tmpls = {}
    if d:
        for b, t in d[0].calls(r"^std::fmt::Arguments::new$"):
            c = dominating_conditions(d[0], b)
            var = [v for k, v in c.items() if k.startswith("discr(")]
            tmpls[str(var)] = d[0].expr_operand(t["args"][0])
    vals = sorted(tmpls.values())
    ok = so == ["'='"] and vals == ['b"\\xc0\\x00"', 'b"\\xc0\\x01=\\xc0\\x00"']
    run.ob("C14.2.inverse-constants", "split_once-vs-display", ok,
           f"key/value are separated with split_once({so}) and re-assembled with the Display templates {vals} "
           f"(`{{}}` for a bare key, `{{}}={{}}` for a pair)", config=cfg)
    # '?' only if non-empty
    q = [(b, f.expr_operand(t["args"][0])) for b, t in f.calls(r"^std::fmt::Arguments::new$")]
    qb = [b for b, e in q if e == 'b"\\x01?\\xc0\\x00"']
    ok_q = bool(qb) and all(has_cond(dominating_conditions(f, b), r"String::is_empty\(itertools::join", 0) for b in qb)
    run.ob("C14.2.inverse-constants", "question-mark-iff-nonempty", ok_q,
           "the '?' is emitted (template `?{}`) only when the re-joined parameter string is non-empty",
           config=cfg)


def rule_removal(run, F, cfg):
    with F.fn(AR).normalised():
        _rule_removal(run, F, cfg)


def _rule_removal(run, F, cfg):
    n = 0
    ok = True
    for c in F.closures_of(AR):
        for b, i, s in c.statements():
            if s["k"] != "assign" or s["rv"]["k"] != "use":
                continue
            if s["rv"]["op"].get("k") != "const" or c.expr_operand(s["rv"]["op"]) != "false":
                continue
            tgt = c.expr_place(s["pl"])
            if not s["pl"]["p"]:
                continue  # temporaries
            if "up:" in tgt and "rewrite" in tgt:
                continue
            n += 1
            cond = dominating_conditions(c, b)
            kv = any(k.startswith("discr(") and v == 1 for k, v in cond.items())
            nonempty = has_cond(cond, r"core::str::is_empty\(.*KeyValue\.1\)$", 0)
            eq = any(re.search(r"::eq\(.*KeyValue\.0.*up:removeparam", k) and v == 1 for k, v in cond.items())
            if not (kv and nonempty and eq):
                ok = False
    run.floor("C14.3.removal-condition", f"`*include = false` writes [{cfg}]", n, 1)
    run.ob("C14.3.removal-condition", "guards", ok and n >= 1,
           "every `*include = false` is dominated by the KeyValue arm, !value.is_empty() and key == removeparam",
           config=cfg)
    # rewrite flag set together
    f = F.fn(AR)
    rets = conditional_defs(f, 0)
    ok_r = True
    some = 0
    for kind, b, val, conds, _ in rets:
        if "Some" in val:
            some += 1
            flags = [k for k, v in conds.items() if v == 1 and (k in ("false", "true") or "rewrite" in k or k.startswith("φ{"))]
            if not flags:
                ok_r = False
    run.ob("C14.3.removal-condition", "some-only-if-rewritten", ok_r and some == 1,
           f"Some(new_url) is returned only on the branch where the rewrite flag is set ({some} Some result)",
           config=cfg)
    # flag discipline: include starts true, rewrite starts false, they change together, and the filter keeps
    # exactly the entries whose flag is still set
    cls = F.closures_of(AR)
    tup = []
    for c in cls:
        for b, i, st in c.statements():
            if st["k"] == "assign" and st["rv"]["k"] == "agg" and st["rv"].get("agg") == "tuple" and len(st["rv"]["ops"]) == 2:
                tup.append([c.expr_operand(o) for o in st["rv"]["ops"]])
    run.ob("C14.3.removal-condition", "include-starts-true", tup == [["arg:param", "true"]],
           f"every parsed parameter starts as (param, true), i.e. kept ({tup})", config=cfg)
    # the flag, by role: the captured boolean that the removal closure sets to true
    flag = None
    for c in cls:
        for b, i, st in c.statements():
            if st["k"] == "assign" and st["rv"]["k"] == "use" and st["rv"]["op"].get("k") == "const" and st["pl"]["p"] \
                    and c.expr_operand(st["rv"]["op"]) == "true" and c.expr_place(st["pl"]).startswith("up:"):
                flag = c.expr_place(st["pl"])[3:]
    rw = [l for l, nme in f.varnames.items() if nme == flag]
    inits = []
    for b, i, st in f.statements():
        if st["k"] == "assign" and not st["pl"]["p"] and rw and st["pl"]["l"] == rw[0]:
            inits.append(f.expr_rvalue(st["rv"]))
    run.ob("C14.3.removal-condition", "rewrite-starts-false", len(rw) == 1 and inits == ["false"],
           f"the `rewrite` flag is initialised to false and never assigned directly afterwards ({inits})", config=cfg)
    together = True
    n_inc = n_rw = 0
    for c in cls:
        inc_blocks, rw_blocks = [], []
        for b, i, st in c.statements():
            if st["k"] != "assign" or st["rv"]["k"] != "use" or st["rv"]["op"].get("k") != "const" or not st["pl"]["p"]:
                continue
            tgt, val = c.expr_place(st["pl"]), c.expr_operand(st["rv"]["op"])
            if tgt == "up:" + str(flag):
                rw_blocks.append((b, val))
            elif val in ("true", "false"):
                inc_blocks.append((b, val))
        n_inc += len(inc_blocks)
        n_rw += len(rw_blocks)
        if sorted(b for b, v in inc_blocks) != sorted(b for b, v in rw_blocks):
            together = False
        if any(v != "true" for b, v in rw_blocks) or any(v != "false" for b, v in inc_blocks):
            together = False
    run.ob("C14.3.removal-condition", "flags-change-together", together and n_inc == n_rw == 1,
           f"`rewrite = true` is written exactly where `*include = false` is (same block), and nowhere else "
           f"({n_inc} include writes, {n_rw} rewrite writes)", config=cfg)
    # the switch on `rewrite`: Some only on the non-zero side
    def _is_rw(b, op):
        if op.get("k") not in ("copy", "move") or op["pl"]["p"]:
            return False
        if op["pl"]["l"] == rw[0]:
            return True
        # a temporary copied from the flag in the same block
        for st in f.blocks[b]["s"]:
            if st["k"] == "assign" and not st["pl"]["p"] and st["pl"]["l"] == op["pl"]["l"] and st["rv"]["k"] == "use":
                o2 = st["rv"]["op"]
                return o2.get("k") in ("copy", "move") and not o2["pl"]["p"] and o2["pl"]["l"] == rw[0]
        return False

    sw = [(b, f.blocks[b]["t"]) for b in sorted(f.normal_blocks())
          if f.blocks[b]["t"]["k"] == "switch" and rw and _is_rw(b, f.blocks[b]["t"]["discr"])]
    somes = [b for b, i, st in f.statements() if st["k"] == "assign" and st["rv"]["k"] == "agg"
             and st["rv"].get("adt") == "std::option::Option" and st["rv"].get("variant") == "Some"]
    ok_sw = len(sw) == 1 and len(somes) == 1
    if ok_sw:
        b, t = sw[0]
        zero = [tb for v, tb in t["targets"] if v == 0]
        nonzero = [tb for v, tb in t["targets"] if v != 0] + ([t["otherwise"]] if t.get("otherwise") is not None else [])
        ok_sw = len(zero) == 1 and all(f.dominates(nz, somes[0]) or nz == somes[0] for nz in nonzero) \
            and somes[0] not in f.reachable_from(zero[0])
    run.ob("C14.3.removal-condition", "some-iff-rewrite-flag", ok_sw,
           "the single Some(new_url) is built on the `rewrite == true` side of the single test of that flag and is "
           "unreachable from the false side", config=cfg)
    # ... and the only ways to report "no rewrite": no `?` before the fragment, or nothing was removed
    nones = [b for b, i, st in f.statements() if st["k"] == "assign" and st["pl"]["l"] == 0 and not st["pl"]["p"]
             and st["rv"]["k"] == "agg" and st["rv"].get("adt") == "std::option::Option" and st["rv"].get("variant") == "None"]
    qsw = [(b, f.blocks[b]["t"]) for b in sorted(f.normal_blocks()) if f.blocks[b]["t"]["k"] == "switch"
           and re.match(r"^discr\(memchr::memchr\(63, ", f.expr_operand(f.blocks[b]["t"]["discr"]))]
    ok_n = len(sw) == 1 and len(qsw) == 1 and bool(nones)
    stray = []
    if ok_n:
        t = sw[0][1]
        rw_false = [tb for v, tb in t["targets"] if v == 0]
        qt = qsw[0][1]
        found = [tb for v, tb in qt["targets"] if v == 1]
        not_found = [tb for v, tb in qt["targets"] if v != 1] + ([qt["otherwise"]] if qt.get("otherwise") is not None else [])
        not_found = [x for x in not_found if x not in found and not f.blocks[x].get("cleanup")
                     and f.blocks[x]["t"]["k"] != "unreachable"]
        for nb in nones:
            if any(x == nb or f.dominates(x, nb) for x in rw_false + not_found):
                continue
            stray.append(f.loc(nb))
        ok_n = not stray and len(rw_false) == 1
    run.ob("C14.3.removal-condition", "none-only-without-query-or-removal", ok_n,
           f"apply_removeparam answers None ({len(nones)} sites) only where no `?` precedes the fragment or where the "
           f"`rewrite` flag is false after all matching rules were applied; other None exits: {stray}",
           site=stray[0] if stray else f.loc(0), config=cfg,
           detail="an additional early `return None` (a length / shape shortcut on the query string) suppresses "
                  "rewrites for the inputs it misjudges")
    flt = f.calls(r"^std::iter::Iterator::filter$")
    # the closure handed to that filter (identified by the call, not by its position among the function's closures)
    fnames = set(re.findall(r"closure\[([^\]]+)\]", " ".join(f.expr_operand(t["args"][1]) for b, t in flt if len(t["args"]) > 1)))
    keep = [c.expr_local(0) for c in cls if c.name in fnames]
    nots = [1 for c in cls if c.name in fnames for b, i, st in c.statements()
            if st["k"] == "assign" and st["rv"]["k"] == "unop"]
    run.ob("C14.3.removal-condition", "filter-keeps-included", keep == ["arg:2.1"] and not nots and len(flt) == 1,
           f"the re-join keeps exactly the entries whose include flag is true (filter closure returns {keep}, "
           f"no negation)", config=cfg)
    # all removeparam filters are consulted
    ca = f.calls(r"^network_filter_list::NetworkFilterList::check_all$")
    run.ob("C14.3.removal-condition", "check_all", len(ca) == 1 and f.expr_operand(ca[0][1]["args"][0]) == "arg:removeparam_filters",
           "all matching removeparam rules are collected with check_all on the removeparam list", config=cfg)


def rule_important(run, F, cfg):
    f = F.fn("blocker::Blocker::check_parameterised")
    run.touched(f)
    cs = f.calls(r"^blocker::Blocker::apply_removeparam$")
    ok = len(cs) == 1
    if ok:
        b, t = cs[0]
        c = dominating_conditions(f, b)
        # the guard is exactly the value reported as BlockerResult.important, and nothing else
        # (besides the is_supported early return and loop exits) stands between a query and the rewrite
        e_imp = None
        for bb, i, st in f.statements():
            if st["k"] == "assign" and st["rv"]["k"] == "agg" and st["rv"].get("adt") == "blocker::BlockerResult":
                for fname, op in zip(st["rv"]["fields"], st["rv"]["ops"]):
                    if fname == "important":
                        e_imp = f.expr_operand(op)
        cl_imp = any(g.calls(r"::is_important$") for g in [f] + F.closures_of(f.name))
        others = [k for k, v in c.items()
                  if not (k == e_imp and v == 0)
                  and not (k == "arg:request.is_supported" and v == 1)
                  and not re.match(r"^discr\(<[^()]*Iterator>::next\(", k)]
        ok = e_imp is not None and c.get(e_imp) == 0 and cl_imp and not others
        detail = f"important = {str(e_imp)[:160]}; other guards: {[o[:120] for o in others]}"
        ok = ok and f.expr_operand(t["args"][0]).endswith(".removeparam")
    run.ob("C14.4.important-suppresses", "call-guarded", ok,
           "apply_removeparam(self.removeparam, ..) is called exactly when the value reported as "
           "BlockerResult.important is false (no other verdict bit suppresses the rewrite)",
           site=f.loc(cs[0][0]) if cs else "", config=cfg, detail=detail if cs else "")
    callers = sorted(set(g.name for g, b, t in F.callers_of(r"^blocker::Blocker::apply_removeparam$")))
    run.ob("C14.4.important-suppresses", "single-caller", callers == ["blocker::Blocker::check_parameterised"],
           f"apply_removeparam has a single caller ({callers})", config=cfg)


def rule_option(run, F, cfg):
    """`$removeparam=name`: negation, empty value and regex-like values are rejected; the stored parameter is
    the option value, verbatim."""
    from .C03 import option_arms
    arms = option_arms(F).get("removeparam", set())
    want = {"Removeparam", "Err:NegatedRemoveparam", "Err:EmptyRemoveparam", "Err:RemoveparamRegexUnsupported"}
    run.ob("C14.5.option-parse", "arms", set(arms) == want,
           f"parse_filter_options maps `removeparam` to {sorted(arms)} (expected {sorted(want)})", config=cfg)
    f = F.fn("filters::abstract_network::parse_filter_options")
    run.touched(f)
    aggs = [(b, st) for b, i, st in f.statements()
            if st["k"] == "assign" and st["rv"]["k"] == "agg" and st["rv"].get("variant") == "Removeparam"
            and str(st["rv"].get("adt", "")).endswith("NetworkFilterOption")]
    ok = len(aggs) == 1
    detail = ""
    if ok:
        b, st = aggs[0]
        val = f.vexpr_operand(st["rv"]["ops"][0])
        c = dominating_conditions(f, b, render=f.vexpr_operand)
        nonempty = c.get("core::str::is_empty($value)") == 0
        valid = any(re.search(r"Regex::is_match\(.*VALID_PARAM\), \$value\)$", k) and v == 1 for k, v in c.items())
        ok = nonempty and valid and bool(re.search(r"From<&str>>::from\(\$value\)$|to_string\(\$value\)$|to_owned\(\$value\)$", val))
        detail = f"value = {val}; non-empty guard {nonempty}; VALID_PARAM guard {valid}"
    run.ob("C14.5.option-parse", "value-verbatim-and-validated", ok,
           "Removeparam(value) stores the option value unchanged, only when it is non-empty and matches VALID_PARAM "
           "(a plain parameter name: regex / literal-with-special-characters forms are unsupported and rejected)",
           site=f.loc(aggs[0][0]) if aggs else f.loc(0), config=cfg, detail=detail)
    # NetworkFilter::parse (the option loop is a closure over `mask` / `modifier_option`)
    g = F.fn("filters::network::NetworkFilter::parse")
    vi = _variant_index(F, "Removeparam")
    sets, stores = [], []
    for h in [g] + F.closures_of(g.name):
        for b, t in h.calls(r"::set$"):
            if "IS_REMOVEPARAM" in h.vexpr_operand(t["args"][1]):
                c = dominating_conditions(h, b, render=h.vexpr_operand)
                sets.append((h.vexpr_operand(t["args"][0]), h.vexpr_operand(t["args"][2]),
                             any(k.startswith("discr(") and v == vi for k, v in c.items())))
        for b, i, st in h.statements():
            if st["k"] != "assign" or not re.search(r"(up:|\$)modifier_option$", h.vexpr_place(st["pl"])):
                continue
            val = h.expr_rvalue(st["rv"])       # flow-insensitive provenance: names the option payload
            if not val.startswith("std::option::Option::Some{"):
                continue
            c = dominating_conditions(h, b, render=h.vexpr_operand)
            if any(k.startswith("discr(") and v == vi for k, v in c.items()):
                stores.append(val)
    ok = len(sets) == 1 and sets[0][1] == "true" and sets[0][2] and len(stores) == 1 \
        and bool(re.search(r"@Removeparam\.0\}$", stores[0]))
    run.ob("C14.5.option-parse", "mask-and-name-set-together", ok,
           f"the Removeparam arm of NetworkFilter::parse sets IS_REMOVEPARAM and stores the option's own value in "
           f"modifier_option (flag sets {sets}, stores {stores})", config=cfg)


def _variant_index(F, name):
    adt = F.adts.get("filters::abstract_network::NetworkFilterOption")
    names = [v["name"] for v in adt["variants"]] if adt else []
    return names.index(name) if name in names else -1
