#!/bin/bash
# MANIFEST.setup_cmd: build the fact-extraction driver (offline, nightly toolchain) and warm the
# dependency check of the configurations the quick tier analyses.
set -e
cd "$(dirname "$0")"
export CARGO_NET_OFFLINE=true
(cd adbfacts && cargo build --offline --release 2>&1 | tail -3)
test -x adbfacts/target/release/adbfacts
(cd rxcheck && cargo build --offline --release 2>&1 | tail -3)
test -x rxcheck/target/release/rxcheck
mkdir -p .cache evidence/violations
python3 analysis/extract.py A B C D E
echo "setup ok"
