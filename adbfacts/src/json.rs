// Minimal JSON value + writer (the driver has no Cargo dependencies).
use std::fmt::Write as _;

pub enum J {
    Null,
    B(bool),
    I(i128),
    S(String),
    A(Vec<J>),
    O(Vec<(String, J)>),
}

impl From<bool> for J {
    fn from(b: bool) -> J {
        J::B(b)
    }
}
impl From<i128> for J {
    fn from(i: i128) -> J {
        J::I(i)
    }
}
impl From<String> for J {
    fn from(s: String) -> J {
        J::S(s)
    }
}
impl From<&str> for J {
    fn from(s: &str) -> J {
        J::S(s.to_string())
    }
}

fn esc(s: &str, out: &mut String) {
    out.push('"');
    for c in s.chars() {
        match c {
            '"' => out.push_str("\\\""),
            '\\' => out.push_str("\\\\"),
            '\n' => out.push_str("\\n"),
            '\r' => out.push_str("\\r"),
            '\t' => out.push_str("\\t"),
            c if (c as u32) < 0x20 => {
                let _ = write!(out, "\\u{:04x}", c as u32);
            }
            c => out.push(c),
        }
    }
    out.push('"');
}

impl J {
    pub fn write(&self, out: &mut String) {
        match self {
            J::Null => out.push_str("null"),
            J::B(b) => out.push_str(if *b { "true" } else { "false" }),
            J::I(i) => {
                let _ = write!(out, "{}", i);
            }
            J::S(s) => esc(s, out),
            J::A(v) => {
                out.push('[');
                for (i, x) in v.iter().enumerate() {
                    if i > 0 {
                        out.push(',');
                    }
                    x.write(out);
                }
                out.push(']');
            }
            J::O(v) => {
                out.push('{');
                for (i, (k, x)) in v.iter().enumerate() {
                    if i > 0 {
                        out.push(',');
                    }
                    esc(k, out);
                    out.push(':');
                    x.write(out);
                }
                out.push('}');
            }
        }
    }
}
