// adbfacts — rustc_private driver that exports the type-checked program of the local crate
// (MIR bodies with resolved callees, ADTs, impls, consts, statics) as one JSON fact file.
// It contains NO rule: every verdict is computed by /verif/analysis over these facts.
//
// Usage (see /verif/analysis/extract.py):
//   ADBFACTS_OUT=<file> ADBFACTS_CRATE=adblock RUSTC_WORKSPACE_WRAPPER=<this binary> \
//   RUSTFLAGS="-Zmir-opt-level=0 -Awarnings" cargo +nightly check --offline --lib
#![feature(rustc_private)]
#![allow(unused)]

extern crate rustc_abi;
extern crate rustc_driver;
extern crate rustc_hir;
extern crate rustc_infer;
extern crate rustc_interface;
extern crate rustc_middle;
extern crate rustc_session;
extern crate rustc_span;
extern crate rustc_trait_selection;

use std::collections::{BTreeMap, BTreeSet, HashSet};
use std::fmt::Write as _;

use rustc_hir::def::DefKind;
use rustc_hir::def_id::{DefId, LocalDefId, LOCAL_CRATE};
use rustc_middle::mir::*;
use rustc_middle::ty::print::with_no_trimmed_paths;
use rustc_middle::ty::{self, Instance, Ty, TyCtxt, TypingEnv};
use rustc_span::Span;

mod json;
use json::J;

macro_rules! obj {
    ($($k:expr => $v:expr),* $(,)?) => {
        J::O(vec![$(($k.to_string(), J::from($v))),*])
    };
}

struct Cb;

impl rustc_driver::Callbacks for Cb {
    fn after_analysis<'tcx>(
        &mut self,
        _compiler: &rustc_interface::interface::Compiler,
        tcx: TyCtxt<'tcx>,
    ) -> rustc_driver::Compilation {
        let want = std::env::var("ADBFACTS_CRATE").unwrap_or_else(|_| "adblock".to_string());
        let out = match std::env::var("ADBFACTS_OUT") {
            Ok(o) => o,
            Err(_) => return rustc_driver::Compilation::Continue,
        };
        let name = tcx.crate_name(LOCAL_CRATE).to_string();
        if name != want {
            return rustc_driver::Compilation::Continue;
        }
        if tcx.sess.opts.test {
            return rustc_driver::Compilation::Continue;
        }
        let facts = export(tcx);
        let mut s = String::with_capacity(64 << 20);
        facts.write(&mut s);
        // one write per process
        let tmp = format!("{}.tmp.{}", out, std::process::id());
        std::fs::write(&tmp, s).expect("adbfacts: cannot write fact file");
        std::fs::rename(&tmp, &out).expect("adbfacts: cannot rename fact file");
        rustc_driver::Compilation::Continue
    }
}

fn main() {
    let mut args: Vec<String> = std::env::args().collect();
    // RUSTC_WORKSPACE_WRAPPER: argv = [driver, rustc, args...]
    if args.len() > 1 && (args[1].ends_with("rustc") || args[1].contains("/rustc")) {
        args.remove(1);
    }
    rustc_driver::run_compiler(&args, &mut Cb);
}

fn tystr<'tcx>(ty: Ty<'tcx>) -> String {
    with_no_trimmed_paths!(ty.to_string())
}

thread_local! {
    /// local definitions whose printed path is not unique (items declared in different blocks of one function,
    /// e.g. the `__SerializeWith` wrappers serde derives per field): DefId -> `#k` suffix, k = position in source order
    static COLLIDING: std::cell::RefCell<std::collections::HashMap<DefId, String>> = std::cell::RefCell::new(std::collections::HashMap::new());
}

fn plain_path<'tcx>(tcx: TyCtxt<'tcx>, did: DefId) -> String {
    with_no_trimmed_paths!(tcx.def_path_str(did))
}

fn path<'tcx>(tcx: TyCtxt<'tcx>, did: DefId) -> String {
    let s = plain_path(tcx, did);
    match COLLIDING.with(|c| c.borrow().get(&did).cloned()) {
        Some(suffix) => s + &suffix,
        None => s,
    }
}

fn index_colliding_paths<'tcx>(tcx: TyCtxt<'tcx>, defs: &[LocalDefId]) {
    let mut by_name: std::collections::BTreeMap<String, Vec<LocalDefId>> = std::collections::BTreeMap::new();
    for d in defs {
        // (a tuple struct and its constructor, a field and a variable, ... share a printed path by design)
        if !matches!(
            tcx.def_kind(d.to_def_id()),
            DefKind::Fn | DefKind::AssocFn | DefKind::Closure | DefKind::Struct | DefKind::Enum | DefKind::Union
        ) {
            continue;
        }
        by_name.entry(plain_path(tcx, d.to_def_id())).or_default().push(*d);
    }
    let mut map = std::collections::HashMap::new();
    for (_, mut ds) in by_name {
        if ds.len() < 2 {
            continue;
        }
        ds.sort_by_key(|d| tcx.def_span(d.to_def_id()).lo());
        for (k, d) in ds.iter().enumerate() {
            map.insert(d.to_def_id(), format!("#{}", k));
        }
    }
    COLLIDING.with(|c| *c.borrow_mut() = map);
}

fn span_loc<'tcx>(tcx: TyCtxt<'tcx>, span: Span) -> String {
    let sp = if span.from_expansion() { span.source_callsite() } else { span };
    tcx.sess.source_map().span_to_diagnostic_string(sp)
}

fn span_macros(span: Span) -> Vec<String> {
    if !span.from_expansion() {
        return vec![];
    }
    span.macro_backtrace().map(|d| format!("{:?}", d.kind)).collect()
}

fn span_json<'tcx>(tcx: TyCtxt<'tcx>, span: Span) -> J {
    let m = span_macros(span);
    if m.is_empty() {
        J::S(span_loc(tcx, span))
    } else {
        obj! {"at" => span_loc(tcx, span), "exp" => J::A(m.into_iter().map(J::S).collect())}
    }
}

struct Cx<'a, 'tcx> {
    tcx: TyCtxt<'tcx>,
    body: &'a Body<'tcx>,
    def: DefId,
    env: TypingEnv<'tcx>,
}

impl<'a, 'tcx> Cx<'a, 'tcx> {
    fn place(&self, place: Place<'tcx>) -> J {
        let tcx = self.tcx;
        let mut proj = vec![];
        for (base, elem) in place.iter_projections() {
            let j = match elem {
                ProjectionElem::Deref => J::S("*".into()),
                ProjectionElem::Field(f, fty) => {
                    let bty = base.ty(self.body, tcx);
                    match bty.ty.kind() {
                        ty::Adt(adt, _) => {
                            let v = bty.variant_index.unwrap_or(rustc_abi::FIRST_VARIANT);
                            let vd = adt.variant(v);
                            let fname = vd.fields[f].name.to_string();
                            obj! {"f" => f.as_usize() as i128, "n" => fname, "adt" => path(tcx, adt.did()), "v" => vd.name.to_string()}
                        }
                        ty::Tuple(_) => obj! {"f" => f.as_usize() as i128, "tuple" => true},
                        ty::Closure(did, _) => {
                            obj! {"f" => f.as_usize() as i128, "upvar_of" => path(tcx, *did)}
                        }
                        _ => obj! {"f" => f.as_usize() as i128, "base" => tystr(bty.ty)},
                    }
                }
                ProjectionElem::Index(l) => obj! {"index" => l.as_usize() as i128},
                ProjectionElem::ConstantIndex { offset, min_length, from_end } => {
                    obj! {"cidx" => offset as i128, "min" => min_length as i128, "from_end" => from_end}
                }
                ProjectionElem::Subslice { from, to, from_end } => {
                    obj! {"subslice" => from as i128, "to" => to as i128, "from_end" => from_end}
                }
                ProjectionElem::Downcast(name, idx) => {
                    obj! {"downcast" => name.map(|s| s.to_string()).unwrap_or_default(), "vi" => idx.as_usize() as i128}
                }
                other => J::S(format!("{:?}", other)),
            };
            proj.push(j);
        }
        obj! {"l" => place.local.as_usize() as i128, "p" => J::A(proj)}
    }

    fn constant(&self, c: &ConstOperand<'tcx>) -> J {
        let tcx = self.tcx;
        let ty = c.const_.ty();
        let mut o: Vec<(String, J)> = vec![("k".into(), J::S("const".into()))];
        o.push(("ty".into(), J::S(tystr(ty))));
        let repr = with_no_trimmed_paths!(format!("{}", c.const_));
        o.push(("repr".into(), J::S(truncate(repr, 400))));
        if let ty::FnDef(did, args) = ty.kind() {
            let (res, decl, gen) = self.resolve(*did, args);
            o.push(("fn".into(), J::S(res)));
            o.push(("decl".into(), J::S(decl)));
            o.push(("gen".into(), J::A(gen.into_iter().map(J::S).collect())));
        }
        if let ty::Closure(did, _) = ty.kind() {
            o.push(("closure".into(), J::S(path(tcx, *did))));
        }
        if let Const::Unevaluated(uv, _) = c.const_ {
            o.push(("def".into(), J::S(path(tcx, uv.def))));
            if let Some(p) = uv.promoted {
                o.push(("promoted".into(), J::I(p.as_usize() as i128)));
            }
        }
        if let Ok(val) = c.const_.eval(tcx, self.env, c.span) {
            if let Some(j) = const_value(tcx, self.env, val, ty, 0) {
                o.push(("val".into(), j));
            }
        }
        J::O(o)
    }

    fn resolve(&self, did: DefId, args: ty::GenericArgsRef<'tcx>) -> (String, String, Vec<String>) {
        let tcx = self.tcx;
        let decl = path(tcx, did);
        let gen: Vec<String> =
            args.iter().map(|a| with_no_trimmed_paths!(a.to_string())).collect();
        let res = match Instance::try_resolve(tcx, self.env, did, args) {
            Ok(Some(inst)) => {
                let rd = inst.def_id();
                let mut p = path(tcx, rd);
                match inst.def {
                    ty::InstanceKind::Item(_) => {}
                    ty::InstanceKind::Virtual(..) => p = format!("{} [virtual]", p),
                    ty::InstanceKind::ClosureOnceShim { .. } => {}
                    ty::InstanceKind::FnPtrShim(..) => p = format!("{} [fnptr-shim]", p),
                    _ => {}
                }
                p
            }
            _ => decl.clone(),
        };
        (res, decl, gen)
    }

    fn operand(&self, op: &Operand<'tcx>) -> J {
        match op {
            Operand::Copy(p) => obj! {"k" => "copy", "pl" => self.place(*p)},
            Operand::Move(p) => obj! {"k" => "move", "pl" => self.place(*p)},
            Operand::Constant(c) => self.constant(c),
            other => obj! {"k" => "other", "dbg" => format!("{:?}", other)},
        }
    }

    fn rvalue(&self, rv: &Rvalue<'tcx>) -> J {
        let tcx = self.tcx;
        match rv {
            Rvalue::Use(op, ..) => obj! {"k" => "use", "op" => self.operand(op)},
            Rvalue::Repeat(op, n) => {
                obj! {"k" => "repeat", "op" => self.operand(op), "n" => with_no_trimmed_paths!(n.to_string())}
            }
            Rvalue::Ref(_, bk, p) => {
                let m = match bk {
                    BorrowKind::Shared => "shared",
                    BorrowKind::Fake(_) => "fake",
                    BorrowKind::Mut { .. } => "mut",
                };
                obj! {"k" => "ref", "bk" => m, "pl" => self.place(*p)}
            }
            Rvalue::RawPtr(_, p) => obj! {"k" => "rawptr", "pl" => self.place(*p)},
            Rvalue::Cast(kind, op, ty) => {
                obj! {"k" => "cast", "ck" => format!("{:?}", kind), "op" => self.operand(op), "ty" => tystr(*ty)}
            }
            Rvalue::BinaryOp(bop, ops) => {
                obj! {"k" => "binop", "op" => format!("{:?}", bop), "a" => self.operand(&ops.0), "b" => self.operand(&ops.1)}
            }
            Rvalue::UnaryOp(uop, op) => {
                obj! {"k" => "unop", "op" => format!("{:?}", uop), "a" => self.operand(op)}
            }
            Rvalue::Discriminant(p) => {
                let pty = p.ty(self.body, tcx).ty;
                obj! {"k" => "discr", "pl" => self.place(*p), "ty" => tystr(pty)}
            }
            Rvalue::Aggregate(kind, ops) => {
                let mut o: Vec<(String, J)> = vec![("k".into(), J::S("agg".into()))];
                match &**kind {
                    AggregateKind::Array(t) => {
                        o.push(("agg".into(), J::S("array".into())));
                        o.push(("ty".into(), J::S(tystr(*t))));
                    }
                    AggregateKind::Tuple => o.push(("agg".into(), J::S("tuple".into()))),
                    AggregateKind::Adt(did, vidx, args, _, active) => {
                        let adt = tcx.adt_def(*did);
                        let vd = adt.variant(*vidx);
                        o.push(("agg".into(), J::S("adt".into())));
                        o.push(("adt".into(), J::S(path(tcx, *did))));
                        o.push(("variant".into(), J::S(vd.name.to_string())));
                        o.push((
                            "fields".into(),
                            J::A(vd.fields.iter().map(|f| J::S(f.name.to_string())).collect()),
                        ));
                        if let Some(a) = active {
                            o.push(("active".into(), J::I(a.as_usize() as i128)));
                        }
                    }
                    AggregateKind::Closure(did, _) => {
                        o.push(("agg".into(), J::S("closure".into())));
                        o.push(("closure".into(), J::S(path(tcx, *did))));
                    }
                    other => {
                        o.push(("agg".into(), J::S("other".into())));
                        o.push(("dbg".into(), J::S(format!("{:?}", other))));
                    }
                }
                o.push(("ops".into(), J::A(ops.iter().map(|op| self.operand(op)).collect())));
                J::O(o)
            }
            Rvalue::CopyForDeref(p) => obj! {"k" => "use", "op" => obj!{"k" => "copy", "pl" => self.place(*p)}, "deref_copy" => true},
            Rvalue::ThreadLocalRef(did) => obj! {"k" => "tls", "def" => path(tcx, *did)},
            other => obj! {"k" => "other", "dbg" => truncate(format!("{:?}", other), 300)},
        }
    }

    fn body_json(&self) -> J {
        let tcx = self.tcx;
        let body = self.body;
        let mut locals = vec![];
        for (_l, decl) in body.local_decls.iter_enumerated() {
            locals.push(J::S(tystr(decl.ty)));
        }
        let mut vars = vec![];
        for v in &body.var_debug_info {
            let val = match &v.value {
                VarDebugInfoContents::Place(p) => self.place(*p),
                VarDebugInfoContents::Const(c) => self.constant(c),
            };
            vars.push(obj! {"name" => v.name.to_string(), "v" => val, "arg" => v.argument_index.map(|i| i as i128).unwrap_or(0)});
        }
        let mut blocks = vec![];
        for (_bb, data) in body.basic_blocks.iter_enumerated() {
            let mut stmts = vec![];
            for st in &data.statements {
                let j = match &st.kind {
                    StatementKind::Assign(b) => {
                        let (pl, rv) = &**b;
                        Some(obj! {"k" => "assign", "pl" => self.place(*pl), "rv" => self.rvalue(rv), "sp" => span_json(tcx, st.source_info.span)})
                    }
                    StatementKind::SetDiscriminant { place, variant_index } => {
                        Some(obj! {"k" => "setdiscr", "pl" => self.place(**place), "vi" => variant_index.as_usize() as i128, "sp" => span_json(tcx, st.source_info.span)})
                    }
                    StatementKind::Intrinsic(i) => {
                        Some(obj! {"k" => "intrinsic", "dbg" => truncate(format!("{:?}", i), 200)})
                    }
                    _ => None,
                };
                if let Some(j) = j {
                    stmts.push(j);
                }
            }
            let term = data.terminator();
            let sp = span_json(tcx, term.source_info.span);
            let t = match &term.kind {
                TerminatorKind::Goto { target } => obj! {"k" => "goto", "t" => target.as_usize() as i128},
                TerminatorKind::SwitchInt { discr, targets } => {
                    let mut ts = vec![];
                    for (v, bb) in targets.iter() {
                        ts.push(J::A(vec![J::I(v as i128), J::I(bb.as_usize() as i128)]));
                    }
                    let dty = discr.ty(body, tcx);
                    obj! {"k" => "switch", "discr" => self.operand(discr), "dty" => tystr(dty), "targets" => J::A(ts), "otherwise" => targets.otherwise().as_usize() as i128, "sp" => sp}
                }
                TerminatorKind::Return => obj! {"k" => "return", "sp" => sp},
                TerminatorKind::Unreachable => obj! {"k" => "unreachable"},
                TerminatorKind::UnwindResume => obj! {"k" => "resume"},
                TerminatorKind::UnwindTerminate(_) => obj! {"k" => "terminate"},
                TerminatorKind::Drop { place, target, unwind, .. } => {
                    let pty = place.ty(body, tcx).ty;
                    obj! {"k" => "drop", "pl" => self.place(*place), "ty" => tystr(pty), "t" => target.as_usize() as i128, "unwind" => unwind_json(unwind), "sp" => sp}
                }
                TerminatorKind::Call { func, args, destination, target, unwind, .. } => {
                    let mut o: Vec<(String, J)> = vec![("k".into(), J::S("call".into()))];
                    if let Some((did, gargs)) = func.const_fn_def() {
                        let (res, decl, gen) = self.resolve(did, gargs);
                        o.push(("callee".into(), J::S(res)));
                        o.push(("decl".into(), J::S(decl)));
                        o.push(("gen".into(), J::A(gen.into_iter().map(J::S).collect())));
                        o.push(("local".into(), J::B(did.is_local())));
                    } else {
                        o.push(("callee".into(), J::S("<indirect>".into())));
                        o.push(("func".into(), self.operand(func)));
                        let fty = func.ty(body, tcx);
                        o.push(("fty".into(), J::S(tystr(fty))));
                    }
                    o.push(("args".into(), J::A(args.iter().map(|a| self.operand(&a.node)).collect())));
                    o.push(("dest".into(), self.place(*destination)));
                    o.push(("t".into(), target.map(|t| J::I(t.as_usize() as i128)).unwrap_or(J::Null)));
                    o.push(("unwind".into(), unwind_json(unwind)));
                    o.push(("sp".into(), sp));
                    J::O(o)
                }
                TerminatorKind::TailCall { func, args, .. } => {
                    obj! {"k" => "tailcall", "dbg" => truncate(format!("{:?}", func), 200), "sp" => sp}
                }
                TerminatorKind::Assert { cond, expected, msg, target, unwind } => {
                    let (kind, ops): (String, Vec<J>) = match &**msg {
                        AssertKind::BoundsCheck { len, index } => {
                            ("BoundsCheck".into(), vec![self.operand(len), self.operand(index)])
                        }
                        AssertKind::Overflow(op, a, b) => {
                            (format!("Overflow({:?})", op), vec![self.operand(a), self.operand(b)])
                        }
                        AssertKind::OverflowNeg(a) => ("OverflowNeg".into(), vec![self.operand(a)]),
                        AssertKind::DivisionByZero(a) => ("DivisionByZero".into(), vec![self.operand(a)]),
                        AssertKind::RemainderByZero(a) => ("RemainderByZero".into(), vec![self.operand(a)]),
                        other => (truncate(format!("{:?}", other), 80), vec![]),
                    };
                    obj! {"k" => "assert", "cond" => self.operand(cond), "expected" => *expected, "msg" => kind, "ops" => J::A(ops), "t" => target.as_usize() as i128, "unwind" => unwind_json(unwind), "sp" => sp}
                }
                TerminatorKind::FalseEdge { real_target, .. } => obj! {"k" => "goto", "t" => real_target.as_usize() as i128},
                TerminatorKind::FalseUnwind { real_target, .. } => obj! {"k" => "goto", "t" => real_target.as_usize() as i128},
                other => obj! {"k" => "other", "dbg" => truncate(format!("{:?}", other), 200)},
            };
            blocks.push(obj! {"s" => J::A(stmts), "t" => t, "cleanup" => data.is_cleanup});
        }
        obj! {
            "argc" => body.arg_count as i128,
            "locals" => J::A(locals),
            "vars" => J::A(vars),
            "blocks" => J::A(blocks),
        }
    }
}

fn unwind_json(u: &UnwindAction) -> J {
    match u {
        UnwindAction::Cleanup(bb) => J::I(bb.as_usize() as i128),
        _ => J::Null,
    }
}

fn truncate(mut s: String, n: usize) -> String {
    if s.len() > n {
        let mut k = n;
        while !s.is_char_boundary(k) {
            k -= 1;
        }
        s.truncate(k);
        s.push('…');
    }
    s
}

/// Decodes a constant value into JSON where the type is simple enough:
/// integers / bool / char, &str, &[u8], and (by raw bytes) anything with a known layout.
fn const_value<'tcx>(
    tcx: TyCtxt<'tcx>,
    env: TypingEnv<'tcx>,
    val: ConstValue,
    ty: Ty<'tcx>,
    depth: usize,
) -> Option<J> {
    match val {
        ConstValue::Scalar(s) => {
            if let Ok(i) = s.try_to_scalar_int() {
                let bits = i.to_bits(i.size());
                let v = match ty.kind() {
                    ty::Int(_) => i.to_int(i.size()),
                    _ => bits as i128,
                };
                return Some(obj! {"int" => v, "size" => i.size().bytes() as i128});
            }
            if let rustc_middle::mir::interpret::Scalar::Ptr(ptr, _) = s {
                let (prov, off) = ptr.prov_and_relative_offset();
                match tcx.global_alloc(prov.alloc_id()) {
                    rustc_middle::mir::interpret::GlobalAlloc::Static(did) => {
                        return Some(obj! {"static" => path(tcx, did), "off" => off.bytes() as i128});
                    }
                    rustc_middle::mir::interpret::GlobalAlloc::Function { instance } => {
                        return Some(obj! {"fnptr" => path(tcx, instance.def_id())});
                    }
                    rustc_middle::mir::interpret::GlobalAlloc::Memory(alloc) => {
                        // pointer to constant memory: decode the pointee when the type is a reference
                        if depth < 3 {
                            if let ty::Ref(_, inner, _) = ty.kind() {
                                let v = ConstValue::Indirect { alloc_id: prov.alloc_id(), offset: off };
                                if let Some(j) = const_value(tcx, env, v, *inner, depth + 1) {
                                    return Some(obj! {"ref" => j});
                                }
                            }
                        }
                        return None;
                    }
                    _ => return None,
                }
            }
            None
        }
        ConstValue::ZeroSized => Some(obj! {"zst" => true}),
        ConstValue::Slice { .. } => {
            let bytes = val.try_get_slice_bytes_for_diagnostics(tcx)?;
            match std::str::from_utf8(bytes) {
                Ok(s) if matches!(ty.kind(), ty::Ref(_, t, _) if t.is_str()) => {
                    Some(obj! {"str" => s.to_string()})
                }
                _ => Some(obj! {"bytes" => hex(bytes)}),
            }
        }
        ConstValue::Indirect { alloc_id, offset } => {
            let layout = tcx.layout_of(env.as_query_input(ty)).ok()?;
            let size = layout.size;
            if size.bytes() > 1 << 16 {
                return None;
            }
            let alloc = tcx.global_alloc(alloc_id).unwrap_memory();
            let a = alloc.inner();
            let start = offset.bytes() as usize;
            let end = start + size.bytes() as usize;
            if end > a.len() {
                return None;
            }
            let bytes = a.inspect_with_uninit_and_ptr_outside_interpreter(start..end);
            Some(obj! {"raw" => hex(bytes), "size" => size.bytes() as i128})
        }
    }
}

fn hex(b: &[u8]) -> String {
    let mut s = String::with_capacity(b.len() * 2);
    for x in b {
        let _ = write!(s, "{:02x}", x);
    }
    s
}

/// Names of the types reachable from `ty`: local ADTs are entered through their fields,
/// foreign ADTs are recorded by name and entered through their generic arguments only
/// (their semantics are summarised by name in the rule files).
fn reach<'tcx>(tcx: TyCtxt<'tcx>, ty: Ty<'tcx>, out: &mut BTreeSet<String>, seen: &mut HashSet<Ty<'tcx>>) {
    if !seen.insert(ty) {
        return;
    }
    match ty.kind() {
        ty::Adt(def, args) => {
            out.insert(path(tcx, def.did()));
            for a in args.types() {
                reach(tcx, a, out, seen);
            }
            if def.did().is_local() {
                for v in def.variants() {
                    for f in &v.fields {
                        reach(tcx, f.ty(tcx, args), out, seen);
                    }
                }
            }
        }
        ty::RawPtr(t, _) => {
            out.insert("*ptr".into());
            reach(tcx, *t, out, seen);
        }
        ty::Ref(_, t, m) => {
            out.insert(if m.is_mut() { "&mut".into() } else { "&".into() });
            reach(tcx, *t, out, seen);
        }
        ty::Slice(t) | ty::Array(t, _) => reach(tcx, *t, out, seen),
        ty::Tuple(ts) => {
            for t in ts.iter() {
                reach(tcx, t, out, seen);
            }
        }
        ty::FnPtr(..) => {
            out.insert("fnptr".into());
        }
        ty::Dynamic(..) => {
            out.insert(format!("dyn:{}", tystr(ty)));
        }
        ty::Param(p) => {
            out.insert(format!("param:{}", p.name));
        }
        _ => {}
    }
}

fn implements<'tcx>(tcx: TyCtxt<'tcx>, def: DefId, ty: Ty<'tcx>, tr: DefId) -> bool {
    use rustc_infer::infer::TyCtxtInferExt;
    use rustc_trait_selection::infer::InferCtxtExt;
    let infcx = tcx.infer_ctxt().build(ty::TypingMode::non_body_analysis());
    let pe = tcx.param_env(def);
    infcx.type_implements_trait(tr, [ty], pe).must_apply_modulo_regions()
}

fn attrs_json<'tcx>(tcx: TyCtxt<'tcx>, did: LocalDefId) -> J {
    let hir_id = tcx.local_def_id_to_hir_id(did);
    let mut v = vec![];
    for a in tcx.hir_attrs(hir_id) {
        match a {
            rustc_hir::Attribute::Unparsed(item) => {
                match tcx.sess.source_map().span_to_snippet(item.span) {
                    Ok(s) => v.push(J::S(s)),
                    Err(_) => v.push(J::S(format!("{:?}", item.path))),
                }
            }
            other => {
                let d = format!("{:?}", other);
                if !d.contains("DocComment") {
                    v.push(J::S(truncate(d, 160)));
                }
            }
        }
    }
    J::A(v)
}

fn export<'tcx>(tcx: TyCtxt<'tcx>) -> J {
    let mut fns: Vec<(String, J)> = vec![];
    let mut adts: Vec<(String, J)> = vec![];
    let mut impls: Vec<J> = vec![];
    let mut consts: Vec<(String, J)> = vec![];
    let mut statics: Vec<(String, J)> = vec![];
    let send = tcx.get_diagnostic_item(rustc_span::sym::Send);
    let sync = tcx.get_diagnostic_item(rustc_span::sym::Sync);

    let mut all_defs: Vec<LocalDefId> = tcx.hir_crate_items(()).definitions().collect();
    {
        let have: HashSet<LocalDefId> = all_defs.iter().copied().collect();
        let mut extra: Vec<LocalDefId> = tcx
            .mir_keys(())
            .iter()
            .copied()
            .filter(|d| !have.contains(d) && matches!(tcx.def_kind(d.to_def_id()), DefKind::Closure))
            .collect();
        extra.sort_by_key(|d| plain_path(tcx, d.to_def_id()));
        all_defs.extend(extra);
    }
    index_colliding_paths(tcx, &all_defs);
    for ldid in all_defs {
        let did = ldid.to_def_id();
        let kind = tcx.def_kind(did);
        let p = path(tcx, did);
        match kind {
            DefKind::Fn | DefKind::AssocFn | DefKind::Closure => {
                if !tcx.is_mir_available(did) {
                    continue;
                }
                let body = tcx.optimized_mir(did);
                let env = TypingEnv::post_analysis(tcx, did);
                let cx = Cx { tcx, body, def: did, env };
                let mut o = vec![
                    ("kind".to_string(), J::S(format!("{:?}", kind))),
                    ("span".to_string(), span_json(tcx, tcx.def_span(did))),
                    ("body_span".to_string(), J::S(span_loc(tcx, body.span))),
                ];
                if matches!(kind, DefKind::Fn | DefKind::AssocFn) {
                    o.push(("vis".into(), J::S(format!("{:?}", tcx.visibility(did)))));
                    let sig = tcx.fn_sig(did).instantiate_identity().skip_norm_wip();
                    o.push(("sig".into(), J::S(with_no_trimmed_paths!(sig.to_string()))));
                }
                if let Some(parent) = tcx.opt_parent(did) {
                    o.push(("parent".into(), J::S(path(tcx, parent))));
                    if matches!(tcx.def_kind(parent), DefKind::Impl { .. }) {
                        let self_ty = tcx.type_of(parent).instantiate_identity().skip_norm_wip();
                        o.push(("impl_self".into(), J::S(tystr(self_ty))));
                        if let ty::Adt(adt, _) = self_ty.kind() {
                            o.push(("impl_self_adt".into(), J::S(path(tcx, adt.did()))));
                        }
                        if let Some(tr) = tcx.impl_opt_trait_ref(parent) {
                            let tr = tr.instantiate_identity().skip_norm_wip();
                            o.push(("impl_trait".into(), J::S(path(tcx, tr.def_id))));
                            o.push(("impl_trait_local".into(), J::B(tr.def_id.is_local())));
                        }
                    }
                }
                let mut promoted = vec![];
                for pb in tcx.promoted_mir(did).iter() {
                    let pcx = Cx { tcx, body: pb, def: did, env };
                    promoted.push(pcx.body_json());
                }
                o.push(("mir".into(), cx.body_json()));
                if !promoted.is_empty() {
                    o.push(("promoted".into(), J::A(promoted)));
                }
                fns.push((p, J::O(o)));
            }
            DefKind::Struct | DefKind::Enum | DefKind::Union => {
                let adt = tcx.adt_def(did);
                let self_ty = tcx.type_of(did).instantiate_identity().skip_norm_wip();
                let mut variants = vec![];
                for v in adt.variants() {
                    let mut fields = vec![];
                    for f in &v.fields {
                        let fty = tcx.type_of(f.did).instantiate_identity().skip_norm_wip();
                        let mut r = BTreeSet::new();
                        let mut seen = HashSet::new();
                        reach(tcx, fty, &mut r, &mut seen);
                        let mut fo = vec![
                            ("name".to_string(), J::S(f.name.to_string())),
                            ("ty".to_string(), J::S(tystr(fty))),
                            ("vis".to_string(), J::S(format!("{:?}", f.vis))),
                            ("reach".to_string(), J::A(r.into_iter().map(J::S).collect())),
                        ];
                        if let Some(l) = f.did.as_local() {
                            fo.push(("attrs".into(), attrs_json(tcx, l)));
                            fo.push(("span".into(), J::S(span_loc(tcx, tcx.def_span(f.did)))));
                        }
                        if let (Some(s), Some(y)) = (send, sync) {
                            fo.push(("send".into(), J::B(implements(tcx, did, fty, s))));
                            fo.push(("sync".into(), J::B(implements(tcx, did, fty, y))));
                        }
                        fields.push(J::O(fo));
                    }
                    variants.push(obj! {"name" => v.name.to_string(), "fields" => J::A(fields)});
                }
                let mut o = vec![
                    ("kind".to_string(), J::S(format!("{:?}", kind))),
                    ("span".to_string(), J::S(span_loc(tcx, tcx.def_span(did)))),
                    ("vis".to_string(), J::S(format!("{:?}", tcx.visibility(did)))),
                    ("attrs".to_string(), attrs_json(tcx, ldid)),
                    ("variants".to_string(), J::A(variants)),
                    ("generic".to_string(), J::B(tcx.generics_of(did).count() > 0)),
                ];
                if let (Some(s), Some(y)) = (send, sync) {
                    o.push(("send".into(), J::B(implements(tcx, did, self_ty, s))));
                    o.push(("sync".into(), J::B(implements(tcx, did, self_ty, y))));
                }
                adts.push((p, J::O(o)));
            }
            DefKind::Impl { of_trait } => {
                let self_ty = tcx.type_of(did).instantiate_identity().skip_norm_wip();
                let mut o = vec![
                    ("self".to_string(), J::S(tystr(self_ty))),
                    ("span".to_string(), span_json(tcx, tcx.def_span(did))),
                ];
                if of_trait {
                    if let Some(tr) = tcx.impl_opt_trait_ref(did) {
                        let tr = tr.instantiate_identity().skip_norm_wip();
                        o.push(("trait".into(), J::S(path(tcx, tr.def_id))));
                        o.push(("trait_ref".into(), J::S(with_no_trimmed_paths!(tr.to_string()))));
                    }
                    let hdr = tcx.impl_trait_header(did);
                    o.push(("unsafe".into(), J::B(format!("{:?}", hdr.safety).contains("Unsafe"))));
                    o.push(("polarity".into(), J::S(format!("{:?}", hdr.polarity))));
                }
                let items: Vec<J> = tcx
                    .associated_item_def_ids(did)
                    .iter()
                    .map(|d| J::S(path(tcx, *d)))
                    .collect();
                o.push(("items".into(), J::A(items)));
                impls.push(J::O(o));
            }
            DefKind::Const { .. } | DefKind::AssocConst { .. } => {
                if tcx.generics_of(did).requires_monomorphization(tcx) {
                    continue;
                }
                // associated consts of traits without default have no body
                if matches!(kind, DefKind::AssocConst { .. }) {
                    if let Some(parent) = tcx.opt_parent(did) {
                        if matches!(tcx.def_kind(parent), DefKind::Trait) {
                            continue;
                        }
                    }
                }
                let ty = tcx.type_of(did).instantiate_identity().skip_norm_wip();
                let env = TypingEnv::post_analysis(tcx, did);
                let mut o = vec![
                    ("ty".to_string(), J::S(tystr(ty))),
                    ("span".to_string(), span_json(tcx, tcx.def_span(did))),
                ];
                if let Ok(val) = tcx.const_eval_poly(did) {
                    if let Some(j) = const_value(tcx, env, val, ty, 0) {
                        o.push(("val".into(), j));
                    }
                }
                consts.push((p, J::O(o)));
            }
            DefKind::Static { mutability, nested, .. } => {
                if nested {
                    continue;
                }
                let ty = tcx.type_of(did).instantiate_identity().skip_norm_wip();
                let mut r = BTreeSet::new();
                let mut seen = HashSet::new();
                reach(tcx, ty, &mut r, &mut seen);
                let mut o = vec![
                    ("ty".to_string(), J::S(tystr(ty))),
                    ("mut".to_string(), J::B(mutability.is_mut())),
                    ("span".to_string(), span_json(tcx, tcx.def_span(did))),
                    ("reach".to_string(), J::A(r.into_iter().map(J::S).collect())),
                ];
                if let Some(parent) = tcx.opt_parent(did) {
                    o.push(("parent".into(), J::S(path(tcx, parent))));
                }
                if let Ok(alloc) = tcx.eval_static_initializer(did) {
                    let a = alloc.inner();
                    if a.len() <= (1 << 16) && a.provenance().ptrs().is_empty() {
                        let bytes = a.inspect_with_uninit_and_ptr_outside_interpreter(0..a.len());
                        o.push(("val".into(), obj! {"raw" => hex(bytes), "size" => a.len() as i128}));
                    }
                }
                {
                    let body = tcx.mir_for_ctfe(did);
                    let env = TypingEnv::post_analysis(tcx, did);
                    let cx = Cx { tcx, body, def: did, env };
                    o.push(("mir".into(), cx.body_json()));
                }
                statics.push((p, J::O(o)));
            }
            _ => {}
        }
    }

    let mut cfgs: Vec<String> = std::env::args()
        .filter_map(|a| a.strip_prefix("feature=\"").map(|r| r.trim_end_matches('"').to_string()))
        .collect();
    cfgs.sort();

    obj! {
        "crate" => tcx.crate_name(LOCAL_CRATE).to_string(),
        "rustc" => option_env!("CFG_VERSION").unwrap_or("nightly").to_string(),
        "features" => J::A(cfgs.into_iter().map(J::S).collect()),
        "fns" => J::O(fns),
        "adts" => J::O(adts),
        "impls" => J::A(impls),
        "consts" => J::O(consts),
        "statics" => J::O(statics),
    }
}
