#!/usr/bin/env python3
"""debug helper: tools/show.py <label> <fn-regex> [calls|mir|expr]"""
import sys, os, json, re
sys.path.insert(0, os.path.dirname(os.path.dirname(os.path.abspath(__file__))))
from analysis import extract
from analysis.facts import load_facts, strip_generics, loc_of
label, pat = sys.argv[1], sys.argv[2]
mode = sys.argv[3] if len(sys.argv) > 3 else "calls"
F = load_facts(extract.extract(label), label)
for f in F.fns_matching(pat):
    print("==", f.name, loc_of(f.span), "argc", f.argc, "blocks", len(f.blocks))
    if mode == "calls":
        for b, t in f.calls():
            print(f"  bb{b} {f.loc(b)} -> {f.expr_local(t['dest']['l']) if False else ''}{f.expr_call(t)[:400]}")
    elif mode == "mir":
        for b, blk in enumerate(f.blocks):
            if blk.get("cleanup"): continue
            for i, s in enumerate(blk["s"]):
                if s["k"] == "assign":
                    print(f"  bb{b}.{i} _{s['pl']['l']}{f._apply_proj('', s['pl']['p'])} = {f.expr_rvalue(s['rv'], depth=0)}   [{loc_of(s.get('sp'))}]")
                else:
                    print(f"  bb{b}.{i} {json.dumps(s)[:200]}")
            t = blk["t"]
            if t["k"] == "call":
                print(f"  bb{b} T _{t['dest']['l']}{f._apply_proj('', t['dest']['p'])} = {f.expr_call(t, depth=0)} -> bb{t['t']}   [{loc_of(t.get('sp'))}]")
            elif t["k"] == "switch":
                print(f"  bb{b} T switch {f.expr_operand(t['discr'], depth=0)} {t['targets']} else {t['otherwise']}")
            elif t["k"] == "assert":
                print(f"  bb{b} T assert {t['msg']} {[f.expr_operand(o, depth=0) for o in t['ops']]} -> bb{t['t']} [{loc_of(t.get('sp'))}]")
            else:
                print(f"  bb{b} T {t['k']} {t.get('t','')}")
