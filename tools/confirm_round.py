#!/usr/bin/env python3
"""Confirms all deliverables of one seeding round in parallel scratch worktrees (never in /repo).
usage: tools/confirm_round.py <tag> <src-dir> [pids...]   e.g.  tools/confirm_round.py 8 /tmp/seed C01 C02
Skips seeds already filed under seeded/<pid>-<tag><a|b|c>/ and deliverables that are incomplete."""
import os, subprocess, sys, queue, threading
VERIF = os.path.dirname(os.path.dirname(os.path.abspath(__file__)))
tag, src = sys.argv[1], sys.argv[2]
pids = sys.argv[3:] or [f"C{n:02d}" for n in range(1, 21)]
jobs = queue.Queue()
for p in pids:
    for w in "ABC":
        d = os.path.join(src, p, "OUT", w)
        if all(os.path.exists(os.path.join(d, f)) for f in ("patch.diff", "demo.rs", "meta.json")) \
                and not os.path.isdir(os.path.join(VERIF, "seeded", f"{p}-{tag}{w.lower()}")) \
                and not os.path.exists(os.path.join(d, ".tried")):
            open(os.path.join(d, ".tried"), "w").write("1")
            jobs.put((p, w))
N = int(os.environ.get("CONFIRM_WORKERS", "4"))
lock = threading.Lock()

def worker(k):
    env = dict(os.environ, SEED_WT=f"/tmp/seedcheck{k}", SEED_TARGET=f"/tmp/seedcheck{k}-target")
    while True:
        try:
            p, w = jobs.get_nowait()
        except queue.Empty:
            return
        r = subprocess.run([sys.executable, os.path.join(VERIF, "tools", "confirm_seed.py"), p, w, src, tag],
                           env=env, capture_output=True, text=True)
        with lock:
            print(r.stdout.strip()[-1500:] or r.stderr.strip()[-800:], flush=True)

ts = [threading.Thread(target=worker, args=(k + 1,)) for k in range(N)]
[t.start() for t in ts]
[t.join() for t in ts]
