#!/bin/bash
# usage: tools/with_patch.sh <patch.diff> <command...>
# Applies the patch to /repo's working tree, runs the command from /verif, and restores /repo.
# Refuses to run if /repo has uncommitted changes (so a restore can never lose work).
set -u
PATCH="$(readlink -f "$1")"; shift
cd /repo || exit 2
if [ -n "$(git status --porcelain --untracked-files=no)" ]; then
  echo "with_patch: /repo has uncommitted changes; refusing" >&2; exit 2
fi
restore() { git -C /repo checkout -q -- . ; }
trap restore EXIT
git apply "$PATCH" || { echo "with_patch: patch does not apply" >&2; exit 2; }
cd /verif
"$@"
rc=$?
exit $rc
