#!/bin/bash
# runs every quick check on /repo's current tree (no evidence rewrite unless EVID=1) and prints one line each
cd "$(dirname "$0")/.."
[ "${EVID:-0}" = "1" ] || export VERIF_NO_EVIDENCE=1
fail=0
TIER="${TIER:-quick}"
[ "$TIER" = "thorough" ] && export VERIF_NO_SELFTEST=1
for n in $(seq -w 1 20); do
  out=$(./check C$n $TIER 2>&1); rc=$?
  line=$(echo "$out" | tail -1)
  echo "rc=$rc $line"
  [ $rc -ne 0 ] && fail=1
done
exit $fail
