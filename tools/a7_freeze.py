#!/usr/bin/env python3
"""Freezes the A7 discharge table: for every panic-capable site of the audited cones (all configs) that
matches an entry of rules/a7_reasons.py, records the site key, basis, reason, the branch decisions that
dominate the site on the reference tree (they become REQUIRED guards) and the who-may-call set.
Sites without a matching reason are listed and stay undischarged. Output: rules/a7_rows.json
Run only when the reference tree changes and the listed differences have been reviewed."""
import sys, os, json, re
sys.path.insert(0, os.path.dirname(os.path.dirname(os.path.abspath(__file__))))
from analysis import extract, a7
from analysis.facts import load_facts
from rules import a7_cones
from rules.a7_reasons import REASONS

CONES = [("A", "PARSE"), ("A", "REQUEST"), ("A", "LOAD"), ("A", "QUERY"), ("C", "PARSE"), ("C", "EXPORT"),
         ("C", "QUERY"), ("B", "QUERY"), ("B", "LOAD"), ("C", "LOAD"), ("C", "REQUEST")]
rows = {}
unmatched = {}
facts = {}
for cfg, which in CONES:
    if cfg not in facts:
        facts[cfg] = load_facts(extract.extract(cfg), cfg)
    F = facts[cfg]
    cone, sites = a7.audit(F, getattr(a7_cones, which + "_ROOTS"))
    for s, key, guards, auto in sites:
        if auto:
            continue
        fn, rest = key.split("|", 1)
        hit = None
        for entry in REASONS:
            frx, srx, basis, reason, callers = entry[:5]
            if re.search(frx, fn) and re.search(srx, rest):
                # optional 6th element: regexes of the dominating decisions the discharge argument USES. Only those
                # become required guards; without it every dominating decision is required (conservative: reordering
                # independent tests then makes the row stale)
                hit = (basis, reason, callers, entry[5] if len(entry) > 5 else None)
                break
        if hit is None:
            unmatched[key] = s.loc
            continue
        prev = rows.get(key)
        g = set(guards)
        if hit[3] is not None:
            g = {x for x in g if any(re.search(r_, x) for r_ in hit[3])}
        if prev:
            g = set(prev["guards"]) & g   # guards common to all configurations
        rows[key] = {"basis": hit[0], "reason": hit[1], "guards": sorted(g), "callers": hit[2]}
        if hit[0] == "input-shape" and fn in F.fns and F.fns[fn].argc > 0 and "{closure" not in fn:
            ca = a7.call_args_of(F, fn)
            prevca = (prev or {}).get("call_args")
            # the same function is audited in several configurations: every reviewed call site is allowed
            rows[key]["call_args"] = sorted(set(ca) | set(prevca or []))     # union over the configurations
json.dump(rows, open(os.path.join(os.path.dirname(__file__), "..", "rules", "a7_rows.json"), "w"), indent=0, sort_keys=True)
print(f"rows: {len(rows)}  unmatched: {len(unmatched)}")
for k, loc in sorted(unmatched.items(), key=lambda kv: kv[1]):
    print("UNMATCHED", loc, k[:200])
