#!/bin/bash
# usage: tools/try_patch.sh <patch> <Cxx> [Cyy ...]   -- runs quick checks against a patched SCRATCH worktree (never /repo)
PATCH="$(readlink -f "$1")"; shift
WT=${TRY_WT:-/tmp/trywt}
cd "$(dirname "$0")/.."
[ -d "$WT" ] || git -C /repo worktree add -q --detach "$WT" HEAD
( cd "$WT" && git checkout -q --detach "$(git -C /repo rev-parse HEAD)" && git checkout -q -- . && git clean -qfd && git apply "$PATCH" ) || { echo "patch does not apply"; exit 2; }
export VERIF_REPO="$WT" VERIF_NO_EVIDENCE=1 VERIF_CACHE=${TRY_CACHE:-/tmp/verif-cache-try}
python3 analysis/extract.py A B C D E >/dev/null 2>&1
for p in "$@"; do ./check $p quick 2>&1 | grep -E "instance:|^\[C" ; done
( cd "$WT" && git checkout -q -- . && git clean -qfd )
