#!/usr/bin/env python3
"""Runs every registered quick check against every seeded change / mutant in a scratch worktree
(never in /repo) and records which checks report a violation. Output: seeded/MATRIX.json and the
`detected_by` field of each seeded/<id>/meta.json.
usage: tools/seed_matrix.py [ids...]"""
import json, os, re, subprocess, sys, glob, shutil

VERIF = os.path.dirname(os.path.dirname(os.path.abspath(__file__)))
WT = os.environ.get("MATRIX_WT", "/tmp/seedrun")
CACHE = os.environ.get("MATRIX_CACHE", "/tmp/verif-cache-matrix")
OUT = os.environ.get("MATRIX_OUT")
PIDS = [f"C{n:02d}" for n in range(1, 21)]


def sh(cmd, cwd=None, env=None):
    return subprocess.run(cmd, shell=True, cwd=cwd, env=env, capture_output=True, text=True)


def ensure_wt():
    if not os.path.isdir(WT):
        subprocess.check_call(["git", "-C", "/repo", "worktree", "add", "-q", "--detach", WT, "HEAD"])
    sh("git checkout -q --detach $(git -C /repo rev-parse HEAD) && git checkout -q -- . && git clean -qfd", cwd=WT)


def run_all(patch, pids=PIDS):
    ensure_wt()
    r = sh(f"git apply {patch}", cwd=WT)
    if r.returncode != 0:
        return {"error": "patch does not apply: " + r.stderr[-200:]}
    env = dict(os.environ, VERIF_REPO=WT, VERIF_NO_EVIDENCE="1", VERIF_CACHE=CACHE)
    res = {}
    sh("python3 analysis/extract.py A B C D E", cwd=VERIF, env=env)  # all configurations concurrently
    for pid in pids:
        r = sh(f"./check {pid} quick", cwd=VERIF, env=env)
        if "the tree does not compile in this configuration" in r.stdout + r.stderr:
            sh("git checkout -q -- . && git clean -qfd", cwd=WT)
            return {"error": "the patched tree does not compile (a change that does not build is not a seeded defect)"}
        keys = re.findall(r"^    instance: (.*)$", r.stdout, re.M)
        res[pid] = {"exit": r.returncode, "violations": sorted(set(k.split("|cfg=")[0] for k in keys))[:12]}
    sh("git checkout -q -- . && git clean -qfd", cwd=WT)
    return res


def main():
    items = []
    for d in sorted(glob.glob(os.path.join(VERIF, "seeded", "C*-*"))):
        items.append((os.path.basename(d), os.path.join(d, "patch.diff"), "seed"))
    for p in sorted(glob.glob(os.path.join(VERIF, "mutants", "*.patch"))):
        items.append((os.path.basename(p)[:-6], p, "mutant"))
    want = set(sys.argv[1:])
    mpath = OUT or os.path.join(VERIF, "seeded", "MATRIX.json")
    matrix = json.load(open(mpath)) if os.path.exists(mpath) else {}
    for name, patch, kind in items:
        if want and name not in want:
            continue
        res = run_all(patch)
        det = sorted(p for p, v in res.items() if isinstance(v, dict) and v.get("exit") == 1) if "error" not in res else []
        matrix[name] = {"kind": kind, "detected_by": det,
                        "rules": {p: res[p]["violations"] for p in det} if "error" not in res else res}
        print(name, kind, det, flush=True)
        json.dump(matrix, open(mpath, "w"), indent=1, sort_keys=True)
        mp = os.path.join(VERIF, "seeded", name, "meta.json")
        if kind == "seed" and os.path.exists(mp):
            m = json.load(open(mp))
            m["detected_by"] = {p: res[p]["violations"][:4] for p in det}
            json.dump(m, open(mp, "w"), indent=1, ensure_ascii=False)


if __name__ == "__main__":
    main()
