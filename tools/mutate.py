#!/usr/bin/env python3
"""Operator-level mutation run for TESTING THE CHECKER (not a deciding step of any property).

For every property, single-token mutants are generated inside the source ranges the property is
anchored in (properties.jsonl `anchors.mechanism[].where`, mapped from the pinned commit to the
current tree), each is applied to a scratch worktree under /tmp, type-checked, and the property's
quick check is run against it. Survivors are then run against the pinned test suite: a survivor
that the suite also lets through is either an equivalent mutant or a realistic breakage the checker
misses, and is written to notes/mutation-survivors.json for triage.

usage: tools/mutate.py [--props C01,C02] [--workers 4] [--max-per-prop 80] [--suite]
"""
import argparse
import difflib
import json
import os
import random
import re
import shutil
import subprocess
import sys
from concurrent.futures import ThreadPoolExecutor

VERIF = os.path.dirname(os.path.dirname(os.path.abspath(__file__)))
REPO = "/repo"

OPS = [
    (r" == ", " != "), (r" != ", " == "),
    (r" < ", " <= "), (r" <= ", " < "), (r" > ", " >= "), (r" >= ", " > "),
    (r" && ", " || "), (r" \|\| ", " && "),
    (r"\btrue\b", "false"), (r"\bfalse\b", "true"),
    (r"\.is_some\(\)", ".is_none()"), (r"\.is_none\(\)", ".is_some()"),
    (r"(?<![\w)])!(?=[\w(])(?!=)", ""),            # drop a negation
    (r" \+ 1\b", " + 0"), (r" - 1\b", " - 0"), (r" \+ 1\b", " + 2"),
    (r"\.starts_with\(", ".ends_with("), (r"\.ends_with\(", ".starts_with("),
    (r"\bcontinue;", "break;"),
    (r"\.min\(", ".max("), (r"\.max\(", ".min("),
    (r"\bunwrap_or\(0\)", "unwrap_or(1)"),
    (r"\.any\(", ".all("), (r"\.all\(", ".any("),
    (r"\[1\.\.\]", "[0..]"), (r"\[\.\.(\w+)\]", r"[..\1 + 1]"),
    (r" \| ", " & "), (r" & ", " | "),
]


def sh(cmd, cwd=None, env=None, timeout=3600):
    return subprocess.run(cmd, shell=True, cwd=cwd, env=env, capture_output=True, text=True, timeout=timeout)


def pinned_commit():
    # first commit that is not a `fix:` commit, walking back from HEAD
    out = sh("git log --format='%H %s'", cwd=REPO).stdout.splitlines()
    for line in out:
        h, s = line.split(" ", 1)
        if not s.startswith("fix:"):
            return h
    return out[-1].split(" ")[0]


def map_lines(path, ranges, base):
    """map 1-based line ranges of `path` at commit `base` to the working tree"""
    old = sh(f"git show {base}:{path}", cwd=REPO).stdout.splitlines()
    new = open(os.path.join(REPO, path)).read().splitlines()
    sm = difflib.SequenceMatcher(None, old, new, autojunk=False)
    o2n = {}
    for tag, i1, i2, j1, j2 in sm.get_opcodes():
        if tag == "equal":
            for k in range(i2 - i1):
                o2n[i1 + k + 1] = j1 + k + 1
        else:
            for k in range(i2 - i1):
                o2n[i1 + k + 1] = min(j1 + k, j2 - 1 if j2 > j1 else j1) + 1
    lines = set()
    for a, b in ranges:
        ms = [o2n[x] for x in range(a, b + 1) if x in o2n]
        if ms:
            lines.update(range(min(ms), max(ms) + 1))
    return lines


def anchors(prop, base):
    out = {}
    for m in prop["anchors"]["mechanism"]:
        for part in m["where"].split(";"):
            part = part.strip()
            mm = re.match(r"^(\S+?):([\d,\- ]+)$", part)
            if not mm:
                continue
            path = mm.group(1)
            rs = []
            for r in mm.group(2).split(","):
                r = r.strip()
                if "-" in r:
                    a, b = r.split("-")
                    rs.append((int(a), int(b)))
                elif r:
                    rs.append((int(r), int(r)))
            out.setdefault(path, set()).update(map_lines(path, rs, base))
    return out


def gen_mutants(prop, base, limit, rng):
    muts = []
    for path, lines in sorted(anchors(prop, base).items()):
        src = open(os.path.join(REPO, path)).read().split("\n")
        for ln in sorted(lines):
            if ln - 1 >= len(src):
                continue
            text = src[ln - 1]
            st = text.strip()
            if not st or st.startswith("//") or st.startswith("#[") or st.startswith("use "):
                continue
            code = text.split("//")[0]
            # statement deletion: a complete single-line expression statement (call / assignment)
            if st.endswith(";") and not re.match(r"^(let |return\b|use |pub |const |static |break|continue|\}|assert|debug_assert)", st) \
                    and st.count("(") == st.count(")") and st.count("{") == st.count("}") and "=>" not in st:
                muts.append({"path": path, "line": ln, "op": -1, "old": text, "new": re.match(r"^\s*", text).group(0) + "// deleted: " + st})
            for k, (rx, rep) in enumerate(OPS):
                for m in re.finditer(rx, code):
                    if rx in (r" < ", r" > ") and re.search(r"->|<[A-Z&']|::<", code):
                        continue
                    new = code[:m.start()] + m.expand(rep) + code[m.end():] + text[len(code):]
                    muts.append({"path": path, "line": ln, "op": k, "old": text, "new": new})
    rng.shuffle(muts)
    return muts[:limit]


class Worker:
    def __init__(self, n):
        self.n = n
        self.wt = f"/tmp/mutwt{n}"
        self.cache = f"/tmp/mutcache{n}"
        self.target = f"/tmp/mutwt{n}-target"
        if os.path.isdir(self.wt):
            sh(f"git -C {REPO} worktree remove --force {self.wt}")
        shutil.rmtree(self.wt, ignore_errors=True)
        sh(f"git -C {REPO} worktree prune")
        r = sh(f"git -C {REPO} worktree add -q --detach {self.wt} HEAD")
        assert r.returncode == 0, r.stderr
        self.env = dict(os.environ, CARGO_NET_OFFLINE="true", CARGO_TARGET_DIR=self.target,
                        VERIF_REPO=self.wt, VERIF_NO_EVIDENCE="1", VERIF_CACHE=self.cache)

    def close(self):
        sh(f"git -C {REPO} worktree remove --force {self.wt}")
        shutil.rmtree(self.wt, ignore_errors=True)
        shutil.rmtree(self.cache, ignore_errors=True)
        shutil.rmtree(self.target, ignore_errors=True)
        sh(f"git -C {REPO} worktree prune")

    def suite_only(self, mut):
        p = os.path.join(self.wt, mut["path"])
        orig = open(p).read()
        lines = orig.split("\n")
        if lines[mut["line"] - 1] != mut["old"]:
            return dict(mut, suite="stale")
        lines[mut["line"] - 1] = mut["new"]
        open(p, "w").write("\n".join(lines))
        try:
            t = sh("cargo test --workspace --no-fail-fast --offline 2>&1", cwd=self.wt, env=self.env, timeout=3000)
            ok = set(re.findall(r"^test (\S+) \.\.\. ok$", t.stdout, re.M))
            base = json.load(open("/root/.vp/BASELINE.json"))
            missing = [x for x in base["stable_pass"]
                       if "::".join(x.split("::")[1:]) not in ok and "::".join(x.split("::")[2:]) not in ok]
            return dict(mut, suite_kills=bool(missing), suite_failed=missing[:3])
        finally:
            open(p, "w").write(orig)

    def run(self, pid, mut, suite):
        p = os.path.join(self.wt, mut["path"])
        orig = open(p).read()
        lines = orig.split("\n")
        if lines[mut["line"] - 1] != mut["old"]:
            return dict(mut, status="stale")
        lines[mut["line"] - 1] = mut["new"]
        open(p, "w").write("\n".join(lines))
        try:
            feat = "--features content-blocking" if pid == "C20" else ""
            r = sh(f"cargo check --offline -q --lib {feat} 2>&1 | grep -c '^error'", cwd=self.wt, env=self.env)
            if r.stdout.strip() != "0":
                return dict(mut, status="no-compile")
            r = sh(f"./check {pid} quick", cwd=VERIF, env=self.env)
            keys = sorted(set(k.split("|cfg=")[0] for k in re.findall(r"^    instance: (.*)$", r.stdout, re.M)))
            if r.returncode == 1 and keys:
                return dict(mut, status="killed", by=keys[:3])
            if r.returncode not in (0, 1):
                return dict(mut, status="checker-error", out=r.stdout[-300:] + r.stderr[-300:])
            res = dict(mut, status="survived")
            if suite:
                t = sh("cargo test --workspace --no-fail-fast --offline 2>&1", cwd=self.wt, env=self.env, timeout=3000)
                ok = set(re.findall(r"^test (\S+) \.\.\. ok$", t.stdout, re.M))
                base = json.load(open("/root/.vp/BASELINE.json"))
                missing = [x for x in base["stable_pass"]
                           if "::".join(x.split("::")[1:]) not in ok and "::".join(x.split("::")[2:]) not in ok]
                res["suite_kills"] = bool(missing)
                res["suite_failed"] = missing[:3]
            return res
        finally:
            open(p, "w").write(orig)


def main():
    ap = argparse.ArgumentParser()
    ap.add_argument("--props", default="")
    ap.add_argument("--workers", type=int, default=4)
    ap.add_argument("--max-per-prop", type=int, default=60)
    ap.add_argument("--suite", action="store_true")
    ap.add_argument("--seed", type=int, default=1)
    ap.add_argument("--only-op", type=int, default=None, help="restrict to one operator index (-1 = statement deletion)")
    ap.add_argument("--out", default=os.path.join(VERIF, "notes", "mutation-run.json"))
    ap.add_argument("--suite-from", default="", help="run only the pinned suite on the survivors recorded in this file")
    a = ap.parse_args()
    if a.suite_from:
        return suite_from(a)
    rng = random.Random(a.seed)
    base = pinned_commit()
    props = [json.loads(l) for l in open(os.path.join(VERIF, "properties.jsonl"))]
    want = set(a.props.split(",")) if a.props else None
    jobs = []
    for p in props:
        if want and p["id"] not in want:
            continue
        ms = gen_mutants(p, base, 10**6 if a.only_op is not None else a.max_per_prop, rng)
        if a.only_op is not None:
            ms = [m for m in ms if m["op"] == a.only_op][:a.max_per_prop]
        for m in ms:
            jobs.append((p["id"], m))
    print(f"{len(jobs)} mutants, base {base[:8]}", flush=True)
    workers = [Worker(i) for i in range(a.workers)]
    results = []
    try:
        import queue
        q = queue.Queue()
        for j in jobs:
            q.put(j)

        def loop(w):
            while True:
                try:
                    pid, m = q.get_nowait()
                except queue.Empty:
                    return
                try:
                    r = w.run(pid, m, a.suite)
                except Exception as e:  # noqa
                    r = dict(m, status="error", out=str(e)[:200])
                r["property"] = pid
                results.append(r)
                print(pid, r["status"], r["path"], r["line"], repr(r["new"].strip())[:90], r.get("by", r.get("suite_kills", "")), flush=True)
                json.dump(results, open(a.out, "w"), indent=1)

        with ThreadPoolExecutor(len(workers)) as ex:
            list(ex.map(loop, workers))
    finally:
        for w in workers:
            w.close()
    summ = {}
    for r in results:
        s = summ.setdefault(r["property"], {})
        k = r["status"] + ("+suite-kills" if r.get("suite_kills") else "")
        s[k] = s.get(k, 0) + 1
    print(json.dumps(summ, indent=1))


def suite_from(a):
    import queue
    data = json.load(open(a.suite_from))
    todo = [r for r in data if r.get("status") == "survived" and "suite_kills" not in r]
    want = set(a.props.split(",")) if a.props else None
    if want:
        todo = [r for r in todo if r["property"] in want]
    # identical source edits listed under several properties are run once
    uniq = {}
    for r in todo:
        uniq.setdefault((r["path"], r["line"], r["new"]), []).append(r)
    print(f"{len(uniq)} distinct surviving mutants to run against the suite", flush=True)
    workers = [Worker(100 + i) for i in range(a.workers)]
    q = queue.Queue()
    for k in uniq:
        q.put(k)
    try:
        def loop(w):
            while True:
                try:
                    k = q.get_nowait()
                except queue.Empty:
                    return
                res = w.suite_only(uniq[k][0])
                for r in uniq[k]:
                    r["suite_kills"] = res.get("suite_kills")
                    r["suite_failed"] = res.get("suite_failed")
                print(uniq[k][0]["property"], "suite-kills" if res.get("suite_kills") else "SUITE-PASSES", k[0], k[1], repr(k[2].strip())[:100], flush=True)
                json.dump(data, open(a.out, "w"), indent=1)
        with ThreadPoolExecutor(len(workers)) as ex:
            list(ex.map(loop, workers))
    finally:
        for w in workers:
            w.close()


if __name__ == "__main__":
    main()
