#!/bin/bash
# Runs the pinned test suite of a checkout (default /repo) with the verification guard OFF and
# compares the set of passing tests with /root/.vp/BASELINE.json (224 stable passes).
# usage: tools/run_baseline.sh [repo_dir]
set -u
REPO="${1:-/repo}"
export CARGO_NET_OFFLINE=true
cd "$REPO" || exit 2
OUT=$(mktemp)
cargo test --workspace --no-fail-fast --offline 2>&1 | tee "$OUT" | grep -E '^test result|^error'
python3 - "$OUT" <<'EOF'
import json,re,sys
out=open(sys.argv[1]).read()
base=json.load(open('/root/.vp/BASELINE.json'))
want=set(t.split('::',1)[1] if t.startswith('adblock::') else t for t in base['stable_pass'])
# cargo test output does not carry the binary name; compare by counts of ok per name suffix
ok=re.findall(r'^test (\S+) \.\.\. ok$',out,re.M)
failed=re.findall(r'^test (\S+) \.\.\. FAILED$',out,re.M)
print('passed',len(ok),'failed',len(failed))
# map baseline names to bare test paths (strip "adblock::" and the binary segment for integration tests)
bare=set()
for t in base['stable_pass']:
    parts=t.split('::')
    bare.add('::'.join(parts[1:]))
    bare.add('::'.join(parts[2:]))
missing=[t for t in base['stable_pass'] if not any(t.endswith('::'+o) or t.endswith(o) for o in ok)]
okset=set(ok)
missing=[]
for t in base['stable_pass']:
    p=t.split('::')
    c1='::'.join(p[1:]); c2='::'.join(p[2:])
    if c1 not in okset and c2 not in okset:
        missing.append(t)
print('baseline tests not passing:',len(missing))
for m in missing: print('  MISSING',m)
sys.exit(1 if missing else 0)
EOF
rc=$?
rm -f "$OUT"
exit $rc
