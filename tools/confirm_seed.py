#!/usr/bin/env python3
"""Confirms a seeded change produced by a sub-agent, in a scratch worktree (never in /repo):
  - the demonstration passes on the unmodified checkout,
  - the patch applies, compiles (default + thread-safe + content-blocking configurations),
  - the demonstration FAILS with the patch,
  - the pinned suite still gives the 224 baseline passes with the patch.
Then files the seed under /verif/seeded/<Cxx>-<a|b>/ (patch.diff, demo.rs, meta.json).
usage: tools/confirm_seed.py <Cxx> <A|B> [--src /tmp/seed]"""
import json
import os
import re
import shutil
import subprocess
import sys

WT = os.environ.get("SEED_WT", "/tmp/seedcheck")
TARGET = os.environ.get("SEED_TARGET", WT + "-target")
ENV = dict(os.environ, CARGO_NET_OFFLINE="true", CARGO_TARGET_DIR=TARGET)


def sh(cmd, cwd=WT, timeout=3000):
    r = subprocess.run(cmd, cwd=cwd, env=ENV, shell=True, capture_output=True, text=True,
                       timeout=timeout)
    return r.returncode, r.stdout + r.stderr


def ensure_wt():
    if not os.path.isdir(WT):
        subprocess.check_call(["git", "-C", "/repo", "worktree", "add", "-q", "--detach", WT, "HEAD"])
    sh("git checkout -q --detach $(git -C /repo rev-parse HEAD) && git checkout -q -- . && git clean -qfd")


def baseline_ok(out):
    base = json.load(open("/root/.vp/BASELINE.json"))
    ok = set(re.findall(r"^test (\S+) \.\.\. ok$", out, re.M))
    missing = []
    for t in base["stable_pass"]:
        p = t.split("::")
        if "::".join(p[1:]) not in ok and "::".join(p[2:]) not in ok:
            missing.append(t)
    return len(ok), missing


def main():
    pid, which = sys.argv[1], sys.argv[2]
    src = sys.argv[3] if len(sys.argv) > 3 else "/tmp/seed"
    tag = sys.argv[4] if len(sys.argv) > 4 else ""
    d = os.path.join(src, pid, "OUT", which)
    meta = json.load(open(os.path.join(d, "meta.json")))
    demo_cmd = meta.get("demo_cmd", "")
    m = re.search(r"--test[ =](\S+)", demo_cmd)
    test_name = m.group(1) if m else (f"seed_demo_{pid.lower()}_{which.lower()}" if not tag else f"seed{tag}_{pid.lower()}_{which.lower()}")
    feats = ""
    if "--no-default-features" in demo_cmd:
        feats += " --no-default-features"
    m = re.search(r"--features[ =](\S+)", demo_cmd)
    if m:
        feats += f" --features {m.group(1)}"
    ensure_wt()
    shutil.copy(os.path.join(d, "demo.rs"), os.path.join(WT, "tests", test_name + ".rs"))
    res = {"demo_test": test_name, "demo_features": feats.strip()}
    run_demo = f"cargo test --offline{feats} --test {test_name} 2>&1 | tail -30"
    rc, out = sh(run_demo)
    res["demo_on_clean_passes"] = ("test result: ok" in out) and ("FAILED" not in out)
    rc, out = sh(f"git apply {os.path.join(d, 'patch.diff')}")
    res["patch_applies"] = rc == 0
    if rc != 0:
        res["error"] = out[-500:]
    else:
        rc, out = sh(run_demo)
        res["demo_with_patch_fails"] = ("test result: FAILED" in out) or ("panicked" in out and "test result: ok" not in out)
        res["demo_with_patch_tail"] = out[-600:]
        rc, out = sh("cargo test --workspace --no-fail-fast --offline 2>&1")
        n, missing = baseline_ok(out)
        res["suite_passed_with_patch"] = n
        res["baseline_missing_with_patch"] = missing
        rc1, o1 = sh("cargo check --offline -q --lib --no-default-features --features embedded-domain-resolver,full-regex-handling 2>&1 | grep -c '^error'")
        rc2, o2 = sh("cargo check --offline -q --lib --features content-blocking 2>&1 | grep -c '^error'")
        res["compiles_threadsafe"] = o1.strip() == "0"
        res["compiles_content_blocking"] = o2.strip() == "0"
    sh("git checkout -q -- . && git clean -qfd")
    good = (res.get("demo_on_clean_passes") and res.get("patch_applies")
            and res.get("demo_with_patch_fails") and not res.get("baseline_missing_with_patch")
            and res.get("compiles_threadsafe") and res.get("compiles_content_blocking"))
    res["confirmed"] = bool(good)
    sid = f"{pid}-{tag}{which.lower()}"
    print(sid, json.dumps({k: v for k, v in res.items() if k != "demo_with_patch_tail"}))
    if good:
        out_dir = os.path.join("/verif/seeded", sid)
        os.makedirs(out_dir, exist_ok=True)
        shutil.copy(os.path.join(d, "patch.diff"), os.path.join(out_dir, "patch.diff"))
        shutil.copy(os.path.join(d, "demo.rs"), os.path.join(out_dir, "demo.rs"))
        meta_out = {
            "id": sid,
            "property": pid,
            "summary": meta.get("summary"),
            "needs_to_manifest": meta.get("needs_to_manifest"),
            "why_tests_miss_it": meta.get("why_tests_miss_it"),
            "demo_cmd": f"cargo test --offline{feats} --test {test_name}  (demo.rs placed at tests/{test_name}.rs)",
            "source": "independent sub-agent given only the property text and a scratch worktree",
            "confirmed_by_me": {
                "how": "tools/confirm_seed.py in scratch worktree /tmp/seedcheck (removed afterwards)",
                "demo_on_clean_passes": res["demo_on_clean_passes"],
                "demo_with_patch_fails": res["demo_with_patch_fails"],
                "suite_with_patch": f"{res['suite_passed_with_patch']} tests ok, baseline tests missing: {len(res['baseline_missing_with_patch'])}",
                "compiles_threadsafe": res["compiles_threadsafe"],
                "compiles_content_blocking": res["compiles_content_blocking"],
            },
            "detected_by": None,
        }
        json.dump(meta_out, open(os.path.join(out_dir, "meta.json"), "w"), indent=1, ensure_ascii=False)
    return 0 if good else 1


if __name__ == "__main__":
    sys.exit(main())
