#!/bin/bash
# usage: tools/apply_scratch.sh <patch>  -- leaves the patch applied in the scratch worktree /tmp/trywt and extracts facts;
# then:  VERIF_REPO=/tmp/trywt VERIF_CACHE=/tmp/verif-cache-try VERIF_NO_EVIDENCE=1 ./check Cxx quick   (or tools/show.py)
PATCH="$(readlink -f "$1")"
WT=${TRY_WT:-/tmp/trywt}
cd "$(dirname "$0")/.."
[ -d "$WT" ] || git -C /repo worktree add -q --detach "$WT" HEAD
( cd "$WT" && git checkout -q --detach "$(git -C /repo rev-parse HEAD)" && git checkout -q -- . && git clean -qfd && git apply "$PATCH" ) || { echo "patch does not apply"; exit 2; }
VERIF_REPO="$WT" VERIF_CACHE=${TRY_CACHE:-/tmp/verif-cache-try} python3 analysis/extract.py A B C D E >/dev/null 2>&1
echo applied
