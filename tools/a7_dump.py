#!/usr/bin/env python3
"""dumps the A7 site list of a cone: tools/a7_dump.py <cfg> <PARSE|REQUEST|LOAD|QUERY|EXPORT> > file"""
import sys, os, json
sys.path.insert(0, os.path.dirname(os.path.dirname(os.path.abspath(__file__))))
from analysis import extract, a7
from analysis.facts import load_facts
from rules import a7_cones
try:
    from rules.a7_rows import ROWS
except Exception:
    ROWS = {}
cfg, which = sys.argv[1], sys.argv[2]
F = load_facts(extract.extract(cfg), cfg)
cone, sites = a7.audit(F, getattr(a7_cones, which + "_ROOTS"))
print(f"# cone {which} cfg {cfg}: {len(cone)} functions, {len(sites)} sites")
for s, key, guards, auto in sites:
    st = "AUTO" if auto else ("ROW" if key in ROWS else "NEW")
    print(json.dumps({"st": st, "loc": s.loc, "key": key, "guards": guards}))
