#!/usr/bin/env python3
"""Regenerates /verif/MANIFEST.json from the rule modules present under /verif/rules.
A property with a rule module is claimed; one without is listed under not_applicable with the
reason recorded in NOT_APPLICABLE below (or 'check not built yet')."""
import importlib
import json
import os
import sys

HERE = os.path.dirname(os.path.dirname(os.path.abspath(__file__)))
sys.path.insert(0, HERE)

NOT_APPLICABLE = {}

TECH = {
    "C01": "MIR provenance + dominance rules: token-source agreement, fallback bucket, exhaustive probing, token-boundary table (path interpreter)",
    "C02": "extracted dispatch/pinning decision table of check_pattern (path interpreter) + regex-translation constants",
    "C03": "option-name -> variant -> mask-bit -> request-type chain from consts/MIR; check_options decision table; sorted-before-binary-search dominance",
    "C04": "routing decision table (path interpreter), precedence skeleton by dominance/provenance, badfilter-id field coverage",
    "C05": "fusion-key field coverage (A6), bucket-preservation provenance, who-optimises call-graph rule",
    "C06": "interior-mutability type-graph audit, cache who-may-write, free-site => invalidation post-dominance, routing table agreement",
    "C07": "tag-gate table from extracted routing + call-site provenance; set-algebra provenance; dominance in Engine::deserialize",
    "C08": "serializer/deserializer field coverage (A6) and positional wire-struct agreement from ADT facts",
    "C09": "serialization type-graph walk (no hash container behind a plain Serialize), order-taint of hash iteration into serialized Vecs",
    "C10": "panic-site audit (A7) of the load path and post-load query cones; decode-before-mutate dominance",
    "C11": "panic-site audit (A7) with char-boundary provenance over the parser cones; purity / line-independence effect audit; rule-type decision table",
    "C12": "panic-site audit (A7) of request construction; scheme decision table; party provenance; single construction site",
    "C13": "permission/kind gate dominance, redirect lookup independence, cancellation provenance",
    "C14": "piece provenance and inverse-constant agreement in apply_removeparam; removal-guard dominance",
    "C15": "type-gate decision table, tag-gate provenance, set-difference operand order",
    "C16": "store/lookup hash-function agreement, bin pairing table, populate-before-prune dominance",
    "C17": "partition totality/exclusivity by path enumeration, prefix-constant agreement, exception test dominance",
    "C18": "permission expression extraction (exhaustive over 65536 pairs on the extracted tree), who-may-call, escape-table constant",
    "C19": "Send/Sync trait-solver facts + compile-fail witness, single-lock/no-re-entry call-graph rule, configuration diff",
    "C20": "panic-site audit (A7) of the export cone, ASCII/exclusivity dominance, ordering rule",
}


def main():
    props = [json.loads(l) for l in open(os.path.join(HERE, "properties.jsonl"))]
    checks = []
    na = []
    for p in props:
        pid = p["id"]
        path = os.path.join(HERE, "rules", f"{pid}.py")
        if not os.path.exists(path):
            na.append({"property_id": pid,
                       "reason": NOT_APPLICABLE.get(pid, "check not built yet (work in progress; "
                                                          "see DESIGN.md section 2 for the planned rules)")})
            continue
        mod = importlib.import_module(f"rules.{pid}")
        checks.append({
            "property_id": pid,
            "quick_cmd": f"./check {pid} quick",
            "thorough_cmd": f"./check {pid} thorough",
            "evidence_file": f"evidence/{pid}.json",
            "replay_cmd_template": "./check replay {path}",
            "engine": "adbfacts+rules",
            "level_claimed": {
                "category": "other",
                "text": ("Static analysis of the resolved program (rustc MIR / type facts of /repo's "
                         "current tree, several feature configurations): structural obligations that "
                         "are necessary conditions of the property, decided on all paths. NOT a proof "
                         "of the behavioural statement. " + mod.EXPLANATION + " Not decided: "
                         + getattr(mod, "NOT_DECIDED", "")),
                "design_ref": f"DESIGN.md section 2, {pid}",
            },
            "level_note": ("Trusted base: rustc nightly front end (resolution, type check, MIR, const "
                           "eval), the adbfacts JSON export, name-level summaries of std/dependency "
                           "functions named in the rule files; no 64-bit seahash collisions."),
            "technique": "static analysis: " + TECH[pid],
        })
    man = {
        "version": 1,
        "setup_cmd": "./setup.sh",
        "hooks": {
            "guard": "adblock_verif",
            "enable": "none needed: static analysis reads /repo's source through a rustc driver; "
                      "no instrumentation is compiled into the crate",
            "baseline_off_cmd": "cd /repo && cargo test --workspace --no-fail-fast --offline",
            "source_commits": [],
            "add_only": True,
        },
        "engines": [
            {"name": "adbfacts+rules", "path": "adbfacts/ analysis/ rules/",
             "serves_properties": [c["property_id"] for c in checks],
             "kind_free_text": "rustc_private driver exporting MIR/ADT/const facts as JSON; Python "
                               "analyses (call graph, dominators, provenance, finite-domain path "
                               "interpreter, field coverage, panic-site audit, order taint) with "
                               "per-property rule tables"},
        ],
        "checks": checks,
        "not_applicable": na,
        "notes": "Repairs of genuine defects committed to /repo (unguarded `fix:` commits, suite unchanged at 224 "
                 "passes): b170f9d 6a633f2 4769a9b 31550e4 8f80462 2635c31 ccba892 b9e354e d830fd5 0d4c7d6 df63969 4029b31 62b1e9f 138f88e 11cc740 d38eeb7 0d8222b bbaf227 09362f1 26932d5 b73edda 2c9cc95 774ab53 e1754b1 da85507 4e41602 1aae36e 8a2c0d8 6c1d807 94e3b86 e6098f7 b6ac91d 2f9ad84 19a4777 1ceeafc b88e6d3 b6a3946 c160e18 ddc5b49 8d1a688 4d0943e f6d2e86 a9db1a4 05063a0. "
                 "All checks are static (no adblock code is executed by a deciding step). "
                 "Known findings: known_findings.txt. Seeded changes: seeded/.",
    }
    with open(os.path.join(HERE, "MANIFEST.json"), "w") as fh:
        json.dump(man, fh, indent=1)
    print(f"MANIFEST.json: {len(checks)} checks, {len(na)} not_applicable")


if __name__ == "__main__":
    main()
