#!/usr/bin/env python3
"""Merges shard results of tools/seed_matrix.py (MATRIX_OUT files) into seeded/MATRIX.json and the seeds' meta.json.
usage: tools/merge_matrix.py /tmp/eval8b/matrix-*.json"""
import json, os, sys
VERIF = os.path.dirname(os.path.dirname(os.path.abspath(__file__)))
mp = os.path.join(VERIF, "seeded", "MATRIX.json")
matrix = json.load(open(mp))
n = 0
for path in sys.argv[1:]:
    for name, row in json.load(open(path)).items():
        matrix[name] = row
        n += 1
        meta = os.path.join(VERIF, "seeded", name, "meta.json")
        if row.get("kind") == "seed" and os.path.exists(meta):
            m = json.load(open(meta))
            rules = row.get("rules", {})
            m["detected_by"] = {p: rules[p][:4] for p in row.get("detected_by", []) if isinstance(rules, dict) and p in rules}
            json.dump(m, open(meta, "w"), indent=1, ensure_ascii=False)
json.dump(matrix, open(mp, "w"), indent=1, sort_keys=True)
own = sum(1 for k, v in matrix.items() if k[:3] in v.get("detected_by", []))
print(f"merged {n} rows; matrix has {len(matrix)} changes, {own} reported by the property they were written against")
