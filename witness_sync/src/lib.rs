//! C19 witnesses, thread-safe feature set: the engine must be `Send + Sync`.
//! ```
//! fn needs_send_sync<T: Send + Sync>() {}
//! needs_send_sync::<adblock::Engine>();
//! ```
//!
//! Negative twin proving the doctest harness really type-checks the bound (Rc is neither):
//! ```compile_fail,E0277
//! fn needs_send_sync<T: Send + Sync>() {}
//! needs_send_sync::<std::rc::Rc<adblock::Engine>>();
//! ```
