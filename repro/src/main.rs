use adblock::lists::{FilterSet, ParseOptions};
use adblock::request::Request;
use adblock::Engine;

fn engine(rules: &[&str], optimize: bool) -> Engine {
    let mut fs = FilterSet::new(true);
    fs.add_filters(rules, ParseOptions::default());
    Engine::from_filter_set(fs, optimize)
}

fn blocked(e: &Engine, url: &str, src: &str, ty: &str) -> bool {
    e.check_network_request(&Request::new(url, src, ty).unwrap()).matched
}

fn c01() {
    let e = engine(&["ads/foo/bar"], false);
    let b = blocked(&e, "http://x.com/loads/foo/bar", "http://y.com", "image");
    println!("C01-1 rule ads/foo/bar url .../loads/foo/bar blocked={b} (expected true)");
}

fn c05() {
    let rules = ["||x.com^", "@@advice", "@@advert$tag=a"];
    let a = blocked(&engine(&rules, true), "http://x.com/advice", "http://y.com", "image");
    let b = blocked(&engine(&rules, false), "http://x.com/advice", "http://y.com", "image");
    println!("C05-1 optimised blocked={a} unoptimised blocked={b} (expected equal, false)");
}

fn c07() {
    let mut e = engine(&["||x.com^$important,tag=t"], false);
    let off = blocked(&e, "http://x.com/a", "http://y.com", "image");
    e.use_tags(&["t"]);
    let on = blocked(&e, "http://x.com/a", "http://y.com", "image");
    println!("C07-1 important+tag: off={off} on={on} (expected false,true)");
}

fn c06_1() {
    let mut stale = 0;
    for _ in 0..50 {
        let mut e = engine(
            &["/aaa*bbb^$tag=a", "/ccc*ddd^$tag=b", "/eee*fff^$tag=c"],
            false,
        );
        e.use_tags(&["a"]);
        blocked(&e, "http://x.com/aaa1bbb/", "http://y.com", "image");
        e.use_tags(&["b"]);
        blocked(&e, "http://x.com/ccc1ddd/", "http://y.com", "image");
        e.use_tags(&["c"]);
        let wrong = blocked(&e, "http://x.com/aaa1bbb/", "http://y.com", "image")
            || blocked(&e, "http://x.com/ccc1ddd/", "http://y.com", "image");
        let right = blocked(&e, "http://x.com/eee1fff/", "http://y.com", "image");
        if wrong || !right {
            stale += 1;
        }
    }
    println!("C06-1 stale regex cache runs={stale}/50 (expected 0)");
}

fn c06_2() {
    use adblock::blocker::{Blocker, BlockerOptions};
    use adblock::filters::network::NetworkFilter;
    use adblock::resources::ResourceStorage;
    let opts = BlockerOptions { enable_optimizations: false };
    let res = ResourceStorage::default();
    for (rule, url, ty) in [
        ("*$removeparam=utm,important", "http://x.com/?utm=1", "xhr"),
        ("||x.com/ad.js$script,redirect=noop.js", "http://x.com/ad.js", "script"),
    ] {
        let f = NetworkFilter::parse(rule, true, Default::default()).unwrap();
        let batch = Blocker::new(vec![f.clone()], &opts);
        let mut inc = Blocker::new(vec![], &opts);
        let first = inc.add_filter(f.clone());
        let second = inc.add_filter(f);
        let req = Request::new(url, "http://y.com", ty).unwrap();
        let a = batch.check(&req, &res);
        let b = inc.check(&req, &res);
        println!(
            "C06-2 {rule}: batch(matched={},important={},rewritten={:?}) incremental(matched={},important={},rewritten={:?}) add1={:?} add2={:?} (expected equal; add1 Ok, add2 Err(FilterExists))",
            a.matched, a.important, a.rewritten_url, b.matched, b.important, b.rewritten_url, first.is_ok(), second.is_ok()
        );
    }
}

fn c01_2() {
    let e = engine(&["gif|"], false);
    let b = blocked(&e, "http://x.com/a/bigif", "http://y.com", "image");
    println!("C01-2 rule `gif|` url .../bigif blocked={b} (expected true: right-anchored suffix match)");
}

fn c04() {
    // `$domain=a` vs `$domain=~a`: identical badfilter identity?
    let e = engine(&["/adframe.$script,domain=~news.example", "/adframe.$script,domain=news.example,badfilter"], false);
    let b = blocked(&e, "http://x.com/adframe.js", "http://other.example/", "script");
    println!("C04-1 `/adframe.$script,domain=~news.example` cancelled by `...domain=news.example,badfilter`: blocked={b} (expected true)");
}

fn c08() {
    // F-C08-1: removeparam rules are lost on reload
    let e = engine(&["*$removeparam=utm"], false);
    let req = Request::new("http://x.com/?utm=1&a=2", "http://y.com", "xhr").unwrap();
    let before = e.check_network_request(&req).rewritten_url;
    let bytes = e.serialize_raw().unwrap();
    let mut e2 = Engine::default();
    e2.deserialize(&bytes).unwrap();
    let after = e2.check_network_request(&req).rewritten_url;
    println!("C08-1 removeparam before reload={:?} after reload={:?} (expected equal)", before, after);
    // F-C08-2: PermissionMask of scriptlet injections is lost on reload
    use adblock::resources::{PermissionMask, Resource, ResourceType, MimeType};
    let mut fs = FilterSet::new(true);
    fs.add_filters(&["x.com##+js(priv)"], ParseOptions { permissions: PermissionMask::from_bits(1), ..Default::default() });
    let mut e = Engine::from_filter_set(fs, false);
    let res = Resource {
        name: "priv.js".into(), aliases: vec![], kind: ResourceType::Mime(MimeType::ApplicationJavascript),
        content: base64_encode("console.log('priv')"), dependencies: vec![], permission: PermissionMask::from_bits(1),
    };
    e.use_resources([res.clone()]);
    let before = e.url_cosmetic_resources("http://x.com/").injected_script;
    let bytes = e.serialize_raw().unwrap();
    let mut e2 = Engine::default();
    e2.deserialize(&bytes).unwrap();
    e2.use_resources([res]);
    let after = e2.url_cosmetic_resources("http://x.com/").injected_script;
    println!("C08-2 permissioned scriptlet injected before reload={} after reload={} (expected equal)", !before.is_empty(), !after.is_empty());
}

fn base64_encode(s: &str) -> String {
    // minimal base64 (no padding handling beyond '=')
    const T: &[u8] = b"ABCDEFGHIJKLMNOPQRSTUVWXYZabcdefghijklmnopqrstuvwxyz0123456789+/";
    let b = s.as_bytes();
    let mut out = String::new();
    for c in b.chunks(3) {
        let n = (c[0] as u32) << 16 | (*c.get(1).unwrap_or(&0) as u32) << 8 | *c.get(2).unwrap_or(&0) as u32;
        out.push(T[(n >> 18) as usize & 63] as char);
        out.push(T[(n >> 12) as usize & 63] as char);
        out.push(if c.len() > 1 { T[(n >> 6) as usize & 63] as char } else { '=' });
        out.push(if c.len() > 2 { T[n as usize & 63] as char } else { '=' });
    }
    out
}

fn c17() {
    // F-C17-1: a generic `.`/`#` selector whose key cannot be extracted is dropped
    let e = engine(&["##.\\110000 a", "##.ok"], false);
    let r = e.url_cosmetic_resources("http://x.com/");
    let via_url = r.hide_selectors.iter().any(|s| s.contains("110000"));
    let via_cls = e.hidden_class_id_selectors(&["\u{fffd}", "110000", "\\110000", "ok"], &[] as &[&str], &Default::default());
    println!("C17-1 `##.\\110000 a`: in url resources={via_url}, class lookup returns {:?} (expected reachable one way)", via_cls);
}

fn c13() {
    use adblock::resources::{PermissionMask, Resource, ResourceType, MimeType};
    let mut e = engine(&["||x.com/a.js$script,redirect=noop.js:10", "@@||x.com/a.js$script,redirect=noop.js"], false);
    e.use_resources([Resource { name: "noop.js".into(), aliases: vec![], kind: ResourceType::Mime(MimeType::ApplicationJavascript),
        content: base64_encode("1"), dependencies: vec![], permission: PermissionMask::from_bits(0) }]);
    let r = e.check_network_request(&Request::new("http://x.com/a.js", "http://y.com", "script").unwrap());
    println!("C13-1 redirect=noop.js:10 with exception redirect=noop.js: redirect={:?} (expected None: same resource)", r.redirect.map(|s| s.len()));
}

fn c10_1() {
    let mut e = Engine::default();
    let r = std::panic::catch_unwind(std::panic::AssertUnwindSafe(|| {
        e.deserialize(&[0xd1, 0xd9, 0x3a, 0xaf]).is_err()
    }));
    println!("C10-1 magic-only buffer: {:?} (expected Ok(true))", r);
}

fn c20() {
    for rule in ["ads$domain=xn--ü.com", "|ws://$~websocket"] {
        let r = std::panic::catch_unwind(|| {
            let mut fs = FilterSet::new(true);
            fs.add_filters(&[rule], ParseOptions::default());
            fs.into_content_blocking().map(|(r, u)| (r.len(), u.len()))
        });
        println!("C20 rule {rule}: {:?} (expected no panic)", r.map_err(|_| "PANIC"));
    }
}

fn c20_3() {
    // F-C20-3: a pattern that consists only of a trailing separator exports an empty url-filter
    for rule in ["^$script", "*^$script", "^", "ads^$script"] {
        let mut fs = FilterSet::new(true);
        fs.add_filters(&[rule], ParseOptions::default());
        let (rules, used) = fs.into_content_blocking().unwrap();
        let js = serde_json::to_string(&rules).unwrap();
        let empty = js.contains("\"url-filter\":\"\"");
        println!("C20_3 rule {rule}: converted={} empty-url-filter={} (expected false)", used.len(), empty);
    }
}

fn main() {
    std::panic::set_hook(Box::new(|_| {}));
    let which: Vec<String> = std::env::args().skip(1).collect();
    let all = which.is_empty();
    let want = |n: &str| all || which.iter().any(|w| w == n);
    if want("c01") { c01(); }
    if want("c01_2") { c01_2(); }
    if want("c04") { c04(); }
    if want("c05") { c05(); }
    if want("c08") { c08(); }
    if want("c13") { c13(); }
    if want("c17") { c17(); }
    if want("c06_1") { c06_1(); }
    if want("c06_2") { c06_2(); }
    if want("c07") { c07(); }
    if want("c10_1") { c10_1(); }
    if want("c20") { c20(); }
    if want("c20_3") { c20_3(); }
}
