use adblock::lists::ParseOptions;
use adblock::request::Request;
use adblock::filters::network::{NetworkFilter, NetworkMatchable};
use adblock::regex_manager::RegexManager;
use adblock::Engine;

// the engine must agree with the rule evaluated on its own
#[test]
fn separator_next_to_a_non_ascii_letter() {
    for (rule, url) in [
        ("/xx/ads^", "https://example.com/xx/adsé"),
        ("/banner^", "https://example.com/bannerñ.gif"),
        ("^promo^", "https://example.com/яpromoя"),
    ] {
        let f = NetworkFilter::parse(rule, true, ParseOptions::default()).unwrap();
        let r = Request::new(url, "https://site.test/", "image").unwrap();
        let alone = f.matches(&r, &mut RegexManager::default());
        let engine = Engine::from_rules([rule], Default::default());
        let through_engine = engine.check_network_request(&r).matched;
        assert_eq!(alone, through_engine, "{rule} on {url}: alone {alone}, engine {through_engine}");
    }
}
