use adblock::request::Request;
use adblock::Engine;

fn blocked(rule: &str, url: &str) -> bool {
    let engine = Engine::from_rules([rule], Default::default());
    let r = Request::new(url, "https://site.test/", "script").unwrap();
    engine.check_network_request(&r).matched
}

#[test]
fn host_anchor_followed_by_a_port() {
    assert!(blocked("||example.com:8080/x", "https://example.com:8080/x.js"));
    assert!(blocked("||example.com:8080^", "https://example.com:8080/x.js"));
    assert!(blocked("||example.com:8080^", "https://sub.example.com:8080/"));
    assert!(blocked("||example.com:8080", "https://example.com:8080/x.js"));
    assert!(blocked("||example.com:*/ads", "https://example.com:8443/ads"));
    // the port is part of the pattern: another port, or none, does not match
    assert!(!blocked("||example.com:8080^", "https://example.com:8081/x.js"));
    assert!(!blocked("||example.com:8080^", "https://example.com/x.js"));
    // the host still has to sit on a label boundary
    assert!(!blocked("||example.com:8080^", "https://notexample.com:8080/"));
    // IPv6 literals keep their colons
    assert!(blocked("||[2001:db8::1]/x", "https://[2001:db8::1]/x.js"));
    assert!(blocked("||[2001:db8::1]:8080/x", "https://[2001:db8::1]:8080/x.js"));
}
