use adblock::lists::{FilterFormat, FilterSet, ParseOptions};
use adblock::request::Request;
use adblock::Engine;

fn engine(list: &str, format: FilterFormat) -> Engine {
    let mut fs = FilterSet::new(false);
    fs.add_filter_list(list, ParseOptions { format, ..Default::default() });
    Engine::from_filter_set(fs, true)
}

// a hosts entry behaves exactly like `||host^`
#[test]
fn compatibility_characters_are_not_rule_syntax() {
    for host in ["ex＊ample.com", "ads．tracker＊.net", "a／b.example.com"] {
        let hosts = engine(&format!("0.0.0.0 {host}"), FilterFormat::Hosts);
        let standard = engine(&format!("||{host}^"), FilterFormat::Standard);
        for url in ["https://exfooample.com/x", "https://example.com/x", "https://ads.trackerzz.net/", "https://a/b.example.com/"] {
            let r = Request::new(url, "https://site.test/", "script").unwrap();
            assert_eq!(hosts.check_network_request(&r).matched, standard.check_network_request(&r).matched, "{host} on {url}");
        }
    }
}
