use adblock::lists::{FilterSet, ParseOptions};
use adblock::resources::{MimeType, PermissionMask, Resource, ResourceType};
use adblock::Engine;
use base64::{engine::Engine as _, prelude::BASE64_STANDARD};

fn res(name: &str, kind: ResourceType, content: &str, deps: &[&str], perm: u8) -> Resource {
    Resource {
        name: name.into(),
        aliases: vec![],
        kind,
        content: BASE64_STANDARD.encode(content),
        dependencies: deps.iter().map(|s| s.to_string()).collect(),
        permission: PermissionMask::from_bits(perm),
    }
}

fn engine(with_t: bool) -> Engine {
    let mut fs = FilterSet::new(false);
    if with_t {
        fs.add_filters(["a.com##+js(s1)"], ParseOptions { permissions: PermissionMask::from_bits(1), ..Default::default() });
    }
    fs.add_filters(["a.com##+js(s2, evil)"], Default::default());
    let mut e = Engine::from_filter_set(fs, true);
    let js = ResourceType::Mime(MimeType::ApplicationJavascript);
    let f = ResourceType::Mime(MimeType::FnJavascript);
    e.use_resources([
        res("s1.js", js.clone(), "function s1() { mid() }", &["mid.fn"], 0),
        res("s2.js", js.clone(), "function s2(x) { mid(x) }", &["mid.fn"], 0),
        res("mid.fn", f.clone(), "function mid(x) { priv(x) }", &["priv.fn"], 0),
        res("priv.fn", f.clone(), "function priv(x) { }", &[], 1),
    ]);
    e
}

#[test]
fn transitive_dependency_is_checked_for_every_rule() {
    // the unprivileged rule alone: refused, and nothing of it is injected
    let alone = engine(false).url_cosmetic_resources("https://a.com").injected_script;
    assert!(!alone.contains("s2("), "{alone}");
    for _ in 0..200 {
        let both = engine(true).url_cosmetic_resources("https://a.com").injected_script;
        assert!(both.contains("s1()"), "{both}");
        assert!(!both.contains("s2(\"evil\")"), "{both}");
    }
}
