// F-C06-3 (known finding, round 8): a rule cancelled by a `$badfilter` of the construction batch is active
// when it is added afterwards with Blocker::add_filter. This test documents the defect: it FAILS on the current tree.
use adblock::blocker::{Blocker, BlockerOptions};
use adblock::filters::network::NetworkFilter;
use adblock::request::Request;
use adblock::resources::ResourceStorage;

fn nf(s: &str) -> NetworkFilter {
    NetworkFilter::parse(s, true, Default::default()).unwrap()
}

#[test]
fn incremental_equals_batch_with_badfilter() {
    let opts = BlockerOptions { enable_optimizations: false };
    let req = Request::new("https://a.com/x.js", "https://b.com/", "script").unwrap();
    let res = ResourceStorage::default();
    let batch = Blocker::new(vec![nf("||a.com^$badfilter"), nf("||a.com^")], &opts);
    assert!(!batch.check(&req, &res).matched);
    let mut inc = Blocker::new(vec![nf("||a.com^$badfilter")], &opts);
    inc.add_filter(nf("||a.com^")).unwrap();
    assert_eq!(inc.check(&req, &res).matched, batch.check(&req, &res).matched);
}
