// F-C11-4 (known finding, round 8): a hosts entry is not always the rule `||entry^`. FAILS on the current tree.
use adblock::lists::{FilterFormat, ParseOptions};
use adblock::request::Request;
use adblock::Engine;

fn blocks(rule: &str, format: FilterFormat, url: &str) -> bool {
    let e = Engine::from_rules([rule.to_string()], ParseOptions { format, ..Default::default() });
    e.check_network_request(&Request::new(url, "https://source.test/", "script").unwrap()).matched
}

#[test]
fn hosts_entry_equals_double_pipe_rule() {
    for (entry, url) in [
        ("ｗｗｗ.example.com", "https://example.com/x.js"),       // full-width `www`: only the conversion makes it `www.`
    ] {
        let hosts = blocks(&format!("0.0.0.0 {entry}"), FilterFormat::Hosts, url);
        let standard = blocks(&format!("||{entry}^"), FilterFormat::Standard, url);
        assert_eq!(hosts, standard, "entry {entry} on {url}: hosts {hosts} vs ||..^ {standard}");
    }
}
