use adblock::lists::ParseOptions;
use adblock::Engine;

fn hidden(rules: &[&str], classes: &[&str], ids: &[&str]) -> Vec<String> {
    let e = Engine::from_rules(rules.iter().map(|s| s.to_string()), ParseOptions::default());
    let mut v = e.hidden_class_id_selectors(classes, ids, &Default::default());
    v.sort();
    v
}

#[test]
fn non_ascii_code_points_are_identifier_characters() {
    let rules = ["##.ad🎯box", "##.ad·x > a", "###box—1"];
    assert_eq!(hidden(&rules, &["ad🎯box"], &[]), vec![".ad🎯box"]);
    assert_eq!(hidden(&rules, &["ad·x"], &[]), vec![".ad·x > a"]);
    assert_eq!(hidden(&rules, &[], &["box—1"]), vec!["#box—1"]);
    // and they are not filed under the ASCII prefix of their name
    assert!(hidden(&rules, &["ad"], &["box"]).is_empty());
}

#[test]
fn hex_escape_may_end_with_a_tab() {
    let rules = ["##.\\31\t0ad", "##.\\31 0ad2"];
    assert_eq!(hidden(&rules, &["10ad"], &[]), vec![".\\31\t0ad"]);
    assert_eq!(hidden(&rules, &["10ad2"], &[]), vec![".\\31 0ad2"]);
    assert!(hidden(&rules, &["1"], &[]).is_empty());
}
