use adblock::lists::{FilterSet, ParseOptions};
use adblock::request::Request;
use adblock::Engine;

fn engine(rules: &[&str], optimize: bool) -> Engine {
    let mut fs = FilterSet::new(true);
    fs.add_filters(rules, ParseOptions::default());
    Engine::from_filter_set(fs, optimize)
}

fn blocked(e: &Engine, url: &str, src: &str, ty: &str) -> bool {
    e.check_network_request(&Request::new(url, src, ty).unwrap()).matched
}

#[test]
fn f_c05_2_invalid_regex_does_not_disable_fused_siblings() {
    let rules = ["/\\/adslot[0-9]+\\//", "/\\/broken(unclosed\\//"];
    let un = engine(&rules, false);
    let op = engine(&rules, true);
    let u = "https://example.com/adslot12/x.js";
    assert!(blocked(&un, u, "https://site.test/", "script"));
    assert_eq!(blocked(&un, u, "https://site.test/", "script"), blocked(&op, u, "https://site.test/", "script"));
}

#[test]
fn f_c14_2_question_mark_inside_fragment_is_not_a_query() {
    let e = engine(&["*$removeparam=fbclid"], false);
    let r = e.check_network_request(&Request::new("https://example.com/#frag?fbclid=2", "https://example.com/", "document").unwrap());
    assert_eq!(r.rewritten_url, None, "the fragment must be preserved byte for byte");
    let r = e.check_network_request(&Request::new("https://example.com/p?fbclid=2&a=1#x?fbclid=3", "https://example.com/", "document").unwrap());
    assert_eq!(r.rewritten_url.as_deref(), Some("https://example.com/p?a=1#x?fbclid=3"));
}

#[test]
fn f_c03_2_single_scheme_rules_do_not_match_websocket_urls() {
    for optimize in [false, true] {
        let e = engine(&["|https://$websocket", "|http://$websocket,domain=a.test"], optimize);
        assert!(!blocked(&e, "wss://example.com/socket", "https://a.test/", "websocket"));
        assert!(!blocked(&e, "ws://example.com/https/http", "https://a.test/", "websocket"));
        let e = engine(&["|ws://$domain=a.test"], optimize);
        assert!(blocked(&e, "wss://example.com/socket", "https://a.test/", "websocket"));
        let e = engine(&["/socket$websocket"], optimize);
        assert!(blocked(&e, "wss://example.com/socket", "https://a.test/", "websocket"));
    }
}

#[test]
fn f_c03_3_csp_is_not_injected_for_unsupported_schemes() {
    let e = engine(&["||example.com^$csp=script-src 'none'"], false);
    let ok = Request::new("https://example.com/", "", "document").unwrap();
    assert!(e.get_csp_directives(&ok).is_some());
    let ftp = Request::new("ftp://example.com/", "", "document").unwrap();
    assert_eq!(e.get_csp_directives(&ftp), None);
}

#[test]
fn f_c12_1_ascii_hosts_are_lower_cased() {
    let r = Request::new("https://EXAMPLE.com/x", "https://Example.COM/", "script").unwrap();
    assert_eq!(r.hostname, "example.com");
    assert!(!r.is_third_party);
    let e = engine(&["||example.com^"], false);
    assert!(blocked(&e, "https://EXAMPLE.com/x", "https://other.test/", "script"));
}

#[test]
fn f_c12_2_tabs_and_newlines_in_the_host_do_not_truncate_it() {
    let r = Request::new("http://exa\tmple.com/x", "", "script").unwrap();
    assert_eq!(r.hostname, "example.com");
}

#[test]
fn f_c02_2_infix_hostname_anchor_checks_the_character_after_the_match() {
    let e = engine(&["||foo"], false);
    assert!(blocked(&e, "https://bazz.foo.com/x", "https://other.test/", "script"));
    assert!(!blocked(&e, "https://bazz.foobar.com/x", "https://other.test/", "script"));
}

#[test]
fn f_c01_3_domain_restricted_rules_need_a_source() {
    for rules in [vec!["/ads/banner$domain=example.com"], vec!["/ads/banner$domain=example.com|example.org"]] {
        let e = engine(&rules, false);
        let with = blocked(&e, "https://cdn.test/ads/banner.png", "https://example.com/", "image");
        assert!(with);
        let without = e.check_network_request(&Request::new("https://cdn.test/ads/banner.png", "", "image").unwrap()).matched;
        assert!(!without, "{:?}", rules);
    }
}

#[test]
fn f_c18_1_permissions_of_different_lists_are_not_combined() {
    use adblock::resources::{MimeType, PermissionMask, Resource, ResourceType};
    use base64::{engine::Engine as _, prelude::BASE64_STANDARD};
    let mut fs = FilterSet::new(false);
    let p1 = PermissionMask::from_bits(0b01);
    let p2 = PermissionMask::from_bits(0b10);
    fs.add_filters(&["example.com##+js(needs-both)"], ParseOptions { permissions: p1, ..Default::default() });
    fs.add_filters(&["example.com##+js(needs-both)"], ParseOptions { permissions: p2, ..Default::default() });
    let mut e = Engine::from_filter_set(fs, false);
    e.use_resources([Resource {
        name: "needs-both.js".into(),
        aliases: vec![],
        kind: ResourceType::Mime(MimeType::ApplicationJavascript),
        content: BASE64_STANDARD.encode("console.log('privileged')"),
        dependencies: vec![],
        permission: PermissionMask::from_bits(0b11),
    }]);
    let r = e.url_cosmetic_resources("https://example.com/");
    assert!(!r.injected_script.contains("privileged"), "neither list was granted both bits: {}", r.injected_script);
}

#[test]
fn f_c11_1_hosts_line_equals_hostname_rule_for_mixed_case_www() {
    use adblock::lists::FilterFormat;
    let mut a = FilterSet::new(true);
    a.add_filters(&["0.0.0.0 WWW.Example.com"], ParseOptions { format: FilterFormat::Hosts, ..Default::default() });
    let mut b = FilterSet::new(true);
    b.add_filters(&["||WWW.Example.com^"], ParseOptions::default());
    let (ea, eb) = (Engine::from_filter_set(a, false), Engine::from_filter_set(b, false));
    for u in ["https://example.com/x", "https://www.example.com/x", "https://sub.example.com/x"] {
        assert_eq!(blocked(&ea, u, "https://other.test/", "script"), blocked(&eb, u, "https://other.test/", "script"), "{u}");
    }
}

#[test]
fn f_c02_3_regex_rules_are_not_lower_cased() {
    for optimize in [false, true] {
        let e = engine(&["/\\/ab\\D\\//", "/\\/Promo[A-Z]+\\//"], optimize);
        assert!(blocked(&e, "https://example.com/abx/", "https://o.test/", "script"));
        assert!(!blocked(&e, "https://example.com/ab7/", "https://o.test/", "script"));
        assert!(blocked(&e, "https://example.com/PromoBOX/", "https://o.test/", "script"));
        assert!(blocked(&e, "https://example.com/promobox/", "https://o.test/", "script"));
    }
    let e = engine(&["/\\/Ab\\D\\//$match-case"], false);
    assert!(blocked(&e, "https://example.com/Abx/", "https://o.test/", "script"));
    assert!(!blocked(&e, "https://example.com/abx/", "https://o.test/", "script"));
}
