use adblock::blocker::{Blocker, BlockerOptions};
use adblock::filters::network::NetworkFilter;
use adblock::request::Request;
use adblock::resources::ResourceStorage;

fn blocked(rules: &[String], url: &str, optimize: bool) -> bool {
    let filters: Vec<NetworkFilter> = rules
        .iter()
        .map(|r| NetworkFilter::parse(r, true, Default::default()).unwrap())
        .collect();
    let blocker = Blocker::new(filters, &BlockerOptions { enable_optimizations: optimize });
    let request = Request::new(url, "https://source.test/", "image").unwrap();
    blocker.check(&request, &ResourceStorage::default()).matched
}

#[test]
fn a_large_fused_regex_group_keeps_matching() {
    let mut rules: Vec<String> = (0..60).map(|n| format!("/zz{n}x[a-z]{{3000}}q/")).collect();
    rules.push("/small[0-9]+/".to_string());
    let url = "https://cdn.test/small42.png";
    assert!(blocked(&rules, url, false));
    assert!(blocked(&rules, url, true), "optimisation lost a rule that matches on its own");
    let long = format!("https://cdn.test/zz7x{}q", "a".repeat(3000));
    assert!(blocked(&rules, &long, false));
    assert!(blocked(&rules, &long, true));
}
