use adblock::blocker::{Blocker, BlockerOptions};
use adblock::filters::network::NetworkFilter;
use adblock::request::Request;
use adblock::resources::{MimeType, Resource, ResourceStorage, ResourceType};

fn res(name: &str, mime: MimeType) -> Resource {
    Resource {
        name: name.to_string(),
        aliases: vec![],
        kind: ResourceType::Mime(mime),
        content: "YQ==".to_string(),
        dependencies: vec![],
        permission: Default::default(),
    }
}

fn redirect(rules: &[&str], optimize: bool) -> Option<String> {
    let filters: Vec<NetworkFilter> = rules
        .iter()
        .map(|r| NetworkFilter::parse(r, true, Default::default()).unwrap())
        .collect();
    let blocker = Blocker::new(filters, &BlockerOptions { enable_optimizations: optimize });
    let mut resources = ResourceStorage::default();
    resources.add_resource(res("noop.js", MimeType::ApplicationJavascript)).unwrap();
    resources.add_resource(res("noop.txt", MimeType::TextPlain)).unwrap();
    let request = Request::new("https://cdn.test/x.js", "https://a.com/", "script").unwrap();
    blocker.check(&request, &resources).redirect
}

#[test]
fn equal_priority_redirects_do_not_depend_on_optimisation_or_rule_order() {
    let a = "*$script,redirect=noop.js,domain=a.com|b.com";
    let b = "*$script,redirect=noop.txt,domain=a.com";
    let all = [
        redirect(&[a, b], false),
        redirect(&[a, b], true),
        redirect(&[b, a], false),
        redirect(&[b, a], true),
    ];
    assert!(all.iter().all(|r| r.is_some()));
    assert!(all.iter().all(|r| *r == all[0]), "{:?}", all);
}
