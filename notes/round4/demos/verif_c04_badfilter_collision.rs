use adblock::{lists::ParseOptions, request::Request, Engine};

fn blocked(rules: &[&str], url: &str) -> bool {
    let engine = Engine::from_rules(rules.iter().copied(), ParseOptions::default());
    let r = Request::new(url, "https://source.test/", "image").unwrap();
    engine.check_network_request(&r).matched
}

#[test]
fn badfilter_cancels_only_its_own_twin() {
    // both rules have the same options and three-character host labels that differ in two places
    assert!(blocked(&["||aa2.com^"], "https://aa2.com/x.png"));
    assert!(blocked(&["||aa2.com^", "||acp.com^$badfilter"], "https://aa2.com/x.png"));
    assert!(!blocked(&["||aa2.com^", "||aa2.com^$badfilter"], "https://aa2.com/x.png"));
}

#[test]
fn short_hostnames_get_distinct_badfilter_ids() {
    use adblock::filters::network::NetworkFilter;
    use std::collections::HashMap;
    let alphabet: Vec<char> = "abcdefghijklmnopqrstuvwxyz0123456789".chars().collect();
    let mut seen: HashMap<u64, String> = HashMap::new();
    let mut collisions = 0;
    for a in &alphabet {
        for b in &alphabet {
            for c in &alphabet {
                let rule = format!("||{a}{b}{c}.com^");
                let id = NetworkFilter::parse(&rule, false, Default::default()).unwrap().get_id_without_badfilter();
                if seen.insert(id, rule).is_some() {
                    collisions += 1;
                }
            }
        }
    }
    assert_eq!(collisions, 0);
}
