use adblock::request::Request;

fn third(url: &str, src: &str) -> bool {
    Request::new(url, src, "image").unwrap().is_third_party
}

#[test]
fn table() {
    let cases = [
        ("https://a_b.example.com/x", "https://example.com/", false),
        ("https://example.com./x", "https://example.com/", false),
        ("https://sub.example.com./x", "https://example.com/", false),
        ("https://example.com/x", "https://example.com./", false),
        ("https://example.co.uk./x", "https://other.co.uk/", true),
        ("https://a_b.example.com/x", "https://other.com/", true),
        ("https://sub.example.com/x", "https://example.com/", false),
    ];
    let mut bad = vec![];
    for (u, s, want) in cases {
        let got = third(u, s);
        if got != want { bad.push(format!("{u} from {s}: third_party={got}, want {want}")); }
    }
    assert!(bad.is_empty(), "{:#?}", bad);
}
