use adblock::filters::network::{NetworkFilter, NetworkMatchable};
use adblock::regex_manager::RegexManager;
use adblock::request::Request;

fn m(rule: &str, url: &str) -> bool {
    let f = NetworkFilter::parse(rule, true, Default::default()).unwrap();
    let r = Request::new(url, "https://source.test/", "image").unwrap();
    f.matches(&r, &mut RegexManager::default())
}

#[test]
fn every_occurrence_of_the_hostname_is_considered() {
    let cases = [
        // the anchored occurrence is not the first one
        ("||ab^", "https://xab.ab/x", true),
        ("||ab.com", "https://xab.com.ab.com/x", true),
        ("||a.b", "https://a.b.xa.b/", true),
        // the pattern continues after the second occurrence only
        ("||s.com/x", "https://s.com.s.com/x", true),
        ("||example.com/x", "https://example.com.example.com/x", true),
        ("||s.com/x|", "https://s.com.s.com/x", true),
        ("||s.com/*x^", "https://s.com.s.com/ax/", true),
        // the hostname's text also occurs in the scheme or the userinfo
        ("||ws/x", "ws://ws/x", true),
        ("||example.com/x", "https://example.com@example.com/x", true),
        // `||host^` needs an anchored occurrence at the end of the hostname
        ("||example.com^", "https://example.com.myexample.com/x", false),
        ("||example.com^", "https://example.com.example.com/x", true),
        // unchanged
        ("||example.com^", "https://example.com/x", true),
        ("||example.com^", "https://sub.example.com/x", true),
        ("||example.com^", "https://notexample.com/x", false),
        ("||ads", "https://ads.leads.com/x", true),
        ("||ads", "https://leads.com/x", false),
        ("||example.com/x", "https://example.com/y/x", false),
        ("||example.com*/x", "https://example.com/y/x", true),
    ];
    let mut bad = vec![];
    for (rule, url, want) in cases {
        let got = m(rule, url);
        if got != want {
            bad.push(format!("{rule} vs {url}: got {got}, want {want}"));
        }
    }
    assert!(bad.is_empty(), "{:#?}", bad);
}
