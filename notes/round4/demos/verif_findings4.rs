use adblock::{lists::ParseOptions, request::Request, Engine};

fn blocked(rules: &[&str], url: &str, ty: &str) -> bool {
    let engine = Engine::from_rules(rules.iter().copied(), ParseOptions::default());
    let r = Request::new(url, "https://source.test/", ty).unwrap();
    engine.check_network_request(&r).matched
}

#[test]
fn f_c02_www_prefix_is_stripped() {
    // `||www.example.com^` should cover www.example.com and its subdomains only
    assert!(blocked(&["||www.example.com^"], "https://www.example.com/x", "image"));
    assert!(blocked(&["||www.example.com^"], "https://example.com/x", "image"), "finding no longer reproduces");
}

#[test]
fn f_c02_ws_pattern_covers_wss() {
    assert!(blocked(&["|ws://"], "ws://example.com/x", "websocket"));
    assert!(blocked(&["|ws://"], "wss://example.com/x", "websocket"), "finding no longer reproduces");
}

#[test]
fn f_c14_c04_token_cap() {
    let engine = Engine::from_rules(["*$removeparam=fbclid"], ParseOptions::default());
    let short = "https://example.com/?a=1&fbclid=abc";
    let r = Request::new(short, "https://source.test/", "document").unwrap();
    assert_eq!(engine.check_network_request(&r).rewritten_url.as_deref(), Some("https://example.com/?a=1"));
    let many: String = (0..70).map(|i| format!("k{i}=v{i}&")).collect();
    let long = format!("https://example.com/?{many}fbclid=abc");
    let r = Request::new(&long, "https://source.test/", "document").unwrap();
    assert_eq!(engine.check_network_request(&r).rewritten_url, None, "finding no longer reproduces");
    // C04: adding blocking rules un-blocks a long URL
    let segs: String = (0..130).map(|i| format!("s{i}/")).collect();
    let url = format!("https://example.com/seg1/{segs}trackpixel.gif");
    assert!(blocked(&["/seg1/*/trackpixel.gif"], &url, "image"));
    assert!(!blocked(&["/seg1/*/trackpixel.gif", "/seg1/a", "/seg1/b", "/seg1/c"], &url, "image"), "finding no longer reproduces");
}
