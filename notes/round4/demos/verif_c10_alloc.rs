use std::alloc::{GlobalAlloc, Layout, System};
use std::sync::atomic::{AtomicUsize, Ordering};

struct Counting;
static LARGEST: AtomicUsize = AtomicUsize::new(0);

unsafe impl GlobalAlloc for Counting {
    unsafe fn alloc(&self, l: Layout) -> *mut u8 {
        LARGEST.fetch_max(l.size(), Ordering::Relaxed);
        System.alloc(l)
    }
    unsafe fn dealloc(&self, p: *mut u8, l: Layout) {
        System.dealloc(p, l)
    }
    unsafe fn realloc(&self, p: *mut u8, l: Layout, n: usize) -> *mut u8 {
        LARGEST.fetch_max(n, Ordering::Relaxed);
        System.realloc(p, l, n)
    }
    unsafe fn alloc_zeroed(&self, l: Layout) -> *mut u8 {
        LARGEST.fetch_max(l.size(), Ordering::Relaxed);
        System.alloc_zeroed(l)
    }
}

#[global_allocator]
static A: Counting = Counting;

#[test]
fn declared_length_does_not_drive_allocation() {
    let mut engine = adblock::Engine::default();
    // magic, version 0, then a msgpack str32 header declaring 512 MiB with no payload
    let data = [0xd1u8, 0xd9, 0x3a, 0xaf, 0x00, 0xdb, 0x20, 0x00, 0x00, 0x00];
    LARGEST.store(0, Ordering::Relaxed);
    assert!(engine.deserialize(&data).is_err());
    let largest = LARGEST.load(Ordering::Relaxed);
    assert!(largest < 1 << 20, "a 10-byte buffer made deserialize allocate {} bytes at once", largest);
}
