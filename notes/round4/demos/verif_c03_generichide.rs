use adblock::{lists::ParseOptions, Engine};

#[test]
fn generichide_exception_is_not_applied_to_unsupported_schemes() {
    let engine = Engine::from_rules(["@@||example.com^$generichide", "##.ad"], ParseOptions::default());
    // supported scheme: the exception applies, generic rules are withheld
    assert!(engine.url_cosmetic_resources("https://example.com/").generichide);
    // the same host over a scheme that network rules never match
    assert!(!engine.url_cosmetic_resources("ftp://example.com/").generichide);
}
