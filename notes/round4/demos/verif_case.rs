use adblock::{lists::ParseOptions, request::Request, Engine};

#[test]
fn cosmetic_rule_hostname_case() {
    let engine = Engine::from_rules(["Example.org##.up", "example.org##.low"], ParseOptions::default());
    let r = engine.url_cosmetic_resources("https://example.org/");
    assert!(r.hide_selectors.contains(".low"));
    assert!(r.hide_selectors.contains(".up"), "upper-case rule hostname never applies");
}

#[test]
fn network_domain_option_case() {
    let engine = Engine::from_rules(["/ads.js$domain=Example.com"], ParseOptions::default());
    let r = Request::new("https://cdn.test/ads.js", "https://example.com/", "script").unwrap();
    assert!(engine.check_network_request(&r).matched, "upper-case domain= value never applies");
}
