use adblock::request::Request;
use adblock::Engine;

// `$domain=` lists an internationalised domain: requests from that site (whose source hostname
// is punycode, as in every Request) are covered.
#[test]
fn idn_domain_option_applies() {
    let engine = Engine::from_rules(["/banner.js$script,domain=пример.рф|Bücher.example"], Default::default());
    for src in ["https://пример.рф/", "https://xn--e1afmkfd.xn--p1ai/page", "https://sub.bücher.example/"] {
        let r = Request::new("https://cdn.test/banner.js", src, "script").unwrap();
        assert!(engine.check_network_request(&r).matched, "{src}");
    }
    let r = Request::new("https://cdn.test/banner.js", "https://other.example/", "script").unwrap();
    assert!(!engine.check_network_request(&r).matched);
    // and the negated form excludes
    let engine = Engine::from_rules(["/banner.js$script,domain=~пример.рф"], Default::default());
    let r = Request::new("https://cdn.test/banner.js", "https://пример.рф/", "script").unwrap();
    assert!(!engine.check_network_request(&r).matched);
}
