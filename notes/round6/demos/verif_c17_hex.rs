use adblock::Engine;
use std::collections::HashSet;

// CSS: a hex escape is 1-6 hex digits, optionally followed by ONE space that belongs to it.
#[test]
fn hex_escape_without_trailing_space() {
    let engine = Engine::from_rules(
        [
            r"##.\32xl\:grid",      // Tailwind's `2xl:grid`
            r"###\5f-ad",           // `_-ad`
            r"##.\31 0ad",          // `10ad` (space terminates the escape)
            r"##.\000031zzz",       // six digits, no space: `1zzz`
        ],
        Default::default(),
    );
    let none = HashSet::new();
    let sel = engine.hidden_class_id_selectors(["2xl:grid", "10ad", "1zzz"], ["_-ad"], &none);
    let got: HashSet<String> = sel.into_iter().collect();
    let want: HashSet<String> = [r".\32xl\:grid", r"#\5f-ad", r".\31 0ad", r".\000031zzz"]
        .iter().map(|s| s.to_string()).collect();
    assert_eq!(got, want);
    // and none of them is injected unconditionally
    let r = engine.url_cosmetic_resources("https://example.com/");
    assert!(r.hide_selectors.is_empty(), "{:?}", r.hide_selectors);
}
