use adblock::lists::{FilterSet, ParseOptions};
use adblock::resources::{MimeType, PermissionMask, Resource, ResourceType};
use adblock::Engine;
use base64::{engine::general_purpose::STANDARD, Engine as _};

fn res(name: &str, aliases: &[&str], body: &str, deps: &[&str], perm: u8) -> Resource {
    Resource {
        name: name.into(),
        aliases: aliases.iter().map(|s| s.to_string()).collect(),
        kind: ResourceType::Mime(if name.ends_with(".js") { MimeType::ApplicationJavascript } else { MimeType::FnJavascript }),
        content: STANDARD.encode(body),
        dependencies: deps.iter().map(|s| s.to_string()).collect(),
        permission: PermissionMask::from_bits(perm),
    }
}

// An unprivileged list's scriptlet whose dependency needs a permission must not be injected,
// whatever else is injected on the page.
#[test]
fn privileged_dependency_is_not_lent_to_an_untrusted_list() {
    let mut outcomes = std::collections::BTreeSet::new();
    for _ in 0..64 {
        let mut fs = FilterSet::new(false);
        fs.add_filter_list(
            "example.com##+js(trusted)",
            ParseOptions { permissions: PermissionMask::from_bits(1), ..Default::default() },
        );
        fs.add_filter_list("example.com##+js(untrusted)", ParseOptions::default());
        let mut engine = Engine::from_filter_set(fs, false);
        engine.use_resources([
            res("trusted.js", &[], "function trusted() {}", &["priv.fn"], 1),
            res("untrusted.js", &[], "function untrusted() {}", &["priv.fn"], 0),
            res("priv.fn", &[], "function privileged() {}", &[], 1),
        ]);
        let s = engine.url_cosmetic_resources("https://example.com/").injected_script;
        if outcomes.is_empty() { eprintln!("SCRIPT: {s}"); }
        outcomes.insert(s.contains("untrusted()"));
    }
    assert_eq!(outcomes.into_iter().collect::<Vec<_>>(), vec![false]);
}

// A dependency cycle that goes through alias names must terminate.
#[test]
fn alias_cycle_terminates() {
    let mut fs = FilterSet::new(false);
    fs.add_filter_list("example.com##+js(a)", ParseOptions::default());
    let mut engine = Engine::from_filter_set(fs, false);
    engine.use_resources([
        res("a.js", &["a-alias.fn"], "function a() {}", &["b-alias.fn"], 0),
        res("b.fn", &["b-alias.fn"], "function b() {}", &["a-alias.fn"], 0),
    ]);
    let s = engine.url_cosmetic_resources("https://example.com/").injected_script;
    eprintln!("SCRIPT2: {s}");
    assert!(s.contains("a()"));
}
