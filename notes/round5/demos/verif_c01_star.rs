use adblock::{lists::ParseOptions, request::Request, Engine};
use adblock::filters::network::{NetworkFilter, NetworkMatchable};
use adblock::regex_manager::RegexManager;

#[test]
fn literal_star_in_the_url() {
    let rule = "/foo^";
    let url = "https://a.com/foo*bar";
    let f = NetworkFilter::parse(rule, true, Default::default()).unwrap();
    let r = Request::new(url, "https://b.com/", "image").unwrap();
    assert!(f.matches(&r, &mut RegexManager::default()), "the rule itself matches");
    let engine = Engine::from_rules([rule], ParseOptions::default());
    assert!(engine.check_network_request(&r).matched, "the engine does not find the rule");
}
