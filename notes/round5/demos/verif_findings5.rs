use adblock::{lists::ParseOptions, request::Request, Engine};

#[test]
fn f_c16_single_label_host_rule_applies_as_entity() {
    let engine = Engine::from_rules(["example##.ad"], ParseOptions::default());
    // the rule names the host `example`; www.example.com is neither that host nor a subdomain of it
    let r = engine.url_cosmetic_resources("https://www.example.com/");
    assert!(r.hide_selectors.contains(".ad"), "finding no longer reproduces");
    let r = engine.url_cosmetic_resources("https://example/");
    assert!(r.hide_selectors.contains(".ad"));
}

#[test]
fn f_c13_important_redirect_rule_blocks() {
    let engine = Engine::from_rules(["||a.com/x.js$important,redirect-rule=noopjs"], ParseOptions::default());
    let r = Request::new("https://a.com/x.js", "https://b.com/", "script").unwrap();
    let res = engine.check_network_request(&r);
    assert!(res.matched, "finding no longer reproduces: {:?}", res);
}

#[test]
fn f_c15_csp_token_cap() {
    let engine = Engine::from_rules(["/zzmarker/target^$csp=frame-src 'none'"], ParseOptions::default());
    let short = Request::new("https://example.com/zzmarker/target", "https://example.com/", "document").unwrap();
    assert!(engine.get_csp_directives(&short).is_some());
    let segs: String = (0..150).map(|i| format!("s{i}/")).collect();
    let long = Request::new(&format!("https://example.com/{segs}zzmarker/target"), "https://example.com/", "document").unwrap();
    assert!(engine.get_csp_directives(&long).is_none(), "finding no longer reproduces");
}
