use adblock::{lists::ParseOptions, request::Request, resources::{MimeType, Resource, ResourceType}, Engine};

#[test]
fn important_redirect_rule_redirects_but_never_blocks() {
    let mut engine = Engine::from_rules(["||a.com/x.js$important,redirect-rule=noopjs", "||a.com/y.js$important,redirect=noopjs"], ParseOptions::default());
    engine.use_resources([Resource { name: "noopjs".into(), aliases: vec![], kind: ResourceType::Mime(MimeType::ApplicationJavascript), content: "YQ==".into(), dependencies: vec![], permission: Default::default() }]);
    let r = Request::new("https://a.com/x.js", "https://b.com/", "script").unwrap();
    let res = engine.check_network_request(&r);
    assert!(!res.matched && !res.important, "redirect-rule alone never blocks: {:?}", res);
    // it still redirects once something else blocks the request
    let mut engine2 = Engine::from_rules(["||a.com/x.js$important,redirect-rule=noopjs", "||a.com^"], ParseOptions::default());
    engine2.use_resources([Resource { name: "noopjs".into(), aliases: vec![], kind: ResourceType::Mime(MimeType::ApplicationJavascript), content: "YQ==".into(), dependencies: vec![], permission: Default::default() }]);
    let res2 = engine2.check_network_request(&r);
    assert!(res2.matched && res2.redirect.is_some());
    // `$important,redirect=` keeps blocking with precedence over exceptions
    let r3 = Request::new("https://a.com/y.js", "https://b.com/", "script").unwrap();
    let res3 = engine.check_network_request(&r3);
    assert!(res3.matched && res3.important && res3.redirect.is_some());
}
