"""A2 helpers: branch decisions that must hold to reach a block (control dependence summarised as
dominating conditions), and the conditional definitions of a local."""
from collections import deque


def _reach_without(fn, start, avoid):
    seen = set()
    dq = deque([start])
    while dq:
        b = dq.popleft()
        if b in seen or b == avoid:
            continue
        seen.add(b)
        for s in fn.succ(b):
            dq.append(s)
    return seen


def _norm(fn, op):
    e = fn.expr_operand(op)
    neg = False
    while e.startswith("Not(") and e.endswith(")"):
        e = e[4:-1]
        neg = not neg
    return e, neg


def dominating_conditions(fn, bb, cache=None):
    """{expr: value} for every switch block that dominates `bb` and whose outcome is determined
    on every path to `bb` (bb is reachable from exactly one successor of the switch, not counting
    paths that go round through the switch again). value: int or ('not', (..))."""
    if cache is None:
        cache = fn.__dict__.setdefault("_domcond_cache", {})
    if bb in cache:
        return cache[bb]
    out = {}
    doms = fn.dominators().get(bb, set())
    for s in sorted(doms):
        if s == bb:
            continue
        t = fn.blocks[s]["t"]
        if t["k"] != "switch":
            continue
        edges = [(v, tb) for v, tb in t["targets"]] + [(None, t["otherwise"])]
        hit = []
        rk = ("reach", s)
        if rk not in cache:
            cache[rk] = {tb: _reach_without(fn, tb, s) for _, tb in edges}
        for v, tb in edges:
            if bb in cache[rk][tb]:
                hit.append((v, tb))
        targets = set(tb for _, tb in hit)
        if len(targets) != 1:
            continue
        vals = [v for v, _ in hit]
        e, neg = _norm(fn, t["discr"])
        isbool = t["dty"] == "bool"
        listed = [v for v, _ in t["targets"]]
        if len(vals) == 1 and vals[0] is not None:
            val = vals[0]
            if isbool and neg:
                val = 1 - val
        elif None in vals and len(vals) == 1:
            if isbool and len(listed) == 1:
                val = 1 - listed[0]
                if neg:
                    val = 1 - val
            else:
                val = ("not", tuple(listed))
        else:
            val = ("in", tuple(sorted(str(v) for v in vals)))
        if e in out and out[e] != val:
            out[e] = ("conflict", out[e], val)
        else:
            out[e] = val
    cache[bb] = out
    return out


def conditional_defs(fn, local):
    """[(kind, bb, value_expr, conds)] for every full definition of `local`"""
    out = []
    for d in fn.defs().get(local, []):
        if d[0] == "assign":
            b = d[1]
            out.append(("assign", b, fn.expr_rvalue(d[3]["rv"]), dominating_conditions(fn, b), d[3]))
        else:
            b = d[1]
            out.append(("call", b, fn.expr_call(d[2]), dominating_conditions(fn, b), d[2]))
    return out


def has_cond(conds, regex, value):
    """is there a dominating condition whose expression matches regex with the given value?"""
    import re
    rx = re.compile(regex)
    for e, v in conds.items():
        if rx.search(e) and v == value:
            return True
    return False
