"""A2 helpers: branch decisions that must hold to reach a block (control dependence summarised as
dominating conditions), and the conditional definitions of a local."""
import re
from collections import deque

from .facts import strip_generics


def _reach_without(fn, start, avoid):
    seen = set()
    dq = deque([start])
    while dq:
        b = dq.popleft()
        if b in seen or b == avoid:
            continue
        seen.add(b)
        for s in fn.succ(b):
            dq.append(s)
    return seen


def _norm(fn, op, render=None):
    e = render(op) if render else fn.expr_operand(op)
    neg = False
    while e.startswith("Not(") and e.endswith(")"):
        e = e[4:-1]
        neg = not neg
    return e, neg


class Conds(dict):
    """{expr: value}; .callbb maps the block of the call that produced a discriminant to its value"""

    def __init__(self, *a, **k):
        super().__init__(*a, **k)
        self.callbb = {}


def _defining_call_block(fn, op, hops=6):
    """block of the call whose result (possibly through moves / Not) is this switch operand"""
    while hops > 0 and op.get("k") in ("copy", "move") and not op["pl"]["p"]:
        ds = fn.defs().get(op["pl"]["l"], [])
        if len(ds) != 1:
            return None
        d = ds[0]
        if d[0] == "call":
            return d[1]
        rv = d[3]["rv"]
        if rv["k"] == "use":
            op = rv["op"]
        elif rv["k"] == "unop" and rv["op"] == "Not":
            op = rv["a"]
        elif rv["k"] == "discr" and not rv["pl"]["p"]:
            op = {"k": "copy", "pl": rv["pl"]}
        else:
            return None
        hops -= 1
    return None


def dominating_conditions(fn, bb, cache=None, render=None):
    """{expr: value} for every switch block that dominates `bb` and whose outcome is determined
    on every path to `bb` (bb is reachable from exactly one successor of the switch, not counting
    paths that go round through the switch again). value: int or ('not', (..))."""
    if cache is None:
        cache = fn.__dict__.setdefault("_domcond_cache" if render is None else "_domcond_cache_v", {})
    if bb in cache:
        return cache[bb]
    out = Conds()
    doms = fn.dominators().get(bb, set())
    for s in sorted(doms):
        if s == bb:
            continue
        t = fn.blocks[s]["t"]
        if t["k"] != "switch":
            continue
        edges = [(v, tb) for v, tb in t["targets"]] + [(None, t["otherwise"])]
        hit = []
        rk = ("reach", s)
        if rk not in cache:
            cache[rk] = {tb: _reach_without(fn, tb, s) for _, tb in edges}
        for v, tb in edges:
            if bb in cache[rk][tb]:
                hit.append((v, tb))
        targets = set(tb for _, tb in hit)
        if len(targets) != 1:
            continue
        vals = [v for v, _ in hit]
        e, neg = _norm(fn, t["discr"], render)
        isbool = t["dty"] == "bool"
        listed = [v for v, _ in t["targets"]]
        if len(vals) == 1 and vals[0] is not None:
            val = vals[0]
            if isbool and neg:
                val = 1 - val
        elif None in vals and len(vals) == 1:
            if isbool and len(listed) == 1:
                val = 1 - listed[0]
                if neg:
                    val = 1 - val
            else:
                val = ("not", tuple(listed))
        else:
            val = ("in", tuple(sorted(str(v) for v in vals)))
        if e in out and out[e] != val:
            out[e] = ("conflict", out[e], val)
        else:
            out[e] = val
        # also key the decision by the block of the call that produced the discriminant
        cb = _defining_call_block(fn, t["discr"])
        if cb is not None:
            out.callbb[cb] = val
    cache[bb] = out
    return out


def conditional_defs(fn, local):
    """[(kind, bb, value_expr, conds)] for every full definition of `local`"""
    out = []
    for d in fn.defs().get(local, []):
        if d[0] == "assign":
            b = d[1]
            out.append(("assign", b, fn.expr_rvalue(d[3]["rv"]), dominating_conditions(fn, b), d[3]))
        else:
            b = d[1]
            out.append(("call", b, fn.expr_call(d[2]), dominating_conditions(fn, b), d[2]))
    return out


def has_cond(conds, regex, value):
    """is there a dominating condition whose expression matches regex with the given value?"""
    rx = re.compile(regex)
    for e, v in conds.items():
        if isinstance(e, str) and rx.search(e) and v == value:
            return True
    return False


def _switch_edges(fn, sb):
    """[(value, target)] of a switch block with boolean normalisation ((expr, value) semantics as in
    dominating_conditions)"""
    t = fn.blocks[sb]["t"]
    e, neg = _norm(fn, t["discr"])
    isbool = t["dty"] == "bool"
    out = []
    listed = [v for v, _ in t["targets"]]
    for v, tb in t["targets"]:
        val = 1 - v if (isbool and neg) else v
        out.append((val, tb))
    if isbool and len(listed) == 1:
        ov = 1 - listed[0]
        if neg:
            ov = 1 - ov
        out.append((ov, t["otherwise"]))
    else:
        out.append((("not", tuple(listed)), t["otherwise"]))
    return e, out


def guarded_by_disjunction(fn, bb, rx_a, val_a, rx_b, val_b):
    """True iff every path to `bb` has decided (A == val_a) or (B == val_b), where A / B are the switch
    discriminants whose canonical expressions match rx_a / rx_b (short-circuit `a || b` lowering:
    the B test sits on the A-fails edge)."""
    import re
    ra, rb = re.compile(rx_a), re.compile(rx_b)
    doms = fn.dominators().get(bb, set())
    cands = []
    for sb in sorted(doms):
        t = fn.blocks[sb]["t"]
        if t["k"] != "switch" or sb == bb:
            continue
        e, edges = _switch_edges(fn, sb)
        if ra.search(e):
            cands.append((sb, edges, val_a, rb, val_b))
        elif rb.search(e):
            cands.append((sb, edges, val_b, ra, val_a))
    for sa, edges, va, r_other, v_other in cands:
        fail_targets = [tb for v, tb in edges if v != va]
        ok = True
        for ta in fail_targets:
            reach = _reach_without(fn, ta, sa)
            if bb not in reach:
                continue
            # the other test must separate ta from bb
            sep = False
            for sb2 in sorted(reach):
                t2 = fn.blocks[sb2]["t"]
                if t2["k"] != "switch":
                    continue
                e2, edges2 = _switch_edges(fn, sb2)
                if not r_other.search(e2):
                    continue
                # bb unreachable from ta once sb2 is removed, and unreachable from sb2's failing edges
                if bb in _reach_without(fn, ta, sb2) and sb2 != ta:
                    continue
                bad = [tb for v, tb in edges2 if v != v_other and bb in _reach_without(fn, tb, sa)]
                if not bad:
                    sep = True
            if not sep:
                ok = False
        if ok:
            return True
    return False


SELECTIVE_ADAPTERS = re.compile(
    r"^std::iter::Iterator::(filter|filter_map|take|take_while|skip|skip_while|step_by|map_while|find|find_map|"
    r"nth|last|position|rposition|min|max|min_by|max_by|min_by_key|max_by_key|next_back|nth_back)$|"
    r"^core::slice::(first|last|split_first|split_last)$|^std::iter::DoubleEndedIterator::(nth_back|rfind)$|"
    r"^(itertools|blocker::_::itertools)::Itertools::(dedup|unique|unique_by|dedup_by|take_while_ref|while_some)$")


def selective_adapters(*fns):
    """call sites of iterator adapters that can drop, truncate or pick elements (the who-may-call rule for
    loops that must visit EVERY element): [(callee, loc)]"""
    out = []
    for g in fns:
        for b, t in g.calls():
            c = strip_generics(t["callee"])
            if SELECTIVE_ADAPTERS.search(c):
                out.append((c, g.loc(b)))
    return out


TRUNCATING_ADAPTERS = re.compile(
    r"^std::iter::Iterator::(take|take_while|skip|skip_while|step_by|map_while|nth|last|next_back|nth_back|"
    r"find|find_map|position|rposition)$|^core::slice::(first|last|split_first|split_last)$|"
    r"^std::iter::DoubleEndedIterator::(nth_back|rfind)$|"
    r"^(itertools|blocker::_::itertools)::Itertools::(take_while_ref|while_some|dedup|dedup_by|unique|unique_by)$")


def rule_visits_all(run, rid, F, cfg, roots, why, allowed=(), minimum=1):
    """Who-may-call rule for code that has to treat EVERY element of a list (options of a rule, entries of a
    `domain=` list, lines of a filter list, matching rules, selectors of a bucket): inside the named functions,
    their closures and nested helper functions no iterator adapter that truncates the sequence or picks one
    element is called. Predicate adapters (`filter`, `filter_map`) are not restricted here: replacing an `if` in
    a loop body by `.filter(..)` preserves behaviour, and what their predicates test is the subject of the
    value-level rules. `allowed` lists reviewed (function regex, adapter) exceptions."""
    n = 0
    for r in roots:
        fs = [f for nme, f in F.fns.items() if nme == r or nme.startswith(r + "::")]
        if not fs:
            run.ob(rid, f"visits-all:{r.split('::')[-1]}", False, f"function `{r}` not found", status="UNDISCHARGED", config=cfg)
            continue
        run.touched(*fs)
        n += len(fs)
        bad = []
        for g in fs:
            for b, t in g.calls():
                c = strip_generics(t["callee"])
                if TRUNCATING_ADAPTERS.search(c) and not any(re.search(fr, g.name) and c.endswith("::" + ad) for fr, ad in allowed):
                    bad.append((c.split("::")[-1], g.loc(b)))
        brk = [(g.name.rsplit("::", 1)[-1], hx) for g in fs for hx in loop_breaks(g)
               if not any(re.search(fr, g.name) and ad == "break" for fr, ad in allowed)]
        run.ob(rid, f"no-break:{r.split('::', 1)[-1]}", not brk,
               f"no `for` loop of {r} is left by a `break` (an exit other than the end of the iteration or a `return`): "
               f"{brk[:3]}. {why}", site=brk[0][1][1] if brk else fs[0].loc(0), config=cfg)
        run.ob(rid, f"visits-all:{r.split('::', 1)[-1]}", not bad,
               f"{r} (with its closures and local helpers, {len(fs)} bodies) calls no truncating / picking iterator "
               f"adapter: {bad[:3]}. {why}", site=bad[0][1] if bad else fs[0].loc(0), config=cfg)
    run.floor(rid, f"bodies searched for truncating adapters [{cfg}]", n, minimum)


def natural_loops(fn):
    """[(header, body)] for every back edge u -> h (h dominates u), bodies of loops sharing a header merged"""
    preds = fn.preds()
    loops = {}
    for u in sorted(fn.normal_blocks()):
        for h in fn.succ(u):
            if fn.dominates(h, u):
                body = loops.setdefault(h, {h})
                stack = [u]
                while stack:
                    x = stack.pop()
                    if x in body:
                        continue
                    body.add(x)
                    stack.extend(preds.get(x, []))
    return sorted(loops.items())


def loop_of_iteration(fn, loops, next_block):
    """the innermost loop whose body contains the block of an `Iterator::next` call"""
    cands = [(h, body) for h, body in loops if next_block in body]
    return min(cands, key=lambda hb: len(hb[1])) if cands else None


def early_exits(fn, body, next_block):
    """edges that leave a `for` loop other than through the exhaustion of its iterator: [(from, to)].
    The regular exit is the `None` arm (discriminant 0) of the switch that follows the `next()` call at `next_block`."""
    t = fn.blocks[next_block]["t"]
    regular = set()
    nb = t.get("t")
    hops = 0
    while nb is not None and hops < 3:
        tb = fn.blocks[nb]["t"]
        if tb["k"] == "switch":
            for v, tg in tb["targets"]:
                if v == 0:
                    regular.add((nb, tg))
            if not any(v == 0 for v, _ in tb["targets"]):
                regular.add((nb, tb["otherwise"]))
            break
        nb = tb.get("t") if tb["k"] == "goto" else None
        hops += 1
    out = []
    normal = fn.normal_blocks()
    for b in sorted(body):
        for s_ in fn.succ(b):
            if s_ in normal and s_ not in body and (b, s_) not in regular:
                if fn.blocks[s_]["t"]["k"] == "unreachable":
                    continue
                out.append((b, s_))
    return out


def _regular_exit_targets(fn, next_block):
    t = fn.blocks[next_block]["t"]
    nb, hops = t.get("t"), 0
    while nb is not None and hops < 3:
        tb = fn.blocks[nb]["t"]
        if tb["k"] == "switch":
            z = [tg for v, tg in tb["targets"] if v == 0]
            return z or [tb["otherwise"]]
        nb = tb.get("t") if tb["k"] == "goto" else None
        hops += 1
    return []


def loop_breaks(fn):
    """[(loop header loc, exit loc)] for every `for` loop (header = an Iterator::next call) that is left by a `break`:
    an edge out of the loop, other than the exhaustion of the iterator, from which control goes on to code that also
    follows the regular end of the loop and does something there (makes a call). A `return` inside the loop shares
    only the epilogue (drops, the return itself) with the regular exit."""
    loops = natural_loops(fn)
    out = []
    for b, t in fn.calls(r"Iterator>::next$|Iterator::next$"):
        lp = loop_of_iteration(fn, loops, b)
        if not (lp and lp[0] == b):
            continue
        after = set()
        for tg in _regular_exit_targets(fn, b):
            # (what follows the loop, not counting a later pass through the same loop when it is nested)
            after |= set(fn.reachable_from(tg, avoid={b})) - lp[1]
        for x, y in early_exits(fn, lp[1], b):
            shared = (set(fn.reachable_from(y)) - lp[1]) & after
            if any(fn.blocks[z]["t"]["k"] == "call" for z in shared):
                out.append((fn.loc(b), fn.loc(x)))
    return out


def call_parts(e):
    """("callee", [top-level argument strings]) of a rendered call expression `callee(a, b, ..)`, else None"""
    i = e.find("(")
    if i < 0 or not e.endswith(")"):
        return None
    depth, args, cur = 0, [], ""
    for ch in e[i + 1:-1]:
        if ch in "([{":
            depth += 1
        elif ch in ")]}":
            depth -= 1
        if ch == "," and depth == 0:
            args.append(cur.strip())
            cur = ""
        else:
            cur += ch
    if cur.strip():
        args.append(cur.strip())
    return e[:i], args


def char_predicate_set(c):
    """for a closure of the shape `|ch| matches!(ch, 'a' | 'b' | ..)` (one switch on its char argument, constant
    true / false results): the set of characters it accepts; None for any other shape"""
    blocks = [b for b in sorted(c.normal_blocks())]
    if not blocks or c.blocks[blocks[0]]["t"]["k"] != "switch":
        return None
    t = c.blocks[blocks[0]]["t"]
    if not re.match(r"^arg:\w+$", c.expr_operand(t["discr"])):
        return None

    def const_result(b):
        seen = 0
        while seen < 4:
            blk = c.blocks[b]
            vals = [c.expr_rvalue(st["rv"]) for st in blk["s"] if st["k"] == "assign" and st["pl"]["l"] == 0 and not st["pl"]["p"]]
            if vals:
                return vals[-1]
            if blk["t"]["k"] != "goto":
                return None
            b = blk["t"]["t"]
            seen += 1
        return None
    other = const_result(t["otherwise"]) if t.get("otherwise") is not None else None
    acc = set()
    for v, tg in t["targets"]:
        r = const_result(tg)
        if r not in ("true", "false"):
            return None
        if r == "true":
            acc.add(chr(v))
    if other != "false":
        return None
    if any(c.blocks[b]["t"]["k"] == "call" for b in blocks):
        return None
    return acc


def unrecorded_iterations(fn, next_rx, record, expr_rx=None):
    """For the `for` loop driven by the `next()` call matching `next_rx`: the back edges (`continue`, or the end of
    the body) that can be reached in an iteration without passing a block accepted by `record(block_index, terminator)`
    -- i.e. ways of going on to the next element without having recorded the current one. Returning from the
    function (rejecting the whole input) is not a back edge. Decided by dominance: a skipping path in any iteration
    exists in the first one too, and then the recording block does not dominate the back-edge source.
    -> (number of back edges, [loc of each unrecorded one]) or None when the loop is not found"""
    loops = natural_loops(fn)
    heads = [b for b, t in fn.calls(next_rx) if (loop_of_iteration(fn, loops, b) or (None,))[0] == b
             and (expr_rx is None or re.search(expr_rx, fn.expr_call(t)))]
    if len(heads) != 1:
        return None
    h = heads[0]
    body = dict(loops)[h]
    rec = [b for b in body if fn.blocks[b]["t"]["k"] == "call" and record(b, fn.blocks[b]["t"])]
    back = [u for u in body if h in fn.succ(u)]
    bad = [fn.loc(u) for u in back if not any(fn.dominates(r, u) for r in rec)]
    return len(back), bad


def walk_decisions(fn, start, stops, render=None, limit=64):
    """Follows the CFG from block `start`, branching at every switch, until a block of `stops` (block -> label) is
    reached: [(conds, label)] with conds = {rendered discriminant: value} (`else` arms of 0/1 switches are rendered as
    the complementary value). Calls, asserts and gotos are followed through their normal successor. Used for small
    decision regions whose conditions are short-circuit chains (no single dominating test)."""
    render = render or fn.expr_operand
    rows = []

    def go(b, conds, seen):
        if b in stops:
            rows.append((dict(conds), stops[b]))
            return
        if b in seen or len(seen) > limit:
            rows.append((dict(conds), "?"))
            return
        t = fn.blocks[b]["t"]
        if t["k"] == "switch":
            d = render(t["discr"])
            vals = [v for v, _ in t["targets"]]
            for v, tg in t["targets"]:
                go(tg, conds + [(d, v)], seen | {b})
            other = 1 if vals == [0] else (0 if vals == [1] else ("not", tuple(vals)))
            go(t["otherwise"], conds + [(d, other)], seen | {b})
        elif t.get("t") is not None and t["k"] in ("goto", "call", "assert", "drop"):
            go(t["t"], conds, seen | {b})
        else:
            rows.append((dict(conds), "end:" + t["k"]))
    go(start, [], frozenset())
    return rows
