"""A4 — finite-domain path interpreter.

Enumerates the acyclic paths of a MIR body (back edges are cut: each loop body is walked once per
path) and records, for every path, the ordered list of branch decisions keyed by the *canonical
expression* of the switch discriminant (callee + provenance of its arguments, facts.Fn.expr_*),
and the call sites / statements passed. A discriminant already decided earlier on the same path
(same canonical expression) is followed consistently, so `if f.is_x() {..}; if f.is_x() {..}` does
not produce infeasible paths. This is constant propagation over a finite lattice of predicate
valuations on the source's CFG: it executes nothing and calls no solver. It fails closed:
exceeding the path budget raises CannotDecide."""
import re
from collections import namedtuple


class CannotDecide(Exception):
    pass


Path = namedtuple("Path", "conds blocks end")
# conds: tuple of (expr, value)  value: int for listed switch targets, ('not', (v1,v2..)) for otherwise
# blocks: tuple of bb indices in order
# end: 'return' | 'backedge:<bb>' | 'diverge' | 'stop:<bb>'


def _norm_discr(fn, op, sites):
    """canonical expression of a switch operand; returns (expr, negated)"""
    e = fn.expr_operand(op)  # honours an enclosing `with fn.sites()`
    neg = False
    while e.startswith("Not(") and e.endswith(")"):
        e = e[4:-1]
        neg = not neg
    return e, neg


def classifier_summary(callee, budget=4000):
    """Summary of a local, loop-free function that classifies its arguments into a finite result (a field-less
    enum variant or a bool): [(result, conds)] with one row per path, `result` the variant name / 'true' /
    'false', `conds` the path's decisions over the callee's own canonical expressions (`arg:<param>` ...).
    None if the function is not of that shape (then the caller keeps treating the call as opaque)."""
    if getattr(callee, "_clsf_summary", "unset") != "unset":
        return callee._clsf_summary
    rows = None
    try:
        paths = enumerate_paths(callee, budget=budget)
        rows = []
        for p in paths:
            if p.end == "diverge":
                continue
            if p.end != "return":
                rows = None
                break
            v = path_value(callee, p, 0)
            if v is None:
                rows = None
                break
            m = re.match(r"^([\w:<>]+)::(\w+)\{\}$", v)
            if m:
                res = m.group(2)
            elif v in ("true", "false"):
                res = v
            else:
                rows = None
                break
            rows.append((res, tuple(p.conds)))
    except CannotDecide:
        rows = None
    callee._clsf_summary = rows
    return rows


def _call_site_args(fn, inner):
    """argument expressions of the call in `fn` whose canonical expression is `inner`"""
    cache = getattr(fn, "_call_expr_cache", None)
    if cache is None:
        cache = {}
        for b in sorted(fn.normal_blocks()):
            t = fn.blocks[b]["t"]
            if t["k"] == "call":
                cache.setdefault(fn.expr_call(t), t)
        fn._call_expr_cache = cache
    return cache.get(inner)


def _subst(expr, mapping):
    for a, b in mapping:
        expr = re.sub(r"(?<![\w:])" + re.escape(a) + r"(?![\w])", lambda _m: b, expr)
    return expr


def enumerate_paths(fn, start=0, stop_blocks=(), budget=50000, sites=False, dty_bool_only=False, inline=None):
    """All acyclic paths from `start`. `stop_blocks`: blocks at which a path ends ('stop').
    `inline`: a Facts object; a switch on the result of a local classifier function (see
    classifier_summary) is then expanded into the callee's own decisions, with the callee's parameters
    replaced by the caller's argument expressions, so that `match Bucket::of(f) {..}` yields the same
    decision rows as the if-chain it replaced."""
    out = []
    stop_blocks = set(stop_blocks)
    count = [0]
    # discriminants are always keyed WITHOUT call sites so that the same predicate evaluated twice
    # (`f.is_x()` at two places) is recognised as one decision
    saved = (fn._sites, fn._expr_cache)
    if fn._sites:
        fn._sites = False
        fn._expr_cache = {}

    def step_env(env, bb):
        """path-sensitive values of locals (constants, copies, calls, Not) after block bb"""
        blk = fn.blocks[bb]
        cur = env
        copied = False
        for s in blk["s"]:
            if s["k"] != "assign" or s["pl"]["p"]:
                continue
            rv = s["rv"]
            l = s["pl"]["l"]
            val = None
            if rv["k"] == "use":
                op = rv["op"]
                if op["k"] == "const":
                    val = fn.expr_operand(op)
                elif op["k"] in ("copy", "move") and not op["pl"]["p"]:
                    val = cur.get(op["pl"]["l"])
            elif rv["k"] == "unop" and rv["op"] == "Not":
                op = rv["a"]
                if op["k"] in ("copy", "move") and not op["pl"]["p"] and op["pl"]["l"] in cur:
                    v = cur[op["pl"]["l"]]
                    val = {"true": "false", "false": "true"}.get(v, f"Not({v})")
            if val is not None or l in cur:
                if not copied:
                    cur = dict(cur)
                    copied = True
                if val is None:
                    cur.pop(l, None)
                else:
                    cur[l] = val
        t = blk["t"]
        if t["k"] == "call" and not t["dest"]["p"]:
            if not copied:
                cur = dict(cur)
            cur[t["dest"]["l"]] = fn.expr_call(t)
        return cur

    def discr_key(t, env):
        e, neg = _norm_discr(fn, t["discr"], sites)
        if "φ{" in e:
            op = t["discr"]
            if op["k"] in ("copy", "move") and not op["pl"]["p"] and op["pl"]["l"] in env:
                e = env[op["pl"]["l"]]
                neg = False
                while e.startswith("Not(") and e.endswith(")"):
                    e = e[4:-1]
                    neg = not neg
        return e, neg

    def summary_rows(e, isbool):
        """[(result value as the caller's switch sees it, [(expr, val)...])] or None"""
        inner = e
        m = re.match(r"^discr\((.*)\)$", e)
        if m and not isbool:
            inner = m.group(1)
        elif not isbool:
            return None
        t = _call_site_args(fn, inner)
        if t is None or not t.get("local"):
            return None
        callee = inline.fns.get(t["callee"])
        if callee is None or callee is fn:
            return None
        rows = classifier_summary(callee)
        if not rows:
            return None
        mapping = []
        for k, a in enumerate(t["args"]):
            mapping.append((callee.local_name(k + 1), fn.expr_operand(a)))
        variants = None
        if not isbool:
            rt = callee.locals[0]["ty"] if isinstance(callee.locals[0], dict) else str(callee.locals[0])
            adt = inline.adts.get(rt)
            if adt is None:
                return None
            variants = [v["name"] for v in adt["variants"]]
        outrows = []
        for res, conds in rows:
            if isbool:
                val = 1 if res == "true" else 0
            else:
                if res not in variants:
                    return None
                val = variants.index(res)
            outrows.append((val, [(_subst(ce, mapping), cv) for ce, cv in conds]))
        return outrows

    def walk(bb, conds, blocks, assumed, env=None):
        env = env or {}
        while True:
            if bb in blocks:
                out.append(Path(tuple(conds), tuple(blocks), f"backedge:{bb}"))
                return
            blocks = blocks + [bb]
            env = step_env(env, bb)
            if bb in stop_blocks and len(blocks) > 1:
                out.append(Path(tuple(conds), tuple(blocks), f"stop:{bb}"))
                return
            t = fn.blocks[bb]["t"]
            k = t["k"]
            if k == "return":
                out.append(Path(tuple(conds), tuple(blocks), "return"))
                return
            if k in ("unreachable", "resume", "terminate", "other", "tailcall"):
                out.append(Path(tuple(conds), tuple(blocks), "diverge"))
                return
            if k == "switch":
                e, neg = discr_key(t, env)
                isbool = t["dty"] == "bool"
                if e in ("true", "false") and isbool:
                    # decided by constant propagation along this path
                    want = 1 if e == "true" else 0
                    if neg:
                        want = 1 - want
                    nxt = None
                    for v, tb in t["targets"]:
                        if v == want:
                            nxt = tb
                    bb = nxt if nxt is not None else t["otherwise"]
                    continue
                listed = [v for v, _ in t["targets"]]
                branches = []
                for v, tb in t["targets"]:
                    val = v
                    if isbool and neg:
                        val = 1 - v
                    branches.append((val, tb))
                if isbool:
                    other_val = 1 - listed[0] if len(listed) == 1 else ("not", tuple(listed))
                    if neg and isinstance(other_val, int):
                        other_val = 1 - other_val
                else:
                    other_val = ("not", tuple(listed))
                branches.append((other_val, t["otherwise"]))
                if e in assumed:
                    have = assumed[e]
                    consistent = [(v, tb) for v, tb in branches if _consistent(have, v)]
                    if len(consistent) == 1:
                        bb = consistent[0][1]
                        continue
                    branches = consistent or branches
                expansion = summary_rows(e, isbool) if inline is not None else None
                for v, tb in branches:
                    if expansion is not None:
                        # one sub-path per callee row whose result takes this branch
                        for res_val, extra in expansion:
                            if not _consistent(v, res_val):
                                continue
                            a2 = dict(assumed)
                            ok = True
                            for ce, cv in extra:
                                if ce in a2 and not _consistent(a2[ce], cv):
                                    ok = False
                                    break
                                a2[ce] = cv
                            if not ok:
                                continue
                            count[0] += 1
                            if count[0] > budget:
                                raise CannotDecide(f"path budget {budget} exceeded in {fn.name} (bb{bb})")
                            a2[e] = v
                            walk(tb, conds + [(e, v)] + list(extra), blocks, a2, env)
                        continue
                    count[0] += 1
                    if count[0] > budget:
                        raise CannotDecide(
                            f"path budget {budget} exceeded in {fn.name} (bb{bb})")
                    a2 = dict(assumed)
                    a2[e] = v
                    walk(tb, conds + [(e, v)], blocks, a2, env)
                return
            succ = fn.succ(bb)
            if not succ:
                out.append(Path(tuple(conds), tuple(blocks), "diverge"))
                return
            bb = succ[0]

    try:
        walk(start, [], [], {})
    finally:
        fn._sites, fn._expr_cache = saved
    return out


def _consistent(have, v):
    if isinstance(have, tuple):  # ('not', vals)
        if isinstance(v, tuple):
            return True
        return v not in have[1]
    if isinstance(v, tuple):
        return have not in v[1]
    return have == v


def path_calls(fn, path, pattern=None):
    """[(bb, term)] call terminators on the path (in order)"""
    import re
    rx = re.compile(pattern) if pattern else None
    out = []
    for b in path.blocks:
        t = fn.blocks[b]["t"]
        if t["k"] == "call":
            from .facts import strip_generics
            c = strip_generics(t["callee"])
            if rx is None or rx.search(c):
                out.append((b, t))
    return out


def cond_dict(path, keyfn):
    """{short_key: value} for the path's decisions; keyfn(expr)->short key or None"""
    d = {}
    for e, v in path.conds:
        k = keyfn(e)
        if k is not None:
            if k in d and d[k] != v:
                d[k] = "conflict"
            else:
                d[k] = v
    return d


def path_value(fn, path, local=0):
    """Value of `local` at the end of `path` by constant propagation along the path's blocks
    (constants, copies of locals and boolean negation); returns a canonical string."""
    env = {}

    def op_val(op):
        if op["k"] == "const":
            from .facts import const_repr
            return const_repr(op)
        if op["k"] in ("copy", "move") and not op["pl"]["p"]:
            l = op["pl"]["l"]
            if l in env:
                return env[l]
        return fn.expr_operand(op, 2)

    for b in path.blocks:
        for s in fn.blocks[b]["s"]:
            if s["k"] != "assign" or s["pl"]["p"]:
                continue
            rv = s["rv"]
            l = s["pl"]["l"]
            if rv["k"] == "use":
                env[l] = op_val(rv["op"])
            elif rv["k"] == "unop" and rv["op"] == "Not":
                v = op_val(rv["a"])
                env[l] = {"true": "false", "false": "true"}.get(v, f"Not({v})")
            else:
                env[l] = fn.expr_rvalue(rv, 2)
        t = fn.blocks[b]["t"]
        if t["k"] == "call" and not t["dest"]["p"]:
            env[t["dest"]["l"]] = fn.expr_call(t, 2)
    return env.get(local)
