"""Comparison of extracted tables with specification tables *modulo the names of local variables*.

Variable-level renderings (`Fn.vexpr_*`) mention user variables as `$name`. A specification table written
in a rule uses the names of the reference tree; renaming a local is behaviour-preserving and must not raise
an alarm, while using the *wrong* variable (e.g. the negative instead of the positive type accumulator) must.
`eq_mod_names(got, want)` therefore asks for one injective renaming of the specification's variables that
makes the two structures equal as a whole (so the same variable plays the same role in every row)."""
import re

_VAR = re.compile(r"\$[A-Za-z_][A-Za-z_0-9]*")


def _norm(o):
    """deterministic, order-insensitive form for sets / frozensets / dicts; lists and tuples keep order"""
    if isinstance(o, (set, frozenset)):
        return ("{}", tuple(sorted((_norm(x) for x in o), key=repr)))
    if isinstance(o, dict):
        return ("dict", tuple(sorted(((_norm(k), _norm(v)) for k, v in o.items()), key=repr)))
    if isinstance(o, (list, tuple)):
        return ("[]", tuple(_norm(x) for x in o))
    return o


def _subst(o, m):
    if isinstance(o, str):
        return _VAR.sub(lambda x: m.get(x.group(0), x.group(0)), o)
    if isinstance(o, (set, frozenset)):
        return frozenset(_subst(x, m) for x in o)
    if isinstance(o, dict):
        return {_subst(k, m): _subst(v, m) for k, v in o.items()}
    if isinstance(o, list):
        return [_subst(x, m) for x in o]
    if isinstance(o, tuple):
        return tuple(_subst(x, m) for x in o)
    return o


def _strings(o, out):
    if isinstance(o, str):
        out.append(o)
    elif isinstance(o, dict):
        for k, v in o.items():
            _strings(k, out)
            _strings(v, out)
    elif isinstance(o, (list, tuple, set, frozenset)):
        for x in o:
            _strings(x, out)
    return out


def variables(o):
    vs = []
    for s in _strings(o, []):
        for v in _VAR.findall(s):
            if v not in vs:
                vs.append(v)
    return vs


def _signature(o, var):
    """multiset of the strings `var` occurs in, with `var` marked and every other variable erased"""
    sig = []
    for s in _strings(o, []):
        if var in _VAR.findall(s):
            sig.append(_VAR.sub(lambda x: "$*" if x.group(0) == var else "$", s))
    return tuple(sorted(sig))


def renaming(got, want, fixed=("$self",)):
    """an injective map from the variables of `want` to those of `got` under which the structures are equal,
    or None. Variables listed in `fixed` map to themselves."""
    vg, vw = variables(got), variables(want)
    if len(vg) != len(vw):
        return None
    ng = _norm(got)
    cand = {}
    for w in vw:
        if w in fixed:
            cand[w] = [w] if w in vg else []
            continue
        sw = _signature(want, w)
        cand[w] = [g for g in vg if g not in fixed and _signature(got, g) == sw]
        if not cand[w]:
            return None
    order = sorted(vw, key=lambda w: len(cand[w]))
    tried = [0]

    def rec(i, m, used):
        if i == len(order):
            tried[0] += 1
            return dict(m) if _norm(_subst(want, m)) == ng else None
        if tried[0] > 20000:
            return None
        w = order[i]
        for g in cand[w]:
            if g in used:
                continue
            m[w] = g
            r = rec(i + 1, m, used | {g})
            if r is not None:
                return r
            del m[w]
        return None

    return rec(0, {}, frozenset())


def eq_mod_names(got, want, fixed=("$self",)):
    return renaming(got, want, fixed) is not None
