"""A7 — panic-site audit over a cone of functions, discharged by auto classes or by table rows.

Every panic-capable MIR site (bounds / overflow asserts, unwrap / expect, panics, str / slice / Vec
indexing, RefCell borrows, Vec::insert/remove, ...) reachable from the roots must be discharged:
  * auto classes that cannot panic by construction (listed in AUTO below), or
  * a row of rules/a7_rows.py keyed by (function, kind, callee, canonical operand expression) that names
    the branch decisions that must dominate the site and a basis:
        total            – cannot panic for any input (reason given)
        local            – justified by the dominating decisions named in the row
        input-shape      – justified by a property of the argument established by the caller(s); the
                           row names the callers' guarantee and the who-may-call set is checked
        parse-invariant  – justified only by an invariant established by NetworkFilter::parse /
                           CosmeticFilter::parse (NOT accepted for cones that consume deserialized data)
A site with no row, or whose required decisions no longer dominate it, is UNDISCHARGED (fail closed).
The operand expression is part of the key, so changing how an index is computed makes the site new."""
import re

from . import panics
from .guards import dominating_conditions
from .facts import strip_generics


def norm(fn, e):
    """positional parameter names, anonymous locals: keys survive renames of locals / parameters"""
    idx = {}
    for l, n in fn.varnames.items():
        if isinstance(l, int) and 1 <= l <= fn.argc:
            idx[n] = l

    def rep(m):
        n = m.group(1)
        return f"arg#{idx[n]}" if n in idx else f"arg:{n}"
    e = re.sub(r"arg:(\w+)", rep, e)
    # captured variables: by capture position (the field of the closure environment), not by name
    up = {u[2]: u[1][-1].get("f") for u in (fn.upvars or []) if isinstance(u[1][-1], dict)}
    e = re.sub(r"up:(\w+)", lambda m: f"up#{up[m.group(1)]}" if m.group(1) in up else m.group(0), e)
    e = re.sub(r"var:\w+", "var", e)
    e = re.sub(r"…_\d+", "…", e)
    e = re.sub(r"…var", "…", e)
    e = re.sub(r"\b_\d+\b", "_", e)
    # `s[0..e]` is `s[..e]`
    e = e.replace("std::ops::Range::Range{start: 0, end: ", "std::ops::RangeTo::RangeTo{end: ")
    return e


def call_args_of(F, fname):
    """canonical argument expressions at every call site of `fname` (the shape an `input-shape` discharge
    relies on): sorted list of "caller(arg, arg, ...)" strings, parameter names positional"""
    out = []
    for g, b, t in F.callers_of("^" + re.escape(fname) + "$"):
        args = ", ".join(norm(g, g.expr_operand(a))[:160] for a in t["args"])
        out.append(g.name.split("::{closure")[0].rsplit("::", 1)[-1] + "(" + args + ")")
    return sorted(out)


def _closure_bodies(fn, expr, depth=2):
    """values computed by the closures mentioned in `expr` (e.g. the `|i| i + 1` of `i.map(..)` in a slice
    bound): they are part of how the operand is computed, so they are part of the site's identity"""
    out = []
    for name in re.findall(r"closure\[([^\]]+)\]", expr):
        c = fn.facts.fns.get(name)
        if c is None:
            continue
        body = norm(c, c.expr_local(0))
        out.append(body)
        if depth > 0:
            out += _closure_bodies(c, body, depth - 1)
    return out


def site_key(s):
    full = norm(s.fn, s.expr)
    bodies = _closure_bodies(s.fn, s.expr)
    e, h = panics._short(full, 100)
    if bodies:
        e, h = panics._short(full + " ⟦" + " ; ".join(bodies) + "⟧", 100)
        e = panics._short(full, 100)[0]
    what = s.what
    if s.kind == "index":
        what = "index"
    if s.kind == "assert" and len(what) > 40:
        what = what[:40]
    k = f"{s.fn.name}|{s.kind}|{what}|{e}~{h}"
    return k


def site_guards(s):
    c = dominating_conditions(s.fn, s.bb)
    out = []
    for e, v in c.items():
        out.append(f"{norm(s.fn, e)[:160]} == {v}")
    return sorted(out)


IGNORED_ASSERT_RX = re.compile(r"^(NullPointerDereference|MisalignedPointerDereference)")
IGNORED_ASSERT_REASON = "compiler-inserted UB checks on raw-pointer dereferences in debug builds (no safe-code panic)"


_RX_CACHE = {}


def regex_literal_ok(lit_json):
    """validates a regex literal (as JSON string) with the rxcheck helper (regex-syntax)"""
    import json, os, subprocess
    if lit_json in _RX_CACHE:
        return _RX_CACHE[lit_json]
    exe = os.path.join(os.path.dirname(os.path.dirname(os.path.abspath(__file__))), "rxcheck", "target", "release", "rxcheck")
    if not os.path.exists(exe):
        _RX_CACHE[lit_json] = (False, "rxcheck helper not built (run setup.sh)")
        return _RX_CACHE[lit_json]
    try:
        out = subprocess.run([exe], input=lit_json + "\n", capture_output=True, text=True, timeout=20).stdout.strip()
    except Exception as e:  # pragma: no cover
        out = f"err {e}"
    _RX_CACHE[lit_json] = (out.startswith("ok"), out)
    return _RX_CACHE[lit_json]


def regex_equivalent(lit_json_a, lit_json_b):
    """(True, "") when the two regex literals (JSON strings) behave identically under leftmost-first search --
    decided by the rxcheck helper on the product of their DFAs, no input is matched --, else (False, why) with a
    shortest distinguishing input"""
    import os, subprocess
    k = ("equiv", lit_json_a, lit_json_b)
    if k in _RX_CACHE:
        return _RX_CACHE[k]
    if lit_json_a == lit_json_b:
        _RX_CACHE[k] = (True, "identical literals")
        return _RX_CACHE[k]
    exe = os.path.join(os.path.dirname(os.path.dirname(os.path.abspath(__file__))), "rxcheck", "target", "release", "rxcheck")
    if not os.path.exists(exe):
        _RX_CACHE[k] = (False, "rxcheck helper not built (run setup.sh)")
        return _RX_CACHE[k]
    try:
        out = subprocess.run([exe], input=f"equiv\t{lit_json_a}\t{lit_json_b}\n", capture_output=True, text=True,
                             timeout=120).stdout.strip()
    except Exception as e:  # pragma: no cover
        out = f"err {e}"
    if out.startswith("differ "):
        w = bytes.fromhex(out.split()[1])
        out = f"the two differ on input {w!r}"
    _RX_CACHE[k] = (out == "equiv", out)
    return _RX_CACHE[k]


def regex_single_bytes(lit_json):
    """the set of byte values a regex literal (byte-oriented, Unicode mode off) accepts as a complete one-byte input,
    read off its DFA by the rxcheck helper; None with a reason on failure"""
    import os, subprocess
    k = ("bytes", lit_json)
    if k in _RX_CACHE:
        return _RX_CACHE[k]
    exe = os.path.join(os.path.dirname(os.path.dirname(os.path.abspath(__file__))), "rxcheck", "target", "release", "rxcheck")
    if not os.path.exists(exe):
        _RX_CACHE[k] = (None, "rxcheck helper not built (run setup.sh)")
        return _RX_CACHE[k]
    try:
        out = subprocess.run([exe], input=f"bytes\t{lit_json}\n", capture_output=True, text=True, timeout=60).stdout.strip()
    except Exception as e:  # pragma: no cover
        out = f"err {e}"
    if out.startswith("bytes"):
        h = out[5:].strip()
        _RX_CACHE[k] = (frozenset(int(h[i:i + 2], 16) for i in range(0, len(h), 2)), "")
    else:
        _RX_CACHE[k] = (None, out)
    return _RX_CACHE[k]


def _ascii_hit_position(base, e):
    """`e` renders the byte position of a one-byte (ASCII) hit found in `base` itself: such a position p and
    p + 1 are char boundaries of `base` not beyond its length"""
    b = re.escape(base)
    asc = r"'(?:[ -&(-\[\]-~]|\\['\\nrt0])'"        # a printable-ASCII (or simply escaped) char literal
    pats = [
        rf"^<std::str::MatchIndices<'a, P> as std::iter::Iterator>::next\(core::str::match_indices\({b}, {asc}\)\)@Some\.0\.0$",
        rf"^<std::str::RMatchIndices<'a, P> as std::iter::Iterator>::next\(core::str::rmatch_indices\({b}, {asc}\)\)@Some\.0\.0$",
        rf"^core::str::r?find\({b}, {asc}\)@Some\.0$",
        rf"^memchr::mem(?:r)?chr\((\d+), core::str::as_bytes\({b}\)\)@Some\.0$",
        rf"^memchr::mem(?:r)?chr\((\d+), {b}\)@Some\.0$",      # (as_bytes() is transparent in the rendering)
        # a hit inside a PREFIX of the string (`s[..k]`) sits at the same position of the string itself
        rf"^memchr::mem(?:r)?chr\((\d+), <std::string::String as std::ops::Index<I>>::index\({b}, std::ops::RangeTo::RangeTo\{{end: .*\}}\)\)@Some\.0$",
    ]
    for i, p in enumerate(pats):
        m = re.match(p, e)
        if m and (i < 3 or int(m.group(m.lastindex or 1)) < 128):
            return True
    return False


def _ascii_hit_slice(base, rng):
    """`base[p..]`, `base[p + 1..]`, `base[..p]`, `base[..p + 1]` with p the position of an ASCII hit in `base`"""
    m = re.match(r"^std::ops::(?:RangeFrom::RangeFrom\{start|RangeTo::RangeTo\{end): (.*)\}$", rng)
    if not m:
        return None
    e = m.group(1)
    # `s[p + n..]` with p the position of an n-byte ASCII needle found in `s` itself (memmem::find): the end of the hit
    mk = re.match(r"^\((.*) AddWithOverflow (\d+)\)\.0$", e)
    if mk and rng.startswith("std::ops::RangeFrom"):
        mn = re.match(r"^(?:std::option::Option::ok_or\()?memchr::memmem::find\(" + re.escape(base) + r", b\"([ -!#-\[\]-~]+)\"\)(?:, .*\))?@(?:Some|Continue)\.0$", mk.group(1))
        if mn and len(mn.group(1)) == int(mk.group(2)):
            return ("slice of a string from the end of an ASCII needle found in that same string (memmem::find + needle length): "
                    "a char boundary within its length")
    m1 = re.match(r"^\((.*) AddWithOverflow 1\)\.0$", e)
    pos = m1.group(1) if m1 else e
    if _ascii_hit_position(base, pos):
        return ("one-sided slice of a string at the position (or position + 1) of a one-byte ASCII character "
                "found in that same string: a char boundary within its length")
    return None


def auto_discharge(s):
    """returns a reason string if the site cannot panic by construction"""
    if s.kind == "unwrap" and re.match(r'^regex::Regex::new\("', s.expr) and "{closure" in s.fn.name:
        lit = s.expr[len("regex::Regex::new("):-1]
        ok, out = regex_literal_ok(lit)
        if ok:
            return f"Regex::new of the constant literal {lit[:60]} — parses with regex-syntax ({out})"
        return None
    if s.kind == "assert" and IGNORED_ASSERT_RX.search(s.what):
        return IGNORED_ASSERT_REASON
    if "::_::InternalBitFlags" in s.fn.name or "::_::<impl" in s.fn.name:
        return "code generated by the bitflags! / derive macros: iteration over a constant FLAGS table bounded by its length"
    if s.kind == "assert" and s.what in ("DivisionByZero", "RemainderByZero"):
        c = s.fn.expr_operand(s.term["cond"])
        m = re.match(r"^\((\d+) Eq 0\)$", c)
        if m and int(m.group(1)) != 0:
            return f"division by the non-zero constant {m.group(1)}"
    if s.kind == "index":
        if "std::ops::RangeFull::RangeFull{}" in s.expr.split(", ", 1)[-1][:40] and s.expr.rstrip().endswith("RangeFull{}"):
            return "full-range slice `[..]` cannot panic"
        a = s.term["args"]
        if len(a) == 2:
            rng = s.fn.expr_operand(a[1])
            if rng == "std::ops::RangeFrom::RangeFrom{start: 0}":
                return "`[0..]` cannot panic"
            base = s.fn.expr_operand(a[0])
            m = re.match(r"^std::ops::RangeTo::RangeTo\{end: (core::str::len|std::string::String::len)\((.*)\)\}$", rng)
            if m and m.group(2) == base:
                return "`[..len()]` of the same string cannot panic"
            why = _ascii_hit_slice(base, rng)
            if why:
                return why
        callee = s.what
        if re.search(r"HashMap<.*> as std::ops::Index", callee):
            return None
    if s.kind == "vec-op" and s.what.endswith("Vec::insert") and len(s.term["args"]) >= 2:
        v = s.fn.expr_operand(s.term["args"][0])
        pos = s.fn.expr_operand(s.term["args"][1])
        if re.match(r"^core::slice::binary_search(_by|_by_key)?\(" + re.escape(v) + r"[,)]", pos) and pos.endswith("@Err.0"):
            return "Vec::insert at the Err(slot) of a binary search on that same vector: slot <= len"
    if s.kind == "panic":
        # debug_assert / overflow checks expanded from std macros in foreign code are not in MIR of the
        # local crate; nothing automatic here
        return None
    return None


def audit(F, roots, stop=()):
    """[(site, key, guards, auto_reason)] for every site in the cone of roots"""
    cone = F.cone(roots, stop=stop)
    out = []
    seen = {}
    for name in sorted(cone):
        f = F.fns[name]
        if "flatbuffers" in f.file:
            continue
        for s in panics.enumerate_sites(f):
            k = site_key(s)
            seen[k] = seen.get(k, 0) + 1
            if seen[k] > 1:
                k = f"{k}#{seen[k]}"
            out.append((s, k, site_guards(s), auto_discharge(s)))
    return cone, out


def check_cone(run, rule, F, cfg, roots, rows, accept_bases, stop=(), floor=0, label=""):
    """evaluates the audit of one cone against the table; records one obligation per site"""
    cone, sites = audit(F, roots, stop)
    run.touched(*cone)
    n = 0
    und = 0
    for s, key, guards, auto in sites:
        n += 1
        inst = key
        if auto:
            run.ob(rule, inst, True, f"[auto] {auto}", site=s.loc, config=cfg)
            continue
        row = rows.get(key)
        if row is None and s.kind == "panic" and "assertion failed: " in key:
            # an `assert!(cond)` is identified by the decision that fails it, not by the text of `cond` (which changes
            # with the name of a local): the reviewed row of the same function whose required guards are exactly the
            # decisions that dominate this site stands for it
            pre = s.fn.name + "|panic|"
            cands = [r for k_, r in rows.items() if k_.startswith(pre) and "assertion failed: " in k_
                     and r.get("guards") and all(any(g == h or (g.endswith("*") and h.startswith(g[:-1])) for h in guards) for g in r["guards"])
                     and any(("Eq" in g or "Ne" in g or "Gt" in g or "Lt" in g or "(" in g) for g in r["guards"])]
            taken = {k2 for _s2, k2, _g2, _a2 in sites if k2 in rows}
            cands = [r for r in cands if not any(rows.get(k2) is r for k2 in taken)]
            if len(cands) == 1:
                row = cands[0]
        if row is None and s.kind in ("index", "assert"):
            # the same site spelled with an Option combinator (`o.map_or(d, |x| e)` for `if let Some(x) = o { e } else { d }`)
            # or through a tuple scrutinee: look the row up under the key of the normalised rendering (Fn.normalised),
            # which is the plain rendering of the spelling the row was reviewed for
            try:
                with s.fn.normalised():
                    twin = [s2 for s2 in panics.enumerate_sites(s.fn) if s2.bb == s.bb and s2.kind == s.kind and s2.what == s.what]
                    if len(twin) == 1:
                        row = rows.get(site_key(twin[0]))
            except Exception:
                row = None
        if row is None and s.kind == "assert" and re.match(r"^Overflow\(Add\):[iu](8|16|32)$", s.what):
            # a narrow counter incremented by one that lives in this call only (no `self`, no static in its operand): the
            # reviewed argument for the counters of this function (rows without required guards: "reset on every call,
            # one increment per element of the input") covers it whatever container the count is kept in
            ops_ = norm(s.fn, s.expr)
            if ops_.rstrip().endswith(", 1") and not re.search(r"arg#1\b|arg:self|static:", ops_):
                pre = f"{s.fn.name}|assert|{s.what}|"
                cands = [r for k_, r in rows.items() if k_.startswith(pre) and r.get("guards") == []]
                if cands:
                    row = cands[0]
        if row is None:
            und += 1
            run.ob(rule, inst, False,
                   f"panic-capable site `{s.kind}: {s.what}` in {s.fn.name} has no discharge: "
                   f"operands `{norm(s.fn, s.expr)[:200]}`; dominating decisions: {guards[:6]}",
                   site=s.loc, status="UNDISCHARGED", config=cfg,
                   detail="new or changed panic-capable site: its index / operand provenance is not one "
                          "that was justified; either it can panic for some input, or the checker has to "
                          "be taught why it cannot")
            continue
        basis, reason, required, callers = row["basis"], row["reason"], row["guards"], row.get("callers")
        if callers:
            actual = sorted(set(g.name.split("::{closure")[0] for g, b, t in F.callers_of("^" + re.escape(s.fn.name) + "$")))
            extra = [c for c in actual if c not in callers]
            if extra:
                und += 1
                run.ob(rule, inst, False,
                       f"[input-shape] the argument for `{s.kind}: {s.what}` in {s.fn.name} relies on its callers "
                       f"{callers}; new caller(s) {extra} have not been shown to establish it ({reason})",
                       site=s.loc, status="UNDISCHARGED", config=cfg)
                continue
        want_args = row.get("call_args")
        if want_args is not None:
            have = call_args_of(F, s.fn.name)
            diff = [a for a in have if a not in want_args][:2]
            if diff:
                und += 1
                run.ob(rule, inst, False,
                       f"[input-shape] `{s.kind}: {s.what}` in {s.fn.name} is safe only for the arguments its callers "
                       f"pass ({reason}); a call site now passes different arguments: {diff}",
                       site=s.loc, status="UNDISCHARGED", config=cfg,
                       detail=f"reviewed call sites: {want_args}")
                continue
        if basis not in accept_bases:
            und += 1
            run.ob(rule, inst, False,
                   f"site `{s.kind}: {s.what}` in {s.fn.name} is justified only by basis `{basis}` "
                   f"({reason}), which does not hold in this cone ({label}): data that arrives through "
                   f"deserialization bypasses the parser",
                   site=s.loc, config=cfg)
            continue
        missing = [g for g in required if not any(g == h or (g.endswith("*") and h.startswith(g[:-1])) for h in guards)]
        run.ob(rule, inst, not missing,
               f"[{basis}] {reason}" + (f" — REQUIRED GUARD NO LONGER DOMINATES: {missing[:3]}" if missing else ""),
               site=s.loc, config=cfg,
               detail="" if not missing else f"current dominating decisions: {guards[:8]}")
    if floor:
        run.floor(rule, f"panic-capable sites in the {label} cone [{cfg}]", n, floor)
    return n, und
