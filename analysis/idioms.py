"""Equivalent spellings of small std idioms, recognised in ONE place so that the rules state the meaning and not the
spelling. Everything here works on rendered canonical expressions (facts.Fn.expr_*)."""
import re



def call_parts(e):
    """("callee", [top-level argument strings]) of a rendered call `callee(a, b, ..)`; commas inside (), [], {} and the
    <..> of type paths do not split (comparison operators are rendered as words, so `<` only opens a type path)"""
    depth = 0
    start = None
    for i, ch in enumerate(e):
        if ch == "<":
            depth += 1
        elif ch == ">" and depth > 0 and e[i - 1] != "-":
            depth -= 1
        elif ch == "(" and depth == 0:
            start = i
            break
    if start is None or not e.endswith(")"):
        return None
    depth, args, cur = 0, [], ""
    body = e[start + 1:-1]
    for i, ch in enumerate(body):
        if ch in "([{<":
            depth += 1
        elif ch in ")]}" or (ch == ">" and body[i - 1] != "-"):
            depth -= 1
        if ch == "," and depth == 0:
            args.append(cur.strip())
            cur = ""
        else:
            cur += ch
    if cur.strip():
        args.append(cur.strip())
    return e[:start], args


def option_gate(e):
    """A boolean computed from an Option by a predicate closure with a default for None:
         o.map(p).unwrap_or(d) | o.map_or(d, p) | o.is_some_and(p) [d = false] | o.is_none_or(p) [d = true]
       -> (option expression, default 'true' / 'false', closure name) or None."""
    cp = call_parts(e)
    if not cp:
        return None
    callee, args = cp
    callee = callee.split("::<")[0]

    def closure(a):
        m = re.match(r"^closure\[([^\]]+)\]", a)
        return m.group(1) if m else None
    if callee == "std::option::Option::unwrap_or" and len(args) == 2 and args[1] in ("true", "false"):
        inner = call_parts(args[0])
        if inner and inner[0] == "std::option::Option::map" and len(inner[1]) == 2 and closure(inner[1][1]):
            return inner[1][0], args[1], closure(inner[1][1])
    if callee == "std::option::Option::map_or" and len(args) == 3 and args[1] in ("true", "false") and closure(args[2]):
        return args[0], args[1], closure(args[2])
    if callee == "std::option::Option::is_some_and" and len(args) == 2 and closure(args[1]):
        return args[0], "false", closure(args[1])
    if callee == "std::option::Option::is_none_or" and len(args) == 2 and closure(args[1]):
        return args[0], "true", closure(args[1])
    return None


def split_args(body):
    """top-level comma split of a rendered argument list"""
    depth, args, cur = 0, [], ""
    for i, ch in enumerate(body):
        if ch in "([{<":
            depth += 1
        elif ch in ")]}" or (ch == ">" and i > 0 and body[i - 1] != "-"):
            depth -= 1
        if ch == "," and depth == 0:
            args.append(cur.strip())
            cur = ""
        else:
            cur += ch
    if cur.strip():
        args.append(cur.strip())
    return args
