"""Fact extraction: runs the adbfacts driver over /repo's current working tree for a set of
feature configurations and caches the resulting fact files under /verif/.cache/facts keyed by
a hash of (sources, manifest, lockfile, driver binary, configuration). Any edit to /repo changes
the key, so every check rebuilds from the current tree while the per-property commands share
one extraction. Fails closed: a missing or stale fact file is an error, never a pass."""
import hashlib
import json
import os
import shutil
import subprocess
import sys
import time
import fcntl

VERIF = os.path.dirname(os.path.dirname(os.path.abspath(__file__)))
REPO = os.environ.get("VERIF_REPO", "/repo")
CACHE = os.environ.get("VERIF_CACHE") or os.path.join(VERIF, ".cache")
DRIVER = os.path.join(VERIF, "adbfacts", "target", "release", "adbfacts")

CONFIGS = {
    # label: cargo feature arguments
    "A": [],
    "B": ["--no-default-features", "--features", "embedded-domain-resolver,full-regex-handling"],
    "C": ["--features", "content-blocking,regex-debug-info,css-validation,resource-assembler"],
    "D": ["--no-default-features", "--features", "embedded-domain-resolver"],
    "E": ["--no-default-features", "--features",
          "embedded-domain-resolver,full-regex-handling,regex-debug-info"],
}
CONFIG_DESC = {
    "A": "default features (what ships / what the pinned suite builds)",
    "B": "thread-safe build: no unsync-regex-caching (Mutex instead of RefCell)",
    "C": "default + content-blocking, regex-debug-info, css-validation, resource-assembler",
    "D": "minimal: embedded-domain-resolver only (no full-regex-handling, Mutex build)",
    "E": "thread-safe build + regex-debug-info",
}


def _sysroot():
    return subprocess.check_output(["rustc", "+nightly", "--print", "sysroot"], text=True).strip()


def tree_hash(repo=REPO):
    h = hashlib.sha256()
    files = []
    for root, dirs, fs in os.walk(os.path.join(repo, "src")):
        dirs.sort()
        for f in sorted(fs):
            files.append(os.path.join(root, f))
    for f in ("Cargo.toml", "Cargo.lock"):
        files.append(os.path.join(repo, f))
    for f in files:
        h.update(os.path.relpath(f, repo).encode())
        h.update(b"\0")
        with open(f, "rb") as fh:
            h.update(fh.read())
        h.update(b"\0")
    with open(DRIVER, "rb") as fh:
        h.update(hashlib.sha256(fh.read()).digest())
    return h.hexdigest()[:20]


def ensure_driver():
    if not os.path.exists(DRIVER):
        env = dict(os.environ, CARGO_NET_OFFLINE="true")
        subprocess.check_call(["cargo", "build", "--offline", "--release"],
                              cwd=os.path.join(VERIF, "adbfacts"), env=env)
    if not os.path.exists(DRIVER):
        raise SystemExit("extract: driver binary missing (run MANIFEST.setup_cmd)")


def extract(label, repo=REPO, crate="adblock", extra_env=None, manifest_dir=None):
    """Returns the path of a fresh fact file for configuration `label`."""
    ensure_driver()
    os.makedirs(os.path.join(CACHE, "facts"), exist_ok=True)
    key = tree_hash(repo)
    out = os.path.join(CACHE, "facts", f"{crate}-{label}-{key}.json")
    if os.path.exists(out) and os.path.getsize(out) > 1000:
        return out
    lock_path = os.path.join(CACHE, f"extract-{label}.lock")
    with open(lock_path, "w") as lock:
        fcntl.flock(lock, fcntl.LOCK_EX)
        if os.path.exists(out) and os.path.getsize(out) > 1000:
            return out
        target = os.path.join(CACHE, "target", label)
        os.makedirs(target, exist_ok=True)
        # cargo's freshness cache would skip the wrapper: remove the local crate's fingerprints
        fp = os.path.join(target, "debug", ".fingerprint")
        if os.path.isdir(fp):
            for d in os.listdir(fp):
                if d.startswith(crate + "-"):
                    shutil.rmtree(os.path.join(fp, d), ignore_errors=True)
        env = dict(os.environ)
        env.update({
            "CARGO_NET_OFFLINE": "true",
            "LD_LIBRARY_PATH": _sysroot() + "/lib",
            "RUSTFLAGS": "-Zmir-opt-level=0 -Awarnings",
            "RUSTC_WORKSPACE_WRAPPER": DRIVER,
            "CARGO_TARGET_DIR": target,
            "ADBFACTS_OUT": out,
            "ADBFACTS_CRATE": crate,
        })
        env.pop("RUSTC_WRAPPER", None)
        if extra_env:
            env.update(extra_env)
        cmd = ["cargo", "+nightly", "check", "--offline", "--lib", "-q"] + CONFIGS[label]
        t0 = time.time()
        r = subprocess.run(cmd, cwd=manifest_dir or repo, env=env, capture_output=True, text=True)
        if r.returncode != 0:
            sys.stderr.write(r.stdout[-4000:] + r.stderr[-8000:])
            raise SystemExit(f"extract: cargo check failed for configuration {label} "
                             f"(the tree does not compile in this configuration)")
        if not os.path.exists(out) or os.path.getsize(out) < 1000:
            raise SystemExit(f"extract: driver produced no fact file for configuration {label} "
                             f"(fail closed; wrapper skipped?)")
        # prune stale fact files of this configuration
        for f in os.listdir(os.path.join(CACHE, "facts")):
            if f.startswith(f"{crate}-{label}-") and not f.endswith(f"{key}.json"):
                try:
                    os.remove(os.path.join(CACHE, "facts", f))
                except OSError:
                    pass
        sys.stderr.write(f"[extract] configuration {label}: {time.time()-t0:.1f}s -> {out}\n")
    return out


def load(label, repo=REPO):
    p = extract(label, repo)
    with open(p) as fh:
        facts = json.load(fh)
    facts["_label"] = label
    facts["_path"] = p
    return facts


def extract_many(labels, repo=REPO):
    """extract several configurations concurrently (separate target directories per configuration)"""
    from concurrent.futures import ThreadPoolExecutor
    with ThreadPoolExecutor(max_workers=len(labels)) as ex:
        return list(ex.map(lambda l: extract(l, repo), labels))


if __name__ == "__main__":
    labels = sys.argv[1:] or ["A", "B", "C"]
    for p in extract_many(labels):
        print(p)
