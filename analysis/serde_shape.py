"""Shape of serde-derived impls read from their MIR (serde's helper attributes are not visible in HIR on this
nightly, but what they generate is): which wire keys a derived Deserialize accepts for which field, and whether a
derived Serialize writes every field on every path.

`de_keys(F, ty)`      {accepted key string: field position}   from `__FieldVisitor::visit_str`
`ser_struct(F, ty)`   {"fields": [(key, block)], "skips": [key], "end": block, "unconditional": [key], "fn": Fn}
"""
import re


def _fns(F, ty, trait, tail):
    base = re.escape(ty)
    rx = re.compile(trait + r"(<'de>)? for " + base + r"(<[^>]*>)?>::" + tail)
    return [f for n, f in F.fns.items() if rx.search(n) and "{closure" not in n]


def field_visitor(F, ty, method="visit_str"):
    c = [f for f in _fns(F, ty, "Deserialize", r"deserialize::__FieldVisitor as .*::" + method + "$")]
    return c[0] if len(c) == 1 else None


def de_keys(F, ty):
    """accepted key -> index N of the `__fieldN` variant the derived field visitor returns for it (None = ignored).
    Returns None if the type has no derived keyed field visitor."""
    v = field_visitor(F, ty)
    if v is None:
        return None
    out = {}
    for b, t in v.calls(r"PartialEq for str>::eq$"):
        consts = [a for a in t["args"] if a.get("k") == "const" and isinstance(a.get("val"), dict) and "str" in a["val"]]
        if len(consts) != 1:
            continue
        key = consts[0]["val"]["str"]
        # follow the true edge of the switch on the comparison result
        nb = t.get("t")
        variant = None
        hops = 0
        while nb is not None and hops < 4:
            blk = v.blocks[nb]
            term = blk["t"]
            found = [s for s in blk["s"] if s["k"] == "assign" and s["rv"].get("k") == "agg"
                     and str(s["rv"].get("adt", "")).endswith("::__Field")]
            if found:
                variant = found[0]["rv"].get("variant")
                break
            if term["k"] == "switch":
                # `if eq { A } else { B }`: value 0 -> else; the otherwise edge is the true edge
                tg = term.get("targets") or []
                other = term.get("otherwise")
                nb = other if other is not None else (tg[-1][1] if tg else None)
            elif term["k"] == "goto":
                nb = term.get("t")
            else:
                break
            hops += 1
        m = re.match(r"^__field(\d+)$", variant or "")
        out[key] = int(m.group(1)) if m else None
    return out


def ser_struct(F, ty):
    c = _fns(F, ty, "Serialize", r"serialize$")
    if len(c) != 1:
        return None
    f = c[0]
    if not f.calls(r"Serializer::serialize_struct$"):
        return None
    fields = []
    for b, t in f.calls(r"SerializeStruct::serialize_field$"):
        fields.append((f.expr_operand(t["args"][1]).strip('"'), b))
    skips = [f.expr_operand(t["args"][1]).strip('"') for b, t in f.calls(r"SerializeStruct::skip_field$")]
    ends = [b for b, t in f.calls(r"SerializeStruct::end$")]
    end = ends[0] if len(ends) == 1 else None
    uncond = [k for k, b in fields if end is not None and f.dominates(b, end)]
    ln = f.calls(r"Serializer::serialize_struct$")[0][1]["args"][2]
    return {"fn": f, "fields": fields, "skips": skips, "end": end, "unconditional": uncond,
            "len_const": ln.get("k") == "const", "len": f.expr_operand(ln)}
