"""A7 — panic-site audit: enumerate every panic-capable MIR site of a set of functions."""
import hashlib
import re

from .facts import strip_generics, loc_of, macros_of

# callee patterns (on generic-stripped resolved path) that can panic, with a kind label
PANIC_CALLEES = [
    (r"^std::option::Option::unwrap$", "unwrap"),
    (r"^std::option::Option::expect$", "expect"),
    (r"^std::result::Result::unwrap$", "unwrap"),
    (r"^std::result::Result::expect$", "expect"),
    (r"^std::result::Result::unwrap_err$", "unwrap"),
    (r"^std::result::Result::expect_err$", "expect"),
    (r"^core::panicking::", "panic"),
    (r"^std::rt::begin_panic", "panic"),
    (r"^std::rt::panic_fmt", "panic"),
    (r"^core::option::unwrap_failed|^core::option::expect_failed|^core::result::unwrap_failed", "panic"),
    (r"^std::process::(abort|exit)$", "abort"),
    (r"as std::ops::Index<.*>>::index$", "index"),
    (r"as std::ops::IndexMut<.*>>::index_mut$", "index"),
    (r"^core::str::traits::<impl std::ops::Index<.*> for str>::index$", "index"),
    (r"^core::slice::index::<impl std::ops::Index<.*> for \[T\]>::index$", "index"),
    (r"^std::cell::RefCell::borrow_mut$", "borrow"),
    (r"^std::cell::RefCell::borrow$", "borrow"),
    (r"^std::vec::Vec::(insert|remove|swap_remove|split_off|drain|splice)$", "vec-op"),
    (r"^std::string::String::(insert|insert_str|remove|split_off|drain|replace_range|truncate)$", "string-op"),
    (r"^core::str::split_at(_mut)?$|^std::str::split_at$", "string-op"),
    (r"^core::slice::(split_at|copy_from_slice|clone_from_slice|swap|chunks|windows|chunks_exact|rotate_left|rotate_right)$", "slice-op"),
    (r"^std::iter::Iterator::step_by$", "iter-op"),
    (r"^std::time::Instant::(duration_since|sub)$|as std::ops::Sub(<.*>)?>::sub$", "time-op"),
    (r"^<std::time::(Instant|Duration|SystemTime) as std::ops::(Add|Mul|Div|AddAssign|SubAssign|MulAssign|DivAssign)", "time-op"),
    (r"^std::time::Duration::(from_secs_f32|from_secs_f64|mul_f32|mul_f64|div_f32|div_f64|new)$", "time-op"),
    (r"^std::char::from_digit$", "char-op"),
    (r"^std::sync::Mutex::lock$", None),  # lock itself does not panic; the unwrap does
]
_PC = [(re.compile(p), k) for p, k in PANIC_CALLEES]

IGNORED_ASSERTS = {"Overflow(Add)", "Overflow(Mul)", "Overflow(Shl)", "Overflow(Shr)"}
IGNORE_REASON = ("Add/Mul overflow of a 64-bit (or wider) integer needs an operand near 2^63, i.e. an input of more "
                 "than 2^62 bytes or 2^63 calls; shifts are by constants. The argument does not carry over to a "
                 "narrower integer: an Add/Mul overflow check on i8..i32 / u8..u32 is an ordinary site")
WIDE_INTS = {"usize", "isize", "u64", "i64", "u128", "i128"}


def _local_ty(fn, l):
    v = fn.locals[l]
    return v.get("ty") if isinstance(v, dict) else (v if isinstance(v, str) else None)


def _operand_scalar_ty(fn, o):
    """type of a by-value scalar operand (None if it is reached through a projection we cannot type)"""
    if o.get("k") == "const":
        return o.get("ty")
    if o.get("k") in ("move", "copy") and not o["pl"].get("p"):
        return _local_ty(fn, o["pl"]["l"])
    return None


def overflow_width(fn, t):
    """the integer type an arithmetic overflow assert is about: the type of the right-hand operand (the left one
    may be a place behind a reference for `x.f += 1`)"""
    # the checked operation's result is the `(T, bool)` pair whose `.1` the assert tests
    c = t.get("cond", {})
    if c.get("k") in ("move", "copy"):
        m = re.match(r"^\(([iu](?:8|16|32|64|128|size)), bool\)$", _local_ty(fn, c["pl"]["l"]) or "")
        if m:
            return m.group(1)
    tys = [_operand_scalar_ty(fn, o) for o in t.get("ops", [])]
    tys = [x for x in tys if x and re.match(r"^[iu](8|16|32|64|128|size)$", x)]
    return tys[-1] if tys else None


class Site:
    __slots__ = ("fn", "bb", "kind", "what", "expr", "loc", "term", "key", "macros", "ord")

    def __repr__(self):
        return f"<{self.kind} {self.what} {self.fn.name} {self.loc}>"


def _short(expr, n=140):
    h = hashlib.sha256(expr.encode()).hexdigest()[:8]
    e = expr if len(expr) <= n else expr[:n] + "…"
    return e, h


def classify_call(callee):
    c = strip_generics(callee)
    for rx, k in _PC:
        if rx.search(c) or rx.search(callee):
            return k
    return None


def enumerate_sites(fn, include_expansion=True):
    """all panic-capable sites of one function body (normal, non-cleanup blocks)"""
    sites = []
    counts = {}
    for b in sorted(fn.normal_blocks()):
        t = fn.blocks[b]["t"]
        s = None
        if t["k"] == "assert":
            what = t["msg"]
            if t["msg"] in IGNORED_ASSERTS:
                w = overflow_width(fn, t)
                if t["msg"].startswith("Overflow(Sh") or w in WIDE_INTS:
                    continue
                what = f"{t['msg']}:{w or 'untyped'}"
            s = Site()
            s.kind = "assert"
            s.what = what
            s.expr = " , ".join(fn.expr_operand(o) for o in t["ops"])
        elif t["k"] == "call":
            k = classify_call(t["callee"])
            if k is None:
                continue
            s = Site()
            s.kind = k
            s.what = strip_generics(t["callee"])
            s.expr = ", ".join(fn.expr_operand(a) for a in t["args"])
        if s is None:
            continue
        s.fn = fn
        s.bb = b
        s.term = t
        s.loc = loc_of(t.get("sp"))
        s.macros = macros_of(t.get("sp"))
        e, h = _short(s.expr)
        base = f"{fn.name}|{s.kind}|{s.what}|{e}"
        counts[base] = counts.get(base, 0) + 1
        s.ord = counts[base]
        s.key = base + (f"#{s.ord}" if s.ord > 1 else "")
        sites.append(s)
    return sites


def unreachable_arm(site):
    return any("unreachable" in m for m in site.macros)
