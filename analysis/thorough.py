"""Thorough tier: checker self-test against mutants / seeded changes / behaviour-preserving refactors,
each applied to a scratch worktree under /tmp (removed afterwards, with its build output), plus the
type-level witnesses for C19. None of this replaces the quick rules — they are re-evaluated first on
/repo's current tree; the self-test measures that the rules still report the confirmed breakages
(kill matrix) and stay silent on refactors, and records both in the evidence."""
import glob
import json
import os
import re
import shutil
import subprocess
import time

VERIF = os.path.dirname(os.path.dirname(os.path.abspath(__file__)))


def _sh(cmd, cwd=None, env=None, timeout=3600):
    return subprocess.run(cmd, shell=True, cwd=cwd, env=env, capture_output=True, text=True, timeout=timeout)


def patches_for(pid):
    out = []
    for p in sorted(glob.glob(os.path.join(VERIF, "mutants", f"{pid}-*.patch"))):
        out.append((os.path.basename(p)[:-6], p, "mutant"))
    for d in sorted(glob.glob(os.path.join(VERIF, "seeded", f"{pid}-*"))):
        if os.path.exists(os.path.join(d, "patch.diff")):
            try:
                if not json.load(open(os.path.join(d, "meta.json"))).get("applies_to_current_tree", True):
                    continue        # a later repair rewrote the code this seed changes (reason in its meta.json)
            except (OSError, ValueError):
                pass
            out.append((os.path.basename(d), os.path.join(d, "patch.diff"), "seed"))
    # changes seeded for another property that this property's rules are expected to report
    # (an evenly spread sample of them: the full cross product is what tools/seed_matrix.py computes, offline, into
    #  seeded/MATRIX.json; VERIF_SELFTEST_CROSS=0 runs them all here as well)
    mpath = os.path.join(VERIF, "seeded", "MATRIX.json")
    if os.path.exists(mpath):
        m = json.load(open(mpath))
        cross = []
        for name, v in sorted(m.items()):
            if pid in v.get("detected_by", []) and not name.startswith(pid):
                p = os.path.join(VERIF, "seeded", name, "patch.diff")
                if not os.path.exists(p):
                    p = os.path.join(VERIF, "mutants", name + ".patch")
                if os.path.exists(p):
                    cross.append((name, p, "cross"))
        cap = int(os.environ.get("VERIF_SELFTEST_CROSS", "15") or 0)
        if cap and len(cross) > cap:
            step = len(cross) / cap
            cross = [cross[int(i * step)] for i in range(cap)]
        out += cross
    return out


def refactors_for(pid):
    out = []
    for p in sorted(glob.glob(os.path.join(VERIF, "refactors", "*.patch"))):
        head = open(p).read(600)
        m = re.search(r"^# properties: (.*)$", head, re.M)
        props = m.group(1).split() if m else []
        if not props or pid in props or "ALL" in props:
            out.append((os.path.basename(p)[:-6], p))
    return out


def self_test(run, pid, repo):
    t0 = time.time()
    wt = f"/tmp/verif-thorough-{pid}-{os.getpid()}"
    cache = f"/tmp/verif-thorough-cache-{pid}-{os.getpid()}"
    res = {"mutants_total": 0, "mutants_killed": 0, "survivors": [], "kills": {}, "refactors_total": 0,
           "refactors_silent": 0, "refactor_alarms": []}
    try:
        r = _sh(f"git -C {repo} worktree add -q --detach {wt} HEAD")
        if r.returncode != 0:
            res["error"] = "cannot create scratch worktree: " + r.stderr[-200:]
            return res
        # carry over uncommitted edits of the tree under analysis
        d = _sh(f"git -C {repo} diff HEAD")
        if d.stdout.strip():
            open(wt + "/.wip.diff", "w").write(d.stdout)
            _sh("git apply .wip.diff", cwd=wt)
        env = dict(os.environ, VERIF_REPO=wt, VERIF_NO_EVIDENCE="1", VERIF_CACHE=cache, VERIF_TIER="quick")
        base = _sh("git diff", cwd=wt).stdout

        def reset():
            _sh("git checkout -q -- . && git clean -qfd -e .wip.diff", cwd=wt)
            if os.path.exists(wt + "/.wip.diff"):
                _sh("git apply .wip.diff", cwd=wt)

        for name, patch, kind in patches_for(pid):
            reset()
            a = _sh(f"git apply {patch}", cwd=wt)
            if a.returncode != 0:
                res.setdefault("not_applicable", []).append(name)
                continue
            res["mutants_total"] += 1
            r = _sh(f"./check {pid} quick", cwd=VERIF, env=env)
            keys = sorted(set(k.split("|cfg=")[0] for k in re.findall(r"^    instance: (.*)$", r.stdout, re.M)))
            if r.returncode == 1 and keys:
                res["mutants_killed"] += 1
                res["kills"][name] = keys[:3]
            else:
                res["survivors"].append(name)
        for name, patch in refactors_for(pid):
            reset()
            a = _sh(f"git apply {patch}", cwd=wt)
            if a.returncode != 0:
                res.setdefault("not_applicable", []).append(name)
                continue
            res["refactors_total"] += 1
            r = _sh(f"./check {pid} quick", cwd=VERIF, env=env)
            if r.returncode == 0:
                res["refactors_silent"] += 1
            else:
                keys = sorted(set(k.split("|cfg=")[0] for k in re.findall(r"^    instance: (.*)$", r.stdout, re.M)))
                res["refactor_alarms"].append({name: keys[:3]})
    finally:
        _sh(f"git -C {repo} worktree remove --force {wt}")
        shutil.rmtree(wt, ignore_errors=True)
        shutil.rmtree(cache, ignore_errors=True)
        _sh(f"git -C {repo} worktree prune")
    res["self_test_wall_s"] = round(time.time() - t0, 1)
    return res


def witnesses(run):
    """C19: compile-pass / compile-fail doctests (nightly honours the error code)"""
    out = {}
    from . import extract
    for name in ("witness", "witness_sync"):
        d = os.path.join(VERIF, name)
        shutil.copy(os.path.join(extract.REPO, "Cargo.lock"), os.path.join(d, "Cargo.lock"))
        env = dict(os.environ, CARGO_NET_OFFLINE="true", CARGO_TARGET_DIR=os.path.join(extract.CACHE, "target", "witness"))
        r = _sh("cargo +nightly test --doc --offline 2>&1 | tail -8", cwd=d, env=env)
        ok = "test result: ok. 2 passed" in r.stdout
        out[name] = ok
        run.ob("C19.1.send-sync", f"witness:{name}", ok,
               f"doctest witnesses in /verif/{name} (compile-pass twin + compile_fail,E0277): " +
               ("2 passed" if ok else r.stdout[-300:]), config="witness")
    return out
